(** C02 — executable model of the skyway oracle (x/skyway/keeper/attestation.go: Attest,
    TryAttestation, processAttestation; x/skyway/keeper/attestation_handler.go: the three handlers;
    x/skyway/abci.go: attestationTally, pruneAttestations; x/skyway/keeper/keeper.go: overrideNonce,
    UpdateValidatorNoncesToLatest, the EVM chain activation subscriber; x/skyway/keeper/genesis.go:
    ExportGenesis / InitGenesis of attestations and nonces).  This file is ONE remote chain (every
    store of the module is prefixed by the chain reference id); several chains in one history are
    Skyway/OracleChains.v, built on the [step] of this file.  Definitions only.

    Validators are integers; a claim is its event nonce, its hash class [c_h] (the harness supplies
    the real ClaimHash, so nothing is assumed about the hash), the remote block height, the compass
    (bridge deployment) id it names (0 = ""), its type [c_kind] and the type's effect fields:

      kind 0  MsgSendToPalomaClaim      c_rcv receiver, c_amt amount, c_tok: the token is a registered
                                        bridge token of this chain (the handler can mint)
      kind 1  MsgBatchSendToRemoteClaim c_rcv token contract, c_amt batch nonce (c_tok unused); the
                                        handler can run iff that batch is pending and not timed out
      kind 2  MsgLightNodeSaleClaim     c_rcv client, c_amt amount, c_tok: the claim names the chain's
                                        registered sale contract; the handler can run iff it does and
                                        the client holds no licence yet

    These come from the translated source (Gen.C02): the threshold 66 / 100, whether Attest
    appends a vote only when it is not yet in [Votes] ([vote_dedup]), whether TryAttestation
    records the remote block height (the step that can still fail) before it moves the cursor
    ([height_before_cursor]), whether attestationTally returns TryAttestation's error
    ([tally_aborts_on_error]), whether the claim handlers require a Bonded validator
    ([vote_requires_bonded]). *)
From Coq Require Import List ZArith Bool.
From Paloma Require Import Base.Num.
From Paloma Require Gen.C02.
Import ListNotations.
Open Scope Z_scope.

Record claim := mkClaim {
  c_nonce : Z; c_h : Z; c_height : Z; c_compass : Z; c_kind : Z; c_rcv : Z; c_amt : Z; c_tok : bool }.

Record att := mkAtt { a_votes : list Z; a_obs : bool; a_claim : claim }.

(** One effect taking place: in which reset epoch, which claim, and whether the handler succeeded
    (its writes are committed iff it did). *)
Record entry := mkEntry { e_epoch : Z; e_claim : claim; e_ok : bool }.

Record state := mkState {
  atts : list (Z * Z * att);      (* attestation store: key (nonce, hash), iteration order of the KV store *)
  last_obs : Z;                   (* LastObservedEventNonceKey *)
  last_height : Z;                (* LastObservedEthereumBlockHeightKey (remote height) *)
  vnonce : list (Z * Z);          (* LastEventNonceByValidatorKey: only validators that have a record *)
  compass : Z;                    (* LatestCompassIDKey, 0 = "" *)
  pw : list (Z * Z);              (* staking: last validator power (no record = 0) *)
  total : Z;                      (* staking: last total power *)
  bonded : list Z;                (* staking: validators that have a record with status Bonded *)
  bal : list (Z * Z);             (* bank: what the deposit handler minted to each receiver *)
  batches : list (Z * Z * Z);     (* pending outgoing batches of this chain: (token, batch nonce, timeout) *)
  last_batch : Z;                 (* highest batch nonce handed out so far (KeyLastOutgoingBatchID) *)
  lic : list (Z * Z);             (* light-node licences created by this chain's sale claims: client -> amount *)
  (* history variables (not state of the implementation) *)
  epoch : Z;                      (* number of cursor resets so far *)
  epoch_cursor : Z;               (* value the cursor was given by the last reset *)
  applied : list entry            (* effects in the order they took place *)
}.

Definition init : state := mkState [] 0 0 [] 0 [] 0 [] [] [] 0 [] 0 0 [].

Inductive op :=
| VoteBy (sg v : Z) (known : bool) (c : claim) (* a *Claim message created / signed by account [sg] that names validator [v] as orchestrator;
                                              [known]: the named orchestrator address is a validator operator's *)
| Tally                                    (* attestationTally *)
| Prune                                    (* pruneAttestations *)
| SetPowers (p : list (Z * Z)) (t : Z)     (* staking end-block changes powers *)
| SetBonded (l : list Z)                   (* staking: who has a validator record with status Bonded *)
| CatchUp                                  (* UpdateValidatorNoncesToLatest *)
| Override (n : Z)                         (* governance MsgNonceOverrideProposal *)
| Activate (id : Z)                        (* EVM chain activation: new compass id, cursor to 0 *)
| MkBatch (tok bn timeout : Z)             (* BuildOutgoingTXBatch stored a batch of this chain *)
| DropBatch (tok bn : Z)                   (* CancelOutgoingTXBatch *)
| Regenesis.                               (* ExportGenesis, wipe the module store, InitGenesis *)

(** ** finite maps as sorted association lists *)
Fixpoint zget (l : list (Z * Z)) (k : Z) : option Z :=
  match l with
  | [] => None
  | (k', x) :: r => if k =? k' then Some x else zget r k
  end.

Fixpoint zset (l : list (Z * Z)) (k x : Z) : list (Z * Z) :=
  match l with
  | [] => [(k, x)]
  | (k', x') :: r =>
      if k =? k' then (k, x) :: r
      else if k <? k' then (k, x) :: l
      else (k', x') :: zset r k x
  end.

Definition zget0 (l : list (Z * Z)) (k : Z) : Z := match zget l k with Some x => x | None => 0 end.

Definition keyeqb (n h n' h' : Z) : bool := (n =? n') && (h =? h').
Definition keyltb (n h n' h' : Z) : bool := (n <? n') || ((n =? n') && (h <? h')).

Fixpoint get_att (l : list (Z * Z * att)) (n h : Z) : option att :=
  match l with
  | [] => None
  | (n', h', a) :: r => if keyeqb n h n' h' then Some a else get_att r n h
  end.

Fixpoint set_att (l : list (Z * Z * att)) (n h : Z) (a : att) : list (Z * Z * att) :=
  match l with
  | [] => [(n, h, a)]
  | (n', h', a') :: r =>
      if keyeqb n h n' h' then (n, h, a) :: r
      else if keyltb n h n' h' then (n, h, a) :: l
      else (n', h', a') :: set_att r n h a
  end.

Fixpoint mem (v : Z) (l : list Z) : bool :=
  match l with [] => false | x :: r => (v =? x) || mem v r end.

(** pending batches: lookup / delete by (token, batch nonce) *)
Definition bkeyb (tok bn : Z) (b : Z * Z * Z) : bool := (fst (fst b) =? tok) && (snd (fst b) =? bn).
Fixpoint bget (l : list (Z * Z * Z)) (tok bn : Z) : option Z :=
  match l with
  | [] => None
  | b :: r => if bkeyb tok bn b then Some (snd b) else bget r tok bn
  end.
Definition bdel (l : list (Z * Z * Z)) (tok bn : Z) : list (Z * Z * Z) :=
  filter (fun b => negb (bkeyb tok bn b)) l.

(** ** record updates *)
Definition with_atts (s : state) x :=
  mkState x (last_obs s) (last_height s) (vnonce s) (compass s) (pw s) (total s) (bonded s) (bal s)
          (batches s) (last_batch s) (lic s) (epoch s) (epoch_cursor s) (applied s).
Definition with_last_obs (s : state) x :=
  mkState (atts s) x (last_height s) (vnonce s) (compass s) (pw s) (total s) (bonded s) (bal s)
          (batches s) (last_batch s) (lic s) (epoch s) (epoch_cursor s) (applied s).
Definition with_vnonce (s : state) x :=
  mkState (atts s) (last_obs s) (last_height s) x (compass s) (pw s) (total s) (bonded s) (bal s)
          (batches s) (last_batch s) (lic s) (epoch s) (epoch_cursor s) (applied s).
Definition with_powers (s : state) p t :=
  mkState (atts s) (last_obs s) (last_height s) (vnonce s) (compass s) p t (bonded s) (bal s)
          (batches s) (last_batch s) (lic s) (epoch s) (epoch_cursor s) (applied s).
Definition with_bonded (s : state) l :=
  mkState (atts s) (last_obs s) (last_height s) (vnonce s) (compass s) (pw s) (total s) l (bal s)
          (batches s) (last_batch s) (lic s) (epoch s) (epoch_cursor s) (applied s).
Definition with_bal (s : state) x :=
  mkState (atts s) (last_obs s) (last_height s) (vnonce s) (compass s) (pw s) (total s) (bonded s) x
          (batches s) (last_batch s) (lic s) (epoch s) (epoch_cursor s) (applied s).
Definition with_batches (s : state) x lb :=
  mkState (atts s) (last_obs s) (last_height s) (vnonce s) (compass s) (pw s) (total s) (bonded s) (bal s)
          x lb (lic s) (epoch s) (epoch_cursor s) (applied s).
Definition with_lic (s : state) x :=
  mkState (atts s) (last_obs s) (last_height s) (vnonce s) (compass s) (pw s) (total s) (bonded s) (bal s)
          (batches s) (last_batch s) x (epoch s) (epoch_cursor s) (applied s).

(** ** Attest *)
(** GetLastSkywayNonceByValidator: a validator without a record starts one below the cursor. *)
Definition default_last (cur : Z) : Z := if 1 <=? cur then cur - 1 else 0.
Definition val_last (s : state) (v : Z) : Z :=
  match zget (vnonce s) v with
  | Some x => x
  | None => default_last (last_obs s)
  end.

(** ValidateBasic of the claim messages: the nonce is a positive uint64. *)
Definition valid_claim (c : claim) : bool := (1 <=? c_nonce c) && (c_nonce c <? two64).

Definition add_vote (votes : list Z) (v : Z) : list Z :=
  if Gen.C02.vote_dedup && mem v votes then votes else votes ++ [v].

Definition vote_att (s : state) (c : claim) : att :=
  match get_att (atts s) (c_nonce c) (c_h c) with
  | Some a => a
  | None => mkAtt [] false c
  end.

(** msgServer.BatchSendToRemoteClaim / additionalPatchChecks: an executed-batch claim for a batch that
    is still pending is refused when its remote height is not below the batch's timeout. *)
Definition batch_precheck (s : state) (c : claim) : bool :=
  if c_kind c =? 1 then
    match bget (batches s) (c_rcv c) (c_amt c) with
    | Some timeout => c_height c <? timeout
    | None => true
    end
  else true.

(** Is the vote accepted in state [s]?  checkOrchestratorValidatorInSet: the orchestrator is the
    operator of a validator that has a staking record ([known]) whose status is Bonded. *)
Definition creator_bound (k : Z) : bool :=
  if k =? 0 then Gen.C02.creator_bound_deposit
  else if k =? 1 then Gen.C02.creator_bound_batch
  else if k =? 2 then Gen.C02.creator_bound_sale else true.

Definition vote_ok (s : state) (sg v : Z) (known : bool) (c : claim) : bool :=
  (negb (creator_bound (c_kind c)) || (sg =? v)) && known && (negb Gen.C02.vote_requires_bonded || mem v (bonded s)) && batch_precheck s c && valid_claim c && (c_nonce c =? u64 (val_last s v + 1))
  && (c_height (a_claim (vote_att s c)) =? c_height c).

Definition vote (s : state) (sg v : Z) (known : bool) (c : claim) : state :=
  if vote_ok s sg v known c then
    let a := vote_att s c in
    with_vnonce
      (with_atts s (set_att (atts s) (c_nonce c) (c_h c) (mkAtt (add_vote (a_votes a) v) (a_obs a) (a_claim a))))
      (zset (vnonce s) v (c_nonce c))
  else s.

(** ** TryAttestation *)
Definition required (s : state) : Z := Z.quot (Gen.C02.threshold_num * total s) Gen.C02.threshold_den.

(** The loop over [Votes]: the shortest prefix whose summed power exceeds [req], if any.  The power
    of a validator is added once per ENTRY of the list. *)
Definition exceeds (req x : Z) : bool := if Gen.C02.threshold_strict then req <? x else req <=? x.

Fixpoint fire_prefix (p : list (Z * Z)) (req acc : Z) (votes : list Z) : option (list Z) :=
  match votes with
  | [] => None
  | v :: r =>
      let acc' := acc + zget0 p v in
      if exceeds req acc' then Some [v]
      else match fire_prefix p req acc' r with Some vs => Some (v :: vs) | None => None end
  end.

Definition badd (l : list (Z * Z)) (k x : Z) : list (Z * Z) := zset l k (zget0 l k + x).

(** AttestationHandler.Handle: can the handler of this claim run to the end in state [s]? *)
Definition applicable (s : state) (c : claim) : bool :=
  if c_kind c =? 0 then c_tok c
  else if c_kind c =? 1 then
    match bget (batches s) (c_rcv c) (c_amt c) with
    | Some timeout => c_height c <? timeout
    | None => false
    end
  else if c_kind c =? 2 then
    c_tok c && match zget (lic s) (c_rcv c) with None => true | Some _ => false end
  else false.

(** What the handler writes when it can run. *)
Definition effect (s : state) (c : claim) : state :=
  if c_kind c =? 0 then with_bal s (badd (bal s) (c_rcv c) (c_amt c))
  else if c_kind c =? 1 then with_batches s (bdel (batches s) (c_rcv c) (c_amt c)) (last_batch s)
  else with_lic s (zset (lic s) (c_rcv c) (c_amt c)).

(** Cursor and height written, attestation marked observed, handler run in a cache context
    (committed iff it succeeds; its error is swallowed). *)
Definition fire (s : state) (a : att) : state :=
  let c := a_claim a in
  let ok := applicable s c in
  let s1 := mkState (set_att (atts s) (c_nonce c) (c_h c) (mkAtt (a_votes a) true c))
          (c_nonce c) (c_height c) (vnonce s) (compass s) (pw s) (total s) (bonded s) (bal s)
          (batches s) (last_batch s) (lic s) (epoch s) (epoch_cursor s)
          (applied s ++ [mkEntry (epoch s) c ok]) in
  if ok then effect s1 c else s1.

(** Result: the new state and whether TryAttestation returned nil (an error aborts the tally). *)
Definition try_att (s : state) (a : att) : state * bool :=
  let c := a_claim a in
  if a_obs a then (s, false)
  else match fire_prefix (pw s) (required s) 0 (a_votes a) with
       | None => (s, true)
       | Some _ =>
           if negb (c_nonce c =? u64 (last_obs s + 1)) then (s, false)
           else if Gen.C02.height_before_cursor then
             (if last_height s >? c_height c then (s, false) else (fire s a, true))
           else
             (* cursor first: when the height write fails the cursor has already moved *)
             (if last_height s >? c_height c then (with_last_obs s (c_nonce c), false) else (fire s a, true))
       end.

(** ** attestationTally *)
Definition in_compass (s : state) (x : Z * Z * att) : bool :=
  (compass s =? 0) || (c_compass (a_claim (snd x)) =? compass s).

(** [l] is the snapshot GetAttestationMapping took before the loop. *)
Fixpoint tally_loop (l : list (Z * Z * att)) (s : state) : state * bool :=
  match l with
  | [] => (s, true)
  | (n, _, a) :: r =>
      if n =? u64 (last_obs s + 1) then
        match try_att s a with
        | (s', true) => tally_loop r s'
        | (s', false) => if Gen.C02.tally_aborts_on_error then (s', false) else tally_loop r s'
        end
      else tally_loop r s
  end.

Definition tally (s : state) : state * bool := tally_loop (filter (in_compass s) (atts s)) s.

(** ** pruneAttestations *)
Definition events_to_keep : Z := Gen.C02.events_to_keep.
Definition prune (s : state) : state :=
  if last_obs s <=? events_to_keep then s
  else with_atts s (filter (fun x => negb (in_compass s x && (fst (fst x) <? last_obs s - events_to_keep))) (atts s)).

(** ** nonce resets *)
Definition catch_up (s : state) : state :=
  with_vnonce s (map (fun kv => (fst kv, if snd kv <? last_obs s then last_obs s else snd kv)) (vnonce s)).

Definition override (s : state) (n : Z) (cid : Z) : state :=
  mkState (atts s) n (last_height s) (map (fun kv => (fst kv, n)) (vnonce s)) cid (pw s) (total s) (bonded s) (bal s)
          (batches s) (last_batch s) (lic s) (epoch s + 1) n (applied s).

(** ** batches of this chain *)
Definition mk_batch (s : state) (tok bn timeout : Z) : state :=
  if last_batch s <? bn then with_batches s (batches s ++ [(tok, bn, timeout)]) bn else s.
Definition drop_batch (s : state) (tok bn : Z) : state := with_batches s (bdel (batches s) tok bn) (last_batch s).

(** ** genesis export + import.  Exported: the cursor and the attestations GetAttestationMapping
    lists (those of the latest compass id).  NOT exported: the compass id, the last remote height and
    the per-validator nonce records; InitGenesis rebuilds the records from the vote lists (a
    validator's record becomes the highest nonce it voted on, when that is above what it would get
    without a record). *)
Definition imp_vote (cur : Z) (vn : list (Z * Z)) (n v : Z) : list (Z * Z) :=
  let last := match zget vn v with Some x => x | None => default_last cur end in
  if last <? n then zset vn v n else vn.
Definition import_vnonce (cur : Z) (l : list (Z * Z * att)) : list (Z * Z) :=
  fold_left (fun vn x => fold_left (fun vn v => imp_vote cur vn (fst (fst x)) v) (a_votes (snd x)) vn) l [].
Definition regenesis (s : state) : state :=
  let kept := filter (in_compass s) (atts s) in
  mkState kept (last_obs s) 0 (import_vnonce (last_obs s) kept) 0 (pw s) (total s) (bonded s) (bal s)
          (batches s) (last_batch s) (lic s) (epoch s) (epoch_cursor s) (applied s).

Definition step (s : state) (o : op) : state :=
  match o with
  | VoteBy sg v known c => vote s sg v known c
  | Tally => fst (tally s)
  | Prune => prune s
  | SetPowers p t => with_powers s p t
  | SetBonded l => with_bonded s l
  | CatchUp => catch_up s
  | Override n => override s (u64 n) (compass s)   (* the message field is a uint64 *)
  | Activate id => override s 0 id
  | MkBatch tok bn timeout => mk_batch s tok bn timeout
  | DropBatch tok bn => drop_batch s tok bn
  | Regenesis => regenesis s
  end.

Definition run (ops : list op) : state := fold_left step ops init.

(** ** vocabulary of the theorems *)
Definition power (p : list (Z * Z)) (vs : list Z) : Z := zsum (map (zget0 p) vs).

(** [Vote v known c]: the claim message was created and signed by validator [v]'s own account. *)
Notation Vote v known c := (VoteBy v v known c).

(** Validator [v] ITSELF submitted claim [c] (creator = signer = the named orchestrator) and the
    vote was accepted, somewhere in [ops]. *)
Definition accepted_vote (ops : list op) (v : Z) (c : claim) : Prop :=
  exists o1 o2 known, ops = o1 ++ Vote v known c :: o2 /\ vote_ok (run o1) v v known c = true.

Definition e_nonce (e : entry) : Z := c_nonce (e_claim e).
Definition nonces_of_epoch (ep : Z) (l : list entry) : list Z :=
  map e_nonce (filter (fun e => e_epoch e =? ep) l).

(** [k] consecutive integers starting at [c]. *)
Fixpoint zseq (c : Z) (k : nat) : list Z :=
  match k with O => [] | S k' => c :: zseq (c + 1) k' end.

(** What the deposit handler minted to [r] according to the effect log. *)
Definition minted (r : Z) (l : list entry) : Z :=
  zsum (map (fun e => if e_ok e && (c_kind (e_claim e) =? 0) && (c_rcv (e_claim e) =? r) then c_amt (e_claim e) else 0) l).

(** Effects of one type whose handler ran. *)
Definition ok_kind (k : Z) (e : entry) : bool := e_ok e && (c_kind (e_claim e) =? k).
Definition subject (e : entry) : Z * Z := (c_rcv (e_claim e), c_amt (e_claim e)).

(** Operations that reset the cursor or re-create the stores (a stall lasts until one of them). *)
Definition is_reset (o : op) : bool :=
  match o with Override _ | Activate _ | Regenesis => true | _ => false end.
