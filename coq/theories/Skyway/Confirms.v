(** C06 — model of the confirmation bookkeeping of skyway's outgoing batches.

    Code modelled (palomachain/paloma):
      x/skyway/keeper/msg_server.go   ConfirmBatch, confirmHandlerCommon
      x/skyway/keeper/batch.go        BuildOutgoingTXBatch (nonce, StoreBatch), UpdateBatchGasEstimate (cache context:
                                      estimate, BytesToSign, DeleteBatchConfirms), CancelOutgoingTXBatch / OutgoingTxBatchExecuted
      x/skyway/keeper/keeper_batch.go GetBatchConfirm, SetBatchConfirm, DeleteBatchConfirms
      x/skyway/types/batch.go         GetCheckpoint (what the checkpoint covers)
      x/evm/keeper/keeper.go          GetEthAddressByValidator (first account registered for the chain)

    The staking status of the orchestrator's validator (none / unbonded / unbonding / bonded) is part of the
    state ([BSetStatus] = whatever the staking module does to it); confirmHandlerCommon's gate is modelled.
    The chain's compass id is part of [b_body] and constant while a batch is open (see [redeploy] in
    Skyway/ConfirmsRedeploy.v for what happens when it is not).
    [verify : cbytes -> Sig -> Z -> bool] (types.ValidateEthereumSignature: ecrecover compared with the
    registered address) is a Section variable about which nothing is assumed.  Definitions only. *)
From Coq Require Import List ZArith Bool.
From Paloma Require Import Cons.Queue.
From Paloma Require Gen.C06.
Import ListNotations.
Open Scope Z_scope.

(** The checkpoint, abstractly: everything GetCheckpoint hashes. *)
Record cbytes := { cb_contract : Z; cb_body : Z; cb_nonce : Z; cb_timeout : Z; cb_relayer : Z; cb_est : Z }.

Definition cb_eff_est (e : Z) : Z := if e =? 0 then Gen.C06.skyway_default_gas_estimate else e.

Record batch := {
  b_nonce : Z; b_contract : Z; b_chain : Z;
  b_body : Z;        (* the transfers and the compass id *)
  b_timeout : Z; b_relayer : Z;
  b_est : Z          (* elected estimate, 0 = none *)
}.

Definition checkpoint (b : batch) : cbytes :=
  {| cb_contract := b_contract b; cb_body := b_body b; cb_nonce := b_nonce b; cb_timeout := b_timeout b;
     cb_relayer := b_relayer b; cb_est := cb_eff_est (b_est b) |}.

Section Confirms.
Variable Sig : Type.
Variable verify : cbytes -> Sig -> Z -> bool.

(** A stored MsgConfirmBatch: batch nonce and token contract, the orchestrator's validator, the eth
    address it named (checked to be the registered one), the signature. *)
Record confirm := { cf_nonce : Z; cf_contract : Z; cf_val : Z; cf_signer : Z; cf_sig : Sig }.

Record cstate := {
  cs_batches : list batch;
  cs_confirms : list confirm;
  cs_last : Z;                        (* KeyLastOutgoingBatchID *)
  cs_reg : list (Z * list acct);      (* valset: validator -> accounts *)
  cs_status : list (Z * Z)            (* staking: validator -> status (latest first); absent = no validator record *)
}.

Definition cinit : cstate := {| cs_batches := []; cs_confirms := []; cs_last := 0; cs_reg := []; cs_status := [] |}.

Inductive cres := COk | CNoBatch | CNoKey | CWrongSigner | CBadSig | CDupVal | CDupKey | CAlreadySet | CCollision
                | CNotValidator | CUnbonded | CNotBonded.

(** staking status codes: 0 = the orchestrator is no validator (GetValidator fails), 1 = unbonded,
    2 = unbonding, 3 = bonded *)
Definition st_none : Z := 0.
Definition st_unbonded : Z := 1.
Definition st_unbonding : Z := 2.
Definition st_bonded : Z := 3.

Fixpoint status_of (l : list (Z * Z)) (v : Z) : Z :=
  match l with
  | [] => st_none
  | (w, st) :: r => if w =? v then st else status_of r v
  end.

(** confirmHandlerCommon's gate ([Gen.C06.confirm_requires_bonded_or_unbonding]: the `!IsBonded && !IsUnbonding` return). *)
Definition may_confirm (st : Z) : bool :=
  if Gen.C06.confirm_requires_bonded_or_unbonding then (st =? st_unbonding) || (st =? st_bonded) else true.

Inductive cop :=
| BRegister (v : Z) (accts : list acct)
| BSetStatus (v st : Z)                   (* staking: bonded / unbonding / unbonded / record removed *)
| BBuild (contract chain body timeout relayer : Z)
| BConfirm (v nonce contract signer : Z) (sg : Sig)
| BUpdateEstimate (nonce contract est : Z)
| BRemove (nonce contract : Z)            (* executed, cancelled or timed out *)
| BRebody (nonce contract body : Z).      (* the chain's compass changed: checkpoint renewed with the new compass id *)

(** evm.GetEthAddressByValidator: the PARSED address of the first account on that chain (spelling-insensitive;
    valset's collision check, [collides], compares the address strings and Pubkey blobs as written). *)
Fixpoint first_on_chain (l : list acct) (chain : Z) : option Z :=
  match l with
  | [] => None
  | a :: r => if ac_chain a =? chain then Some (ac_eth a) else first_on_chain r chain
  end.

Definition eth_address (reg : list (Z * list acct)) (v chain : Z) : option Z :=
  first_on_chain (accts_of reg v) chain.

Fixpoint find_batch (l : list batch) (contract nonce : Z) : option batch :=
  match l with
  | [] => None
  | b :: r => if (b_nonce b =? nonce) && (b_contract b =? contract) then Some b else find_batch r contract nonce
  end.

Definition of_batch (nonce contract : Z) (c : confirm) : bool :=
  (cf_nonce c =? nonce) && (cf_contract c =? contract).

(** DeleteBatchConfirms, stated over ALL stored confirmations: every confirmation of the batch goes.  The code lists
    them with GetBatchConfirmByNonceAndTokenContract -> IterateBatchConfirmByNonceAndTokenContract and deletes each;
    [Gen.C06.delete_confirms_reads_all] is the translator's finding that nothing in those readers (a limit, a break, an
    early return, a callback that asks to stop) can end the listing early.  If it is false the model does not claim
    which confirmations survive: none is deleted, and the theorems that need the deletion stop checking. *)
Definition delete_confirms (nonce contract : Z) (l : list confirm) : list confirm :=
  if Gen.C06.delete_confirms_reads_all then filter (fun c => negb (of_batch nonce contract c)) l else l.

(** ConfirmBatch's one-confirmation-per-eth-key check reads the same listing. *)
Definition key_confirmed (nonce contract a : Z) (l : list confirm) : bool :=
  if Gen.C06.dup_checks_read_all then existsb (fun c => of_batch nonce contract c && (cf_signer c =? a)) l else false.

Definition with_est (b : batch) (e : Z) : batch :=
  {| b_nonce := b_nonce b; b_contract := b_contract b; b_chain := b_chain b; b_body := b_body b;
     b_timeout := b_timeout b; b_relayer := b_relayer b; b_est := e |}.

Definition with_body (b : batch) (body : Z) : batch :=
  {| b_nonce := b_nonce b; b_contract := b_contract b; b_chain := b_chain b; b_body := body;
     b_timeout := b_timeout b; b_relayer := b_relayer b; b_est := b_est b |}.

Definition cstep (s : cstate) (o : cop) : cstate * cres :=
  match o with
  | BRegister v accts =>
      (* valset.CanAcceptValidator: only a bonded validator may (re-)register external accounts *)
      if negb (status_of (cs_status s) v =? st_bonded) then (s, CNotBonded)
      else if collides (cs_reg s) v accts then (s, CCollision)
      else ({| cs_batches := cs_batches s; cs_confirms := cs_confirms s; cs_last := cs_last s;
               cs_reg := set_reg (cs_reg s) v accts; cs_status := cs_status s |}, COk)
  | BSetStatus v st =>
      ({| cs_batches := cs_batches s; cs_confirms := cs_confirms s; cs_last := cs_last s;
          cs_reg := cs_reg s; cs_status := (v, st) :: cs_status s |}, COk)
  | BBuild contract chain body timeout relayer =>
      let n := cs_last s + 1 in
      ({| cs_batches := cs_batches s ++
            [{| b_nonce := n; b_contract := contract; b_chain := chain; b_body := body;
                b_timeout := timeout; b_relayer := relayer; b_est := 0 |}];
          cs_confirms := cs_confirms s; cs_last := n; cs_reg := cs_reg s; cs_status := cs_status s |}, COk)
  | BConfirm v nonce contract signer sg =>
      match find_batch (cs_batches s) contract nonce with
      | None => (s, CNoBatch)
      | Some b =>
        if status_of (cs_status s) v =? st_none then (s, CNotValidator)
        else if negb (may_confirm (status_of (cs_status s) v)) then (s, CUnbonded)
        else
        match eth_address (cs_reg s) v (b_chain b) with
        | None => (s, CNoKey)
        | Some a =>
          if negb (a =? signer) then (s, CWrongSigner)
          else if negb (verify (checkpoint b) sg a) then (s, CBadSig)
          else if existsb (fun c => of_batch nonce contract c && (cf_val c =? v)) (cs_confirms s) then (s, CDupVal)
          else if key_confirmed nonce contract a (cs_confirms s) then (s, CDupKey)
          else ({| cs_batches := cs_batches s;
                   cs_confirms := cs_confirms s ++
                     [{| cf_nonce := nonce; cf_contract := contract; cf_val := v; cf_signer := a; cf_sig := sg |}];
                   cs_last := cs_last s; cs_reg := cs_reg s; cs_status := cs_status s |}, COk)
        end
      end
  | BUpdateEstimate nonce contract e =>
      match find_batch (cs_batches s) contract nonce with
      | None => (s, CNoBatch)
      | Some b =>
        if 0 <? b_est b then (s, CAlreadySet)
        else ({| cs_batches := map (fun x => if b_nonce x =? nonce then with_est x e else x) (cs_batches s);
                 cs_confirms := if Gen.C06.update_estimate_deletes_confirms
                                then delete_confirms nonce contract (cs_confirms s)
                                else cs_confirms s;
                 cs_last := cs_last s; cs_reg := cs_reg s; cs_status := cs_status s |}, COk)
      end
  | BRemove nonce contract =>
      match find_batch (cs_batches s) contract nonce with
      | None => (s, CNoBatch)
      | Some _ =>
        ({| cs_batches := filter (fun x => negb (b_nonce x =? nonce)) (cs_batches s);
            cs_confirms := if Gen.C06.cancel_deletes_confirms && Gen.C06.executed_deletes_confirms
                           then delete_confirms nonce contract (cs_confirms s)
                           else cs_confirms s;
            cs_last := cs_last s; cs_reg := cs_reg s; cs_status := cs_status s |}, COk)
      end
  | BRebody nonce contract body =>
      (* refreshOpenBatchCheckpoints, one open batch of the chain whose compass changed: the compass id is part of
         [b_body]; bytes to sign renewed, confirmations of the batch deleted (same DeleteBatchConfirms) *)
      match find_batch (cs_batches s) contract nonce with
      | None => (s, CNoBatch)
      | Some _ =>
        ({| cs_batches := map (fun x => if b_nonce x =? nonce then with_body x body else x) (cs_batches s);
            cs_confirms := delete_confirms nonce contract (cs_confirms s);
            cs_last := cs_last s; cs_reg := cs_reg s; cs_status := cs_status s |}, COk)
      end
  end.

Definition crun_from (s : cstate) (ops : list cop) : cstate := fold_left (fun s o => fst (cstep s o)) ops s.
Definition crun (ops : list cop) : cstate := crun_from cinit ops.

End Confirms.

Arguments cf_nonce {Sig} _.
Arguments cf_contract {Sig} _.
Arguments cf_val {Sig} _.
Arguments cf_signer {Sig} _.
Arguments cf_sig {Sig} _.
Arguments cs_batches {Sig} _.
Arguments cs_confirms {Sig} _.
Arguments cs_last {Sig} _.
Arguments cs_reg {Sig} _.
Arguments cs_status {Sig} _.
Arguments BSetStatus {Sig} _ _.
Arguments delete_confirms {Sig} _ _ _.
Arguments key_confirmed {Sig} _ _ _ _.
Arguments cinit {Sig}.
Arguments BRegister {Sig} _ _.
Arguments BBuild {Sig} _ _ _ _ _.
Arguments BConfirm {Sig} _ _ _ _ _.
Arguments BUpdateEstimate {Sig} _ _ _.
Arguments BRemove {Sig} _ _.
Arguments BRebody {Sig} _ _ _.
Arguments of_batch {Sig} _ _ _.

(** Ideal signatures for the examples and the correspondence check only (see Cons/Queue.v). *)
Definition cbytes_eqb (a b : cbytes) : bool :=
  (cb_contract a =? cb_contract b) && (cb_body a =? cb_body b) && (cb_nonce a =? cb_nonce b)
  && (cb_timeout a =? cb_timeout b) && (cb_relayer a =? cb_relayer b) && (cb_est a =? cb_est b).

Definition icsig := option (Z * cbytes).

Definition icverify (b : cbytes) (sg : icsig) (k : Z) : bool :=
  match sg with
  | Some (k', b') => (k' =? k) && cbytes_eqb b b'
  | None => false
  end.
