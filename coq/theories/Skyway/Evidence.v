(** Model of the checkpoint archive and of bad-signature evidence in x/skyway/keeper:
    batch.go (BuildOutgoingTXBatch, UpdateBatchGasEstimate, Cancel/Executed = removal),
    evidence.go (checkBadSignatureEvidenceInternal, Set/GetPastEthSignatureCheckpoint),
    types/batch.go (GetCheckpoint: which estimate is packed).  Definitions only.

    Abstractions.  A batch's checkpoint is keccak(abi(token, receivers/amounts, nonce, turnstone id,
    timeout, relayer address, estimate)); everything except the turnstone id and the estimate is the
    batch's [body] (an opaque number, chosen by the environment), so the checkpoint is
    [cp tid body estimate] for an ARBITRARY function [cp] (nothing is assumed about keccak).
    [recover c sg] is EthAddressFromSignature after hex decoding ([None] = undecodable / too short /
    no public key), also arbitrary.  Validators, chains and remote addresses are numbers.
    [st_issued] is a ghost: every value the chain ever PUBLISHED FOR SIGNING, through any channel:
    stored as a batch's BytesToSign (build, re-estimate) or handed out by one of the batch queries
    (LastPendingBatchRequestByAddr, OutgoingTxBatches, BatchRequestByNonce,
    LastPendingBatchForGasEstimation -- where relayers read what to sign; [OQuery]) -- by the chain
    instance that is running: a genesis export / import ([OGenesis]) starts a new instance, whose
    [st_issued] is what it shows from its first block on (the imported batches' BytesToSign).
    [st_ever] is the same ghost never reset: everything any instance ever published.

    Which functions archive what they publish, and whether the evidence handler looks at the
    archive, comes from the translated source (Gen.C13), so the theorems are about the code as it
    is now. *)
From Coq Require Import List ZArith Bool.
From Paloma Require Gen.C13.
Import ListNotations.
Open Scope Z_scope.

Definition val := Z.
Definition addr := Z.

Record cfg := {
  c_build_archives : bool;      (* BuildOutgoingTXBatch calls SetPastEthSignatureCheckpoint on its checkpoint *)
  c_reissue_archives : bool;    (* UpdateBatchGasEstimate archives the checkpoint it stores as BytesToSign *)
  c_rejects_archived : bool;    (* evidence handler returns an error when the checkpoint is archived *)
  c_set_once : bool;            (* UpdateBatchGasEstimate refuses when GasEstimate > 0 *)
  c_queries_stored : bool;      (* every batch query serves the stored record untouched (else: BytesToSign
                                   recomputed for the deployment id in force at query time) *)
  c_confirm_recomputes : bool;  (* ConfirmBatch verifies against GetCheckpoint(id in force now), not the
                                   stored BytesToSign *)
  c_genesis_archives_live : bool; (* InitGenesis archives the BytesToSign of every batch it imports *)
  c_redeploy_reissues : bool;   (* on EVMActivatedChainEvent (compass activated) every open batch of the chain gets
                                   its BytesToSign recomputed for the event's id, stored AND archived
                                   (refreshOpenBatchCheckpoints) *)
  c_stale_publishes : bool      (* ActivateChainReferenceID publishes the activation event also when it changed
                                   nothing (contract version not above the active one) *)
}.

Definition code_cfg : cfg := {|
  c_build_archives := Gen.C13.build_archives;
  c_reissue_archives := Gen.C13.reissue_archives;
  c_rejects_archived := Gen.C13.evidence_rejects_archived;
  c_set_once := Gen.C13.estimate_set_once;
  c_queries_stored := Gen.C13.queries_serve_stored;
  c_confirm_recomputes := Gen.C13.confirm_verifies_recomputed;
  c_genesis_archives_live := Gen.C13.genesis_archives_live;
  c_redeploy_reissues := Gen.C13.redeploy_reissues_and_archives;
  c_stale_publishes := Gen.C13.stale_activation_still_publishes_event |}.

(** The estimate that GetCheckpoint packs: the dummy when GasEstimate = 0. *)
Definition eff_est (e : Z) : Z := if e =? 0 then Gen.C13.dummy_gas_estimate else e.

Record batch := { b_key : Z; b_chain : Z; b_body : Z; b_est : Z; b_bts : Z }.

Record state := {
  st_chains : list (Z * Z);            (* chain reference id -> SmartContractUniqueID in force *)
  st_batches : list batch;             (* OutgoingTXBatchKey store *)
  st_archive : list Z;                 (* PastEthSignatureCheckpointKey set *)
  st_issued : list Z;                  (* ghost: published for signing by the running chain instance *)
  st_ever : list Z;                    (* ghost: published for signing by any instance, ever *)
  st_reg : list (Z * val * addr);      (* (chain, validator, registered remote address), in lookup order *)
  st_jailed : list val                 (* staking jailed flags *)
}.

Definition init : state :=
  {| st_chains := []; st_batches := []; st_archive := []; st_issued := []; st_ever := []; st_reg := []; st_jailed := [] |}.

Inductive res := ROk | RErrChain | RErrExists | RErrNotFound | RErrAlreadySet | RErrArchived | RErrSig | RErrNoVal.

Definition memz (x : Z) (l : list Z) : bool := existsb (Z.eqb x) l.

Fixpoint chain_tid (l : list (Z * Z)) (c : Z) : option Z :=
  match l with
  | [] => None
  | (c', t) :: r => if c' =? c then Some t else chain_tid r c
  end.

Fixpoint set_tid (l : list (Z * Z)) (c t : Z) : list (Z * Z) :=
  match l with
  | [] => [(c, t)]
  | (c', t') :: r => if c' =? c then (c, t) :: r else (c', t') :: set_tid r c t
  end.

Fixpoint find_batch (l : list batch) (k : Z) : option batch :=
  match l with
  | [] => None
  | b :: r => if b_key b =? k then Some b else find_batch r k
  end.

Definition remove_batch (l : list batch) (k : Z) : list batch := filter (fun b => negb (b_key b =? k)) l.

(** EVMKeeper.GetValidatorAddressByEthAddress: first registration that matches chain and address. *)
Fixpoint val_of_addr (l : list (Z * val * addr)) (c : Z) (a : addr) : option val :=
  match l with
  | [] => None
  | (c', v, a') :: r => if (c' =? c) && (a' =? a) then Some v else val_of_addr r c a
  end.

Section Model.
  Context {Sig : Type}.
  Variable cp : Z -> Z -> Z -> Z.
  Variable recover : Z -> Sig -> option addr.
  Variable g : cfg.

  Inductive op :=
  | OBuild (key chain body : Z)          (* BuildOutgoingTXBatch produced a batch *)
  | OEstimate (key est : Z)              (* UpdateBatchGasEstimate(batch, est) *)
  | ORemove (key : Z)                    (* CancelOutgoingTXBatch / OutgoingTxBatchExecuted / timeout *)
  | OSetTid (chain tid : Z)              (* chain support added / compass (re)deployed *)
  | OSetReg (reg : list (Z * val * addr))(* validators change their external chain infos *)
  | OUnjail (v : val)
  | OEvidence (chain body est : Z) (sg : Sig)   (* MsgSubmitBadSignatureEvidence, by anyone *)
  | OQuery (key : Z)                     (* a relayer reads batch [key] through one of the batch queries *)
  | OGenesis                             (* ExportGenesis, chain restarted with InitGenesis on an empty store *)
  | OStaleActivate (chain tid : Z).      (* ActivateChainReferenceID with a contract version not above the active
                                            one: chain info untouched; skyway hears of it only if evm publishes the
                                            activation event all the same ([c_stale_publishes]) *)

  (** The checkpoint of a stored batch under the deployment id in force NOW (what ConfirmBatch
      computes; [None]: chain unknown). *)
  Definition current_cp (s : state) (b : batch) : option Z :=
    match chain_tid (st_chains s) (b_chain b) with
    | Some tid => Some (cp tid (b_body b) (eff_est (b_est b)))
    | None => None
    end.

  (** What a batch query shows as BytesToSign for the stored batch [b]. *)
  Definition served (s : state) (b : batch) : Z :=
    if c_queries_stored g then b_bts b
    else match current_cp s b with Some c => c | None => b_bts b end.

  Definition served_bts (s : state) (key : Z) : option Z :=
    match find_batch (st_batches s) key with Some b => Some (served s b) | None => None end.

  (** MsgConfirmBatch: does the signature check run against [c]?  (The other conditions --
      orchestrator, duplicate -- are not about the checkpoint.) *)
  Definition confirm_checks_against (s : state) (key : Z) : option Z :=
    match find_batch (st_batches s) key with
    | None => None
    | Some b => if c_confirm_recomputes g then current_cp s b else Some (b_bts b)
    end.

  (** [pub]: what this operation publishes for signing (goes into both ghosts) *)
  Definition with_batches (s : state) (bs : list batch) (arch : list Z) (pub : list Z) : state :=
    {| st_chains := st_chains s; st_batches := bs; st_archive := arch; st_issued := pub ++ st_issued s;
       st_ever := pub ++ st_ever s; st_reg := st_reg s; st_jailed := st_jailed s |}.

  Definition with_jailed (s : state) (j : list val) : state :=
    {| st_chains := st_chains s; st_batches := st_batches s; st_archive := st_archive s;
       st_issued := st_issued s; st_ever := st_ever s; st_reg := st_reg s; st_jailed := j |}.

  (** refreshOpenBatchCheckpoints (skyway's handler of EVMActivatedChainEvent): every open batch of
      [chain] whose BytesToSign differs from its checkpoint under [tid] gets the new one, which is
      archived in the same cache context. *)
  Definition recp (tid : Z) (b : batch) : Z := cp tid (b_body b) (eff_est (b_est b)).
  Definition reissue_all (chain tid : Z) (bs : list batch) : list batch :=
    map (fun b => if b_chain b =? chain
                  then {| b_key := b_key b; b_chain := b_chain b; b_body := b_body b; b_est := b_est b; b_bts := recp tid b |}
                  else b) bs.
  Definition reissued (chain tid : Z) (bs : list batch) : list Z :=
    map (recp tid) (filter (fun b => (b_chain b =? chain) && negb (recp tid b =? b_bts b)) bs).

  Definition refresh (s : state) (chain tid : Z) : state :=
    if c_redeploy_reissues g then
      let pub := reissued chain tid (st_batches s) in
      {| st_chains := st_chains s; st_batches := reissue_all chain tid (st_batches s);
         st_archive := pub ++ st_archive s; st_issued := pub ++ st_issued s; st_ever := pub ++ st_ever s;
         st_reg := st_reg s; st_jailed := st_jailed s |}
    else s.

  (** what skyway does on a stale activation: its subscriber runs only if the event is published *)
  Definition refresh_if_announced (s : state) (chain tid : Z) : state :=
    if c_stale_publishes g then refresh s chain tid else s.

  Definition exec (s : state) (o : op) : state * res :=
    match o with
    | OBuild key chain body =>
      match chain_tid (st_chains s) chain with
      | None => (s, RErrChain)
      | Some tid =>
        match find_batch (st_batches s) key with
        | Some _ => (s, RErrExists)
        | None =>
          let c := cp tid body (eff_est 0) in
          (with_batches s ({| b_key := key; b_chain := chain; b_body := body; b_est := 0; b_bts := c |} :: st_batches s)
                        (if c_build_archives g then c :: st_archive s else st_archive s)
                        [c], ROk)
        end
      end
    | OEstimate key est =>
      match find_batch (st_batches s) key with
      | None => (s, RErrNotFound)
      | Some b =>
        if c_set_once g && (0 <? b_est b) then (s, RErrAlreadySet)
        else match chain_tid (st_chains s) (b_chain b) with
             | None => (s, RErrChain)
             | Some tid =>
               let c := cp tid (b_body b) (eff_est est) in
               (with_batches s ({| b_key := key; b_chain := b_chain b; b_body := b_body b; b_est := est; b_bts := c |}
                                  :: remove_batch (st_batches s) key)
                             (if c_reissue_archives g then c :: st_archive s else st_archive s)
                             [c], ROk)
             end
      end
    | ORemove key =>
      match find_batch (st_batches s) key with
      | None => (s, RErrNotFound)
      | Some _ => (with_batches s (remove_batch (st_batches s) key) (st_archive s) [], ROk)
      end
    | OSetTid chain tid =>
      (refresh {| st_chains := set_tid (st_chains s) chain tid; st_batches := st_batches s; st_archive := st_archive s;
                  st_issued := st_issued s; st_ever := st_ever s; st_reg := st_reg s; st_jailed := st_jailed s |} chain tid, ROk)
    | OSetReg reg =>
      ({| st_chains := st_chains s; st_batches := st_batches s; st_archive := st_archive s;
          st_issued := st_issued s; st_ever := st_ever s; st_reg := reg; st_jailed := st_jailed s |}, ROk)
    | OUnjail v => (with_jailed s (filter (fun u => negb (u =? v)) (st_jailed s)), ROk)
    | OEvidence chain body est sg =>
      match chain_tid (st_chains s) chain with
      | None => (s, RErrChain)
      | Some tid =>
        let c := cp tid body (eff_est est) in
        if c_rejects_archived g && memz c (st_archive s) then (s, RErrArchived)
        else match recover c sg with
             | None => (s, RErrSig)
             | Some a =>
               match val_of_addr (st_reg s) chain a with
               | None => (s, RErrNoVal)
               | Some v => if memz v (st_jailed s) then (s, ROk) else (with_jailed s (v :: st_jailed s), ROk)
               end
             end
      end
    | OQuery key =>
      match find_batch (st_batches s) key with
      | None => (s, RErrNotFound)
      | Some b => (with_batches s (st_batches s) (st_archive s) [served s b], ROk)
      end
    | OGenesis =>
      (* the skyway store is rebuilt from the exported state: the batch records come back as they
         were (BytesToSign included), the PastEthSignatureCheckpoint set is not part of the genesis
         state; chain infos, registrations and jailed flags live in other modules' genesis *)
      ({| st_chains := st_chains s; st_batches := st_batches s;
          st_archive := if c_genesis_archives_live g then map b_bts (st_batches s) else [];
          st_issued := map b_bts (st_batches s); st_ever := st_ever s;
          st_reg := st_reg s; st_jailed := st_jailed s |}, ROk)
    | OStaleActivate chain tid =>
      match chain_tid (st_chains s) chain with
      | None => (s, RErrChain)
      | Some _ => (refresh_if_announced s chain tid, ROk)
      end
    end.

  Definition step (s : state) (o : op) : state := fst (exec s o).
  Definition run_from (s : state) (ops : list op) : state := fold_left step ops s.
  Definition run (ops : list op) : state := run_from init ops.

  (** [v] was not jailed in [s] and is jailed in [s']. *)
  Definition newly_jailed (s s' : state) (v : val) : Prop :=
    ~ In v (st_jailed s) /\ In v (st_jailed s').
End Model.

Arguments op : clear implicits.
