(** Proofs about Skyway/Evidence.v: everything the chain publishes for signing is archived, so a
    signature over a published checkpoint can never be used against its signer (short of a broken
    signature binding, stated explicitly); evidence jails exactly the first validator registered
    with the recovered address, and only for unarchived (hence unpublished) checkpoints. *)
From Coq Require Import List ZArith Bool Lia.
From Paloma Require Import Skyway.Evidence.
From Paloma Require Gen.C13.
Import ListNotations.
Open Scope Z_scope.

Lemma memz_true x l : memz x l = true <-> In x l.
Proof.
  unfold memz. rewrite existsb_exists. split.
  - intros [y [Hy E]]. apply Z.eqb_eq in E. now subst.
  - intros H. exists x. split; [assumption | apply Z.eqb_refl].
Qed.

Lemma memz_false x l : memz x l = false <-> ~ In x l.
Proof.
  rewrite <- memz_true. destruct (memz x l); split; intros H; try reflexivity; try discriminate.
  - exfalso. now apply H.
Qed.

Lemma val_of_addr_in l c a v : val_of_addr l c a = Some v -> In (c, v, a) l.
Proof.
  induction l as [|[[c' v'] a'] r IH]; cbn [val_of_addr]; intros H; [discriminate|].
  destruct ((c' =? c) && (a' =? a)) eqn:E.
  - inversion H; subst. apply andb_true_iff in E as [E1 E2].
    apply Z.eqb_eq in E1. apply Z.eqb_eq in E2. subst. now left.
  - right. now apply IH.
Qed.

Lemma find_batch_in l k b : find_batch l k = Some b -> In b l /\ b_key b = k.
Proof.
  induction l as [|x r IH]; cbn [find_batch]; intros H; [discriminate|].
  destruct (b_key x =? k) eqn:E.
  - inversion H; subst. apply Z.eqb_eq in E. split; [now left | assumption].
  - destruct (IH H) as [H1 H2]. split; [now right | assumption].
Qed.

Lemma remove_batch_in l k b : In b (remove_batch l k) -> In b l.
Proof. unfold remove_batch. intros H. now apply filter_In in H. Qed.

(** ** Invariants *)
Definition archived_inv (s : state) : Prop := incl (st_issued s) (st_archive s).
Definition stored_inv (s : state) : Prop := forall b, In b (st_batches s) -> In (b_bts b) (st_issued s).

(** ** refreshOpenBatchCheckpoints *)
Section Refresh.
  Variable cp : Z -> Z -> Z -> Z.
  Variable g : cfg.
  Notation refresh := (refresh cp g).
  Notation reissue_all := (reissue_all cp).
  Notation reissued := (reissued cp).
  Notation recp := (recp cp).

  Lemma refresh_frame s chain tid :
    st_chains (refresh s chain tid) = st_chains s /\ st_reg (refresh s chain tid) = st_reg s /\
    st_jailed (refresh s chain tid) = st_jailed s.
  Proof. unfold Evidence.refresh. destruct (c_redeploy_reissues g); repeat split; reflexivity. Qed.

  (** the BytesToSign of every batch after a refresh is an old one or one published by the refresh *)
  Lemma reissue_bts_in chain tid bs (l : list Z) :
    (forall b, In b bs -> In (b_bts b) l) ->
    forall b', In b' (reissue_all chain tid bs) -> In (b_bts b') (reissued chain tid bs ++ l).
  Proof.
    intros H b' Hb'. unfold Evidence.reissue_all in Hb'. apply in_map_iff in Hb'. destruct Hb' as (b & E & Hb).
    apply in_or_app. destruct (b_chain b =? chain) eqn:Ec.
    - subst b'. cbn [b_bts]. destruct (recp tid b =? b_bts b) eqn:Eq.
      + right. apply Z.eqb_eq in Eq. rewrite Eq. now apply H.
      + left. unfold Evidence.reissued. apply in_map. apply filter_In. split; [exact Hb|]. now rewrite Ec, Eq.
    - subst b'. right. now apply H.
  Qed.

  Lemma refresh_stored_inv s chain tid : stored_inv s -> stored_inv (refresh s chain tid).
  Proof.
    unfold stored_inv, Evidence.refresh. intros I. destruct (c_redeploy_reissues g); [|exact I].
    cbn [st_batches st_issued]. now apply reissue_bts_in.
  Qed.

  Lemma refresh_archived_inv s chain tid : archived_inv s -> archived_inv (refresh s chain tid).
  Proof.
    unfold archived_inv, Evidence.refresh. intros I. destruct (c_redeploy_reissues g); [|exact I].
    cbn [st_archive st_issued]. apply incl_app; [apply incl_appl, incl_refl | now apply incl_appr].
  Qed.

  Lemma refresh_monotone s chain tid :
    incl (st_issued s) (st_issued (refresh s chain tid)) /\ incl (st_archive s) (st_archive (refresh s chain tid)) /\
    incl (st_ever s) (st_ever (refresh s chain tid)).
  Proof.
    unfold Evidence.refresh. destruct (c_redeploy_reissues g); cbn; repeat split; try apply incl_refl; apply incl_appr, incl_refl.
  Qed.

  Lemma refresh_issued_incl_ever s chain tid : incl (st_issued s) (st_ever s) ->
    (forall b, In b (st_batches s) -> In (b_bts b) (st_ever s)) ->
    incl (st_issued (refresh s chain tid)) (st_ever (refresh s chain tid)) /\
    (forall b, In b (st_batches (refresh s chain tid)) -> In (b_bts b) (st_ever (refresh s chain tid))).
  Proof.
    unfold Evidence.refresh. intros I St. destruct (c_redeploy_reissues g); [|now split].
    cbn [st_batches st_issued st_ever]. split.
    - apply incl_app; [apply incl_appl, incl_refl | now apply incl_appr].
    - now apply reissue_bts_in.
  Qed.

  Lemma refresh_ever_eq s chain tid : st_ever s = st_issued s -> st_ever (refresh s chain tid) = st_issued (refresh s chain tid).
  Proof. unfold Evidence.refresh. intros E. destruct (c_redeploy_reissues g); [cbn; now rewrite E | exact E]. Qed.

  Lemma refresh_bts_some_id s chain tid :
    (forall b, In b (st_batches s) -> exists tid0, b_bts b = cp tid0 (b_body b) (eff_est (b_est b))) ->
    forall b, In b (st_batches (refresh s chain tid)) -> exists tid0, b_bts b = cp tid0 (b_body b) (eff_est (b_est b)).
  Proof.
    unfold Evidence.refresh. intros I. destruct (c_redeploy_reissues g); [|exact I].
    cbn [st_batches]. intros b' Hb'. unfold Evidence.reissue_all in Hb'. apply in_map_iff in Hb'. destruct Hb' as (b & E & Hb).
    destruct (b_chain b =? chain); subst b'; [now exists tid | now apply I].
  Qed.
End Refresh.

Section Stored.
  Context {Sig : Type}.
  Variable cp : Z -> Z -> Z -> Z.
  Variable recover : Z -> Sig -> option addr.
  Variable g : cfg.

  Notation step := (step cp recover g).
  Notation run_from := (run_from cp recover g).
  Notation run := (run cp recover g).

  (** What a stored batch shows as BytesToSign was published -- whoever archives. *)
  Lemma step_stored_inv s o : stored_inv s -> stored_inv (step s o).
  Proof.
    unfold stored_inv, Evidence.step. intros I.
    destruct o as [key chain body|key est|key|chain tid|reg|v|chain body est sg|key| |chain2 tid2]; cbn [Evidence.exec].
    - destruct (chain_tid (st_chains s) chain) as [tid|]; [|exact I].
      destruct (find_batch (st_batches s) key) as [b0|]; [exact I|].
      cbn. intros b [E|Hb]; [subst; now left | right; now apply I].
    - destruct (find_batch (st_batches s) key) as [b0|]; [|exact I].
      destruct (c_set_once g && (0 <? b_est b0)); [exact I|].
      destruct (chain_tid (st_chains s) (b_chain b0)) as [tid|]; [|exact I].
      cbn. intros b [E|Hb]; [subst; now left | right; apply I; eapply remove_batch_in; eassumption].
    - destruct (find_batch (st_batches s) key) as [b0|]; [|exact I].
      cbn. intros b Hb. apply I. eapply remove_batch_in; eassumption.
    - now apply refresh_stored_inv.
    - exact I.
    - exact I.
    - destruct (chain_tid (st_chains s) chain) as [tid|]; [|exact I].
      destruct (c_rejects_archived g && memz _ (st_archive s)); [exact I|].
      destruct (recover _ sg) as [a|]; [|exact I].
      destruct (val_of_addr (st_reg s) chain a) as [v|]; [|exact I].
      destruct (memz v (st_jailed s)); exact I.
    - destruct (find_batch (st_batches s) key) as [b0|]; [|exact I].
      cbn. intros b Hb. right. now apply I.
    - cbn. intros b Hb. now apply in_map.
    - destruct (chain_tid (st_chains s) chain2); [|exact I]. unfold Evidence.refresh_if_announced. destruct (c_stale_publishes g); [now apply refresh_stored_inv | exact I].
  Qed.

  Lemma run_from_stored_inv ops : forall s, stored_inv s -> stored_inv (run_from s ops).
  Proof.
    induction ops as [|o r IH]; intros s I; [exact I|].
    cbn. apply IH. now apply step_stored_inv.
  Qed.

  Theorem stored_bytes_to_sign_issued ops b : In b (st_batches (run ops)) -> In (b_bts b) (st_issued (run ops)).
  Proof. apply (run_from_stored_inv ops init). intros x []. Qed.
End Stored.

Section Proofs.
  Context {Sig : Type}.
  Variable cp : Z -> Z -> Z -> Z.
  Variable recover : Z -> Sig -> option addr.
  Variable g : cfg.

  Notation exec := (exec cp recover g).
  Notation step := (step cp recover g).
  Notation run_from := (run_from cp recover g).
  Notation run := (run cp recover g).
  Notation op := (op Sig).

  (** Signature scheme as the validators use it: arbitrary [sign] and key-to-address map. *)
  Context {Key : Type}.
  Variable sign : Key -> Z -> Sig.
  Variable addr_of : Key -> addr.

  (** The explicit cryptographic alternative: some honest signature over [m] recovers to its
      signer's address under a DIFFERENT message [m']. *)
  Definition recover_binding_broken : Prop :=
    exists k m m', m <> m' /\ recover m' (sign k m) = Some (addr_of k).

  Lemma run_from_app s a b : run_from s (a ++ b) = run_from (run_from s a) b.
  Proof. unfold Evidence.run_from. apply fold_left_app. Qed.

  Lemma run_snoc ops o : run (ops ++ [o]) = step (run ops) o.
  Proof. unfold Evidence.run. rewrite run_from_app. reflexivity. Qed.

  Hypothesis Hbuild : c_build_archives g = true.
  Hypothesis Hreissue : c_reissue_archives g = true.
  Hypothesis Hqueries : c_queries_stored g = true.

  (** With queries serving the stored record, a query publishes nothing new. *)
  Lemma served_is_stored s b : served cp g s b = b_bts b.
  Proof. unfold served. now rewrite Hqueries. Qed.

  (** A genesis import keeps the invariant only if InitGenesis archives what it imports. *)
  Definition genesis_ok (o : op) : Prop := c_genesis_archives_live g = true \/ o <> OGenesis.
  Definition genesis_safe (ops : list op) : Prop := c_genesis_archives_live g = true \/ ~ In OGenesis ops.

  Lemma genesis_safe_forall ops : genesis_safe ops -> Forall genesis_ok ops.
  Proof.
    intros [H|H]; apply Forall_forall; intros o Ho; [now left | right]. intros E. subst o. contradiction.
  Qed.

  Lemma step_archived_inv s o : genesis_ok o -> stored_inv s -> archived_inv s -> archived_inv (step s o).
  Proof.
    unfold archived_inv, Evidence.step. intros Gk St I.
    destruct o as [key chain body|key est|key|chain tid|reg|v|chain body est sg|key| |chain2 tid2]; cbn [Evidence.exec].
    - destruct (chain_tid (st_chains s) chain) as [tid|]; [|exact I].
      destruct (find_batch (st_batches s) key); [exact I|].
      cbn. rewrite Hbuild. intros x [E|Hx]; [now left | right; now apply I].
    - destruct (find_batch (st_batches s) key) as [b|]; [|exact I].
      destruct (c_set_once g && (0 <? b_est b)); [exact I|].
      destruct (chain_tid (st_chains s) (b_chain b)) as [tid|]; [|exact I].
      cbn. rewrite Hreissue. intros x [E|Hx]; [now left | right; now apply I].
    - destruct (find_batch (st_batches s) key); exact I.
    - now apply refresh_archived_inv.
    - exact I.
    - exact I.
    - destruct (chain_tid (st_chains s) chain) as [tid|]; [|exact I].
      destruct (c_rejects_archived g && memz _ (st_archive s)); [exact I|].
      destruct (recover _ sg) as [a|]; [|exact I].
      destruct (val_of_addr (st_reg s) chain a) as [v|]; [|exact I].
      destruct (memz v (st_jailed s)); exact I.
    - destruct (find_batch (st_batches s) key) as [b|] eqn:F; [|exact I].
      cbn. rewrite served_is_stored. apply find_batch_in in F. destruct F as [F _].
      intros x [E|Hx]; [subst x; apply I; now apply St | now apply I].
    - destruct Gk as [Gk|Gk]; [|contradiction]. cbn. rewrite Gk. apply incl_refl.
    - destruct (chain_tid (st_chains s) chain2); [|exact I]. unfold Evidence.refresh_if_announced. destruct (c_stale_publishes g); [now apply refresh_archived_inv | exact I].
  Qed.

  Lemma run_from_archived_inv ops : Forall genesis_ok ops -> forall s, stored_inv s -> archived_inv s -> archived_inv (run_from s ops).
  Proof.
    induction 1 as [|o r Ho Hr IH]; intros s St I; [exact I|].
    cbn. apply IH; [now apply step_stored_inv | now apply step_archived_inv].
  Qed.

  Lemma init_archived_inv : archived_inv init.
  Proof. intros x []. Qed.

  Theorem issued_incl_archive ops c : genesis_safe ops -> In c (st_issued (run ops)) -> In c (st_archive (run ops)).
  Proof.
    intros G. apply (run_from_archived_inv ops (genesis_safe_forall ops G) init); [intros x [] | exact init_archived_inv].
  Qed.

  (** Whatever a batch query hands out for signing had been published (and archived) when the
      record was written: reading a query never asks for a signature over anything new. *)
  Theorem query_serves_issued ops key c : genesis_safe ops ->
    served_bts cp g (run ops) key = Some c -> In c (st_issued (run ops)) /\ In c (st_archive (run ops)).
  Proof.
    intros G. unfold served_bts. destruct (find_batch (st_batches (run ops)) key) as [b|] eqn:F; [|discriminate].
    intros E. injection E as E. subst c. rewrite served_is_stored.
    apply find_batch_in in F. destruct F as [F _].
    assert (Hi : In (b_bts b) (st_issued (run ops))) by now apply (stored_bytes_to_sign_issued cp recover g).
    split; [exact Hi | now apply issued_incl_archive].
  Qed.
End Proofs.

Section Proofs2.
  Context {Sig : Type}.
  Variable cp : Z -> Z -> Z -> Z.
  Variable recover : Z -> Sig -> option addr.
  Variable g : cfg.

  Notation exec := (exec cp recover g).
  Notation step := (step cp recover g).
  Notation run_from := (run_from cp recover g).
  Notation run := (run cp recover g).
  Notation op := (op Sig).

  (** The archive and the ghosts only grow -- the archive and the running instance's ghost as long
      as the chain is not restarted from an exported genesis, [st_ever] always. *)
  Lemma step_monotone s o : o <> OGenesis ->
    incl (st_issued s) (st_issued (step s o)) /\ incl (st_archive s) (st_archive (step s o)).
  Proof.
    intros NG. unfold Evidence.step.
    destruct o as [key chain body|key est|key|chain tid|reg|v|chain body est sg|key| |chain2 tid2]; cbn [Evidence.exec].
    - destruct (chain_tid (st_chains s) chain) as [tid|]; [|split; apply incl_refl].
      destruct (find_batch (st_batches s) key); [split; apply incl_refl|].
      cbn. split; [apply incl_tl, incl_refl|].
      destruct (c_build_archives g); [apply incl_tl|]; apply incl_refl.
    - destruct (find_batch (st_batches s) key) as [b0|]; [|split; apply incl_refl].
      destruct (c_set_once g && (0 <? b_est b0)); [split; apply incl_refl|].
      destruct (chain_tid (st_chains s) (b_chain b0)) as [tid|]; [|split; apply incl_refl].
      cbn. split; [apply incl_tl, incl_refl|].
      destruct (c_reissue_archives g); [apply incl_tl|]; apply incl_refl.
    - destruct (find_batch (st_batches s) key); split; apply incl_refl.
    - match goal with |- incl _ (st_issued (fst (refresh _ _ ?s0 _ _, _))) /\ _ => destruct (refresh_monotone cp g s0 chain tid) as (A & B & _) end. now split.
    - split; apply incl_refl.
    - split; apply incl_refl.
    - destruct (chain_tid (st_chains s) chain) as [tid|]; [|split; apply incl_refl].
      destruct (c_rejects_archived g && memz _ (st_archive s)); [split; apply incl_refl|].
      destruct (recover _ sg) as [a|]; [|split; apply incl_refl].
      destruct (val_of_addr (st_reg s) chain a) as [v|]; [|split; apply incl_refl].
      destruct (memz v (st_jailed s)); split; apply incl_refl.
    - destruct (find_batch (st_batches s) key); [|split; apply incl_refl].
      cbn. split; [apply incl_tl|]; apply incl_refl.
    - contradiction.
    - destruct (chain_tid (st_chains s) chain2); [|split; apply incl_refl]. unfold Evidence.refresh_if_announced. destruct (c_stale_publishes g); [|split; apply incl_refl].
      destruct (refresh_monotone cp g s chain2 tid2) as (A & B & _). now split.
  Qed.

  Theorem issued_and_archive_only_grow ops : ~ In OGenesis ops -> forall s,
    incl (st_issued s) (st_issued (run_from s ops)) /\ incl (st_archive s) (st_archive (run_from s ops)).
  Proof.
    induction ops as [|o r IH]; intros NG s; [split; apply incl_refl|].
    cbn. destruct (step_monotone s o) as [A B]; [intros E; apply NG; now left|].
    destruct (IH (fun H => NG (or_intror H)) (step s o)) as [C D].
    split; eapply incl_tran; eassumption.
  Qed.

  Lemma step_ever_monotone s o : incl (st_ever s) (st_ever (step s o)).
  Proof.
    unfold Evidence.step.
    destruct o as [key chain body|key est|key|chain tid|reg|v|chain body est sg|key| |chain2 tid2]; cbn [Evidence.exec].
    - destruct (chain_tid (st_chains s) chain) as [tid|]; [|apply incl_refl].
      destruct (find_batch (st_batches s) key); [apply incl_refl|]. cbn. apply incl_tl, incl_refl.
    - destruct (find_batch (st_batches s) key) as [b0|]; [|apply incl_refl].
      destruct (c_set_once g && (0 <? b_est b0)); [apply incl_refl|].
      destruct (chain_tid (st_chains s) (b_chain b0)) as [tid|]; [|apply incl_refl]. cbn. apply incl_tl, incl_refl.
    - destruct (find_batch (st_batches s) key); apply incl_refl.
    - match goal with |- incl _ (st_ever (fst (refresh _ _ ?s0 _ _, _))) => exact (proj2 (proj2 (refresh_monotone cp g s0 chain tid))) end.
    - apply incl_refl.
    - apply incl_refl.
    - destruct (chain_tid (st_chains s) chain) as [tid|]; [|apply incl_refl].
      destruct (c_rejects_archived g && memz _ (st_archive s)); [apply incl_refl|].
      destruct (recover _ sg) as [a|]; [|apply incl_refl].
      destruct (val_of_addr (st_reg s) chain a) as [v|]; [|apply incl_refl].
      destruct (memz v (st_jailed s)); apply incl_refl.
    - destruct (find_batch (st_batches s) key); [|apply incl_refl]. cbn. apply incl_tl, incl_refl.
    - apply incl_refl.
    - destruct (chain_tid (st_chains s) chain2); [|apply incl_refl]. unfold Evidence.refresh_if_announced. destruct (c_stale_publishes g); [apply refresh_monotone | apply incl_refl].
  Qed.

  Theorem ever_only_grows ops : forall s, incl (st_ever s) (st_ever (run_from s ops)).
  Proof.
    induction ops as [|o r IH]; intros s; [apply incl_refl|].
    cbn. eapply incl_tran; [apply step_ever_monotone | apply IH].
  Qed.

  (** What the running instance published, any instance published; and without a restart the two
      ghosts are the same. *)
  Lemma step_issued_incl_ever s o : incl (st_issued s) (st_ever s) ->
    (forall b, In b (st_batches s) -> In (b_bts b) (st_ever s)) ->
    incl (st_issued (step s o)) (st_ever (step s o)) /\
    (forall b, In b (st_batches (step s o)) -> In (b_bts b) (st_ever (step s o))).
  Proof.
    unfold Evidence.step. intros I St.
    destruct o as [key chain body|key est|key|chain tid|reg|v|chain body est sg|key| |chain2 tid2]; cbn [Evidence.exec].
    - destruct (chain_tid (st_chains s) chain) as [tid|]; [|now split].
      destruct (find_batch (st_batches s) key) as [b0|]; [now split|]. cbn. split.
      + intros x [E|Hx]; [now left | right; now apply I].
      + intros b [E|Hb]; [subst; now left | right; now apply St].
    - destruct (find_batch (st_batches s) key) as [b0|]; [|now split].
      destruct (c_set_once g && (0 <? b_est b0)); [now split|].
      destruct (chain_tid (st_chains s) (b_chain b0)) as [tid|]; [|now split]. cbn. split.
      + intros x [E|Hx]; [now left | right; now apply I].
      + intros b [E|Hb]; [subst; now left | right; apply St; eapply remove_batch_in; eassumption].
    - destruct (find_batch (st_batches s) key) as [b0|]; [|now split]. cbn. split; [exact I|].
      intros b Hb. apply St. eapply remove_batch_in; eassumption.
    - now apply refresh_issued_incl_ever.
    - now split.
    - now split.
    - destruct (chain_tid (st_chains s) chain) as [tid|]; [|now split].
      destruct (c_rejects_archived g && memz _ (st_archive s)); [now split|].
      destruct (recover _ sg) as [a|]; [|now split].
      destruct (val_of_addr (st_reg s) chain a) as [v|]; [|now split].
      destruct (memz v (st_jailed s)); now split.
    - destruct (find_batch (st_batches s) key) as [b0|]; [|now split]. cbn. split.
      + intros x [E|Hx]; [now left | right; now apply I].
      + intros b Hb. right. now apply St.
    - cbn. split; [|exact St]. intros x Hx. apply in_map_iff in Hx. destruct Hx as (b0 & E & Hb). subst x. now apply St.
    - destruct (chain_tid (st_chains s) chain2); [|now split]. unfold Evidence.refresh_if_announced. destruct (c_stale_publishes g); [now apply refresh_issued_incl_ever | now split].
  Qed.

  Theorem issued_incl_ever ops c : In c (st_issued (run ops)) -> In c (st_ever (run ops)).
  Proof.
    assert (G : forall s, incl (st_issued s) (st_ever s) -> (forall b, In b (st_batches s) -> In (b_bts b) (st_ever s)) ->
                incl (st_issued (run_from s ops)) (st_ever (run_from s ops))).
    { induction ops as [|o r IH]; intros s I St; [exact I|]. cbn.
      destruct (step_issued_incl_ever s o I St) as [A B]. now apply IH. }
    apply (G init); [intros x [] | intros b []].
  Qed.

  (** ** What an evidence message can do, in any state. *)
  Theorem evidence_effect s chain body est sg v :
    newly_jailed s (step s (OEvidence chain body est sg)) v ->
    exists tid a,
      chain_tid (st_chains s) chain = Some tid /\
      (c_rejects_archived g = true -> ~ In (cp tid body (eff_est est)) (st_archive s)) /\
      recover (cp tid body (eff_est est)) sg = Some a /\
      val_of_addr (st_reg s) chain a = Some v /\
      st_jailed (step s (OEvidence chain body est sg)) = v :: st_jailed s.
  Proof.
    unfold newly_jailed, Evidence.step. cbn [Evidence.exec]. intros [Hn Hj].
    destruct (chain_tid (st_chains s) chain) as [tid|]; [|contradiction].
    destruct (c_rejects_archived g && memz (cp tid body (eff_est est)) (st_archive s)) eqn:Ea; [contradiction|].
    destruct (recover (cp tid body (eff_est est)) sg) as [a|] eqn:Er; [|contradiction].
    destruct (val_of_addr (st_reg s) chain a) as [u|] eqn:Ev; [|contradiction].
    destruct (memz u (st_jailed s)) eqn:Em; [contradiction|].
    cbn in Hj. destruct Hj as [E|Hj]; [subst u|contradiction].
    exists tid, a. repeat split; try assumption; try reflexivity.
    intros Hr. rewrite Hr in Ea. cbn in Ea. now apply memz_false.
  Qed.

  (** Evidence touches nothing but the jailed flag of at most one validator. *)
  Theorem evidence_frame s chain body est sg :
    let s' := step s (OEvidence chain body est sg) in
    st_chains s' = st_chains s /\ st_batches s' = st_batches s /\ st_archive s' = st_archive s /\
    st_issued s' = st_issued s /\ st_reg s' = st_reg s /\
    (st_jailed s' = st_jailed s \/ exists v, ~ In v (st_jailed s) /\ st_jailed s' = v :: st_jailed s).
  Proof.
    unfold Evidence.step. cbn [Evidence.exec].
    destruct (chain_tid (st_chains s) chain) as [tid|]; [|cbn; intuition].
    destruct (c_rejects_archived g && memz _ (st_archive s)); [cbn; intuition|].
    destruct (recover _ sg) as [a|]; [|cbn; intuition].
    destruct (val_of_addr (st_reg s) chain a) as [v|]; [|cbn; intuition].
    destruct (memz v (st_jailed s)) eqn:Em; [cbn; intuition|].
    cbn. repeat split; try reflexivity. right. exists v. split; [now apply memz_false | reflexivity].
  Qed.

  (** No other operation of the module jails anybody. *)
  Theorem only_evidence_jails s o v :
    newly_jailed s (step s o) v -> exists chain body est sg, o = OEvidence chain body est sg.
  Proof.
    unfold newly_jailed, Evidence.step. intros [Hn Hj].
    destruct o as [key chain body|key est|key|chain tid|reg|u|chain body est sg|key| |chain2 tid2]; cbn [Evidence.exec] in Hj.
    - destruct (chain_tid (st_chains s) chain); [|contradiction].
      destruct (find_batch (st_batches s) key); contradiction.
    - destruct (find_batch (st_batches s) key) as [b0|]; [|contradiction].
      destruct (c_set_once g && (0 <? b_est b0)); [contradiction|].
      destruct (chain_tid (st_chains s) (b_chain b0)); contradiction.
    - destruct (find_batch (st_batches s) key); contradiction.
    - match type of Hj with In v (st_jailed (fst (refresh _ _ ?s0 _ _, _))) => destruct (refresh_frame cp g s0 chain tid) as (_ & _ & Ej) end.
      cbn [fst] in Hj. rewrite Ej in Hj. contradiction.
    - contradiction.
    - cbn in Hj. apply filter_In in Hj. destruct Hj. contradiction.
    - now exists chain, body, est, sg.
    - destruct (find_batch (st_batches s) key); contradiction.
    - contradiction.
    - destruct (chain_tid (st_chains s) chain2); [|contradiction]. unfold Evidence.refresh_if_announced in Hj. destruct (c_stale_publishes g); [|contradiction].
      destruct (refresh_frame cp g s chain2 tid2) as (_ & _ & Ej). cbn [fst] in Hj. rewrite Ej in Hj. contradiction.
  Qed.

  (** Every validator jailed at the end of a history was jailed by one specific evidence message. *)
  Theorem jailed_has_cause ops : forall v, In v (st_jailed (run ops)) ->
    exists pre chain body est sg post,
      ops = pre ++ OEvidence chain body est sg :: post /\
      newly_jailed (run pre) (step (run pre) (OEvidence chain body est sg)) v.
  Proof.
    induction ops as [|o r IH] using rev_ind; intros v Hv; [contradiction|].
    rewrite (run_snoc cp recover g) in Hv.
    destruct (in_dec Z.eq_dec v (st_jailed (run r))) as [Hin|Hnin].
    - destruct (IH v Hin) as (pre & chain & body & est & sg & post & E & N).
      exists pre, chain, body, est, sg, (post ++ [o]). split; [|exact N].
      rewrite E. rewrite <- app_assoc. reflexivity.
    - assert (N : newly_jailed (run r) (step (run r) o) v) by (split; assumption).
      destruct (only_evidence_jails _ _ _ N) as (chain & body & est & sg & E). subst o.
      exists r, chain, body, est, sg, []. split; [reflexivity | exact N].
  Qed.
End Proofs2.

Section Honest.
  Context {Sig Key : Type}.
  Variable cp : Z -> Z -> Z -> Z.
  Variable recover : Z -> Sig -> option addr.
  Variable sign : Key -> Z -> Sig.
  Variable addr_of : Key -> addr.
  Variable g : cfg.
  Hypothesis Hbuild : c_build_archives g = true.
  Hypothesis Hreissue : c_reissue_archives g = true.
  Hypothesis Hrejects : c_rejects_archived g = true.
  Hypothesis Hqueries : c_queries_stored g = true.

  Notation step := (step cp recover g).
  Notation run := (run cp recover g).

  (** [v] uses key [k] on [chain]: every remote address it has registered there is [k]'s. *)
  Definition uses_only_key (s : state) (chain : Z) (v : val) (k : Key) : Prop :=
    forall a, In (chain, v, a) (st_reg s) -> a = addr_of k.

  (** A signature by [k] over a checkpoint [c] the chain published at any earlier time, submitted
      as evidence with ANY subject on ANY chain, never jails a validator whose registered key is
      [k] -- unless that signature also recovers to [k]'s address under another checkpoint. *)
  Theorem honest_never_jailed ops chain body est k c v :
    genesis_safe g ops ->
    In c (st_issued (run ops)) ->
    uses_only_key (run ops) chain v k ->
    newly_jailed (run ops) (step (run ops) (OEvidence chain body est (sign k c))) v ->
    exists m', c <> m' /\ recover m' (sign k c) = Some (addr_of k).
  Proof.
    intros G Hc Hk Hj.
    destruct (evidence_effect cp recover g _ _ _ _ _ _ Hj) as (tid & a & _ & Hna & Hr & Hv & _).
    specialize (Hna Hrejects).
    exists (cp tid body (eff_est est)). split.
    - intros E. apply Hna. rewrite <- E.
      now apply (issued_incl_archive cp recover g Hbuild Hreissue Hqueries ops _ G).
    - apply val_of_addr_in in Hv. apply Hk in Hv. now subst a.
  Qed.

  Corollary honest_never_jailed_bb ops chain body est k c v :
    genesis_safe g ops ->
    In c (st_issued (run ops)) ->
    uses_only_key (run ops) chain v k ->
    newly_jailed (run ops) (step (run ops) (OEvidence chain body est (sign k c))) v ->
    recover_binding_broken recover sign addr_of.
  Proof.
    intros G A B C. destruct (honest_never_jailed _ _ _ _ _ _ _ G A B C) as (m' & N & R).
    now exists k, c, m'.
  Qed.

  (** Whoever is jailed by evidence is the first validator registered with the address the
      signature recovers to, and the checkpoint was never published by the chain. *)
  Theorem bad_sig_jails_registered_signer_of_unissued ops chain body est sg v :
    genesis_safe g ops ->
    newly_jailed (run ops) (step (run ops) (OEvidence chain body est sg)) v ->
    exists tid a,
      chain_tid (st_chains (run ops)) chain = Some tid /\
      ~ In (cp tid body (eff_est est)) (st_issued (run ops)) /\
      ~ In (cp tid body (eff_est est)) (st_archive (run ops)) /\
      recover (cp tid body (eff_est est)) sg = Some a /\
      val_of_addr (st_reg (run ops)) chain a = Some v /\ In (chain, v, a) (st_reg (run ops)).
  Proof.
    intros G Hj.
    destruct (evidence_effect cp recover g _ _ _ _ _ _ Hj) as (tid & a & Ht & Hna & Hr & Hv & _).
    specialize (Hna Hrejects). exists tid, a. repeat split; try assumption.
    - intros Hi. apply Hna. now apply (issued_incl_archive cp recover g Hbuild Hreissue Hqueries ops _ G).
    - now apply val_of_addr_in.
  Qed.

  (** The headline without any hypothesis about who registered what: a signature over a checkpoint
      the chain published jails NOBODY -- not its signer, not anybody else -- unless that one
      signature recovers, under a DIFFERENT message, to an address that validator registered
      (explicit collision disjunct; for the signer itself this is [recover_binding_broken]). *)
  Theorem published_signature_jails_nobody ops chain body est k c v :
    genesis_safe g ops ->
    In c (st_issued (run ops)) ->
    newly_jailed (run ops) (step (run ops) (OEvidence chain body est (sign k c))) v ->
    exists m' a, m' <> c /\ recover m' (sign k c) = Some a /\ In (chain, v, a) (st_reg (run ops)).
  Proof.
    intros G Hc Hj.
    destruct (bad_sig_jails_registered_signer_of_unissued _ _ _ _ _ _ G Hj) as (tid & a & _ & Hni & _ & Hr & _ & Hin).
    exists (cp tid body (eff_est est)), a. split; [|split; assumption].
    intros E. apply Hni. now rewrite E.
  Qed.
End Honest.

(** ** Concrete instance used by the examples: an injective checkpoint, and a signature scheme
    whose binding is NOT broken (a signature recovers to its key only under its own message). *)
Definition ex_cp (tid body est : Z) : Z := (tid * 1000 + body) * 100000000 + est.
Definition ex_sign (k m : Z) : Z * Z := (k, m).
Definition ex_addr (k : Z) : addr := 2 * k + 200.
Definition ex_recover (m : Z) (sg : Z * Z) : option addr :=
  if snd sg =? m then Some (ex_addr (fst sg)) else Some (2 * fst sg + 1).

Lemma ex_binding_intact : ~ recover_binding_broken ex_recover ex_sign ex_addr.
Proof.
  intros (k & m & m' & N & R). unfold ex_recover, ex_sign, ex_addr in R. cbv [fst snd] in R.
  destruct (m =? m') eqn:E; [apply Z.eqb_eq in E; contradiction|].
  injection R as R. lia.
Qed.

(** build, estimate elected, validator 5 (key 5) signs the re-issued checkpoint *)
Definition ex_history : list (op (Z * Z)) :=
  [OSetTid 1 7; OSetReg [(1, 5, 210); (1, 6, 212)]; OBuild 1 1 42; OEstimate 1 21000].
Definition ex_reissued : Z := ex_cp 7 42 21000.

(** The pinned tree (UpdateBatchGasEstimate does not archive): the honest confirmation of the
    re-issued checkpoint, replayed as evidence, jails its signer although the binding is intact. *)
Definition old_cfg : cfg :=
  {| c_build_archives := true; c_reissue_archives := false; c_rejects_archived := true; c_set_once := true;
     c_queries_stored := true; c_confirm_recomputes := true; c_genesis_archives_live := true;
     c_redeploy_reissues := false; c_stale_publishes := true |}.

Theorem honest_jailed_without_rearchive :
  let s := Evidence.run ex_cp ex_recover old_cfg ex_history in
  In ex_reissued (st_issued s) /\ ~ In ex_reissued (st_archive s) /\
  uses_only_key ex_addr s 1 5 5 /\
  newly_jailed s (Evidence.step ex_cp ex_recover old_cfg s (OEvidence 1 42 21000 (ex_sign 5 ex_reissued))) 5 /\
  ~ recover_binding_broken ex_recover ex_sign ex_addr.
Proof.
  cbv zeta. split; [vm_compute; auto|]. split; [vm_compute; intuition discriminate|].
  split.
  - intros a H. vm_compute in H. destruct H as [H|[H|[]]]; inversion H; reflexivity.
  - split; [|exact ex_binding_intact].
    split; vm_compute; intuition discriminate.
Qed.

(** Non-vacuity for the code as it is now: the same replay is rejected (checkpoint archived) ... *)
Example honest_replay_rejected_now :
  let s := Evidence.run ex_cp ex_recover code_cfg ex_history in
  In ex_reissued (st_issued s) /\
  Evidence.exec ex_cp ex_recover code_cfg s (OEvidence 1 42 21000 (ex_sign 5 ex_reissued)) = (s, RErrArchived) /\
  Evidence.exec ex_cp ex_recover code_cfg s (OEvidence 1 42 0 (ex_sign 5 (ex_cp 7 42 300000))) = (s, RErrArchived).
Proof. cbv zeta. split; [vm_compute; auto|]. split; reflexivity. Qed.

(** ... while a signature by the same validator over a batch the chain never issued does jail it,
    and only it. *)
Example forged_batch_signer_jailed_now :
  let s := Evidence.run ex_cp ex_recover code_cfg ex_history in
  st_jailed (Evidence.step ex_cp ex_recover code_cfg s (OEvidence 1 43 21000 (ex_sign 5 (ex_cp 7 43 21000)))) = [5] /\
  snd (Evidence.exec ex_cp ex_recover code_cfg s (OEvidence 1 43 21000 (ex_sign 9 (ex_cp 7 43 21000)))) = RErrNoVal.
Proof. cbv zeta. split; reflexivity. Qed.

(** ** Queries are a channel too.  A configuration in which the batch queries recompute
    BytesToSign for the deployment id in force at query time (instead of serving the stored,
    archived value), on a tree that does not re-issue open batches when a compass is activated
    (main before a05a08cf, where this seeded change was made): after a redeploy the chain hands out, for signing, a checkpoint that never
    entered the archive; the validator that signs what it was given is jailed by the replay. *)
Definition recomputing_queries_cfg : cfg :=
  {| c_build_archives := true; c_reissue_archives := true; c_rejects_archived := true; c_set_once := true;
     c_queries_stored := false; c_confirm_recomputes := true; c_genesis_archives_live := true;
     c_redeploy_reissues := false; c_stale_publishes := true |}.

Definition ex_redeploy_history : list (op (Z * Z)) :=
  [OSetTid 1 7; OSetReg [(1, 5, 210); (1, 6, 212)]; OBuild 1 1 42; OSetTid 1 8].
Definition ex_served_after_redeploy : Z := ex_cp 8 42 300000.

Theorem honest_jailed_with_recomputing_queries :
  let s0 := Evidence.run ex_cp ex_recover recomputing_queries_cfg ex_redeploy_history in
  let s := Evidence.step ex_cp ex_recover recomputing_queries_cfg s0 (OQuery 1) in
  served_bts ex_cp recomputing_queries_cfg s0 1 = Some ex_served_after_redeploy /\
  In ex_served_after_redeploy (st_issued s) /\ ~ In ex_served_after_redeploy (st_archive s) /\
  confirm_checks_against ex_cp recomputing_queries_cfg s 1 = Some ex_served_after_redeploy /\
  uses_only_key ex_addr s 1 5 5 /\
  newly_jailed s (Evidence.step ex_cp ex_recover recomputing_queries_cfg s
                    (OEvidence 1 42 0 (ex_sign 5 ex_served_after_redeploy))) 5 /\
  ~ recover_binding_broken ex_recover ex_sign ex_addr.
Proof.
  cbv zeta. split; [reflexivity|]. split; [vm_compute; auto|]. split; [vm_compute; intuition discriminate|].
  split; [reflexivity|]. split.
  - intros a H. vm_compute in H. destruct H as [H|[H|[]]]; inversion H; reflexivity.
  - split; [|exact ex_binding_intact]. split; vm_compute; intuition discriminate.
Qed.

(** ** Issued versus verified.  ConfirmBatch checks a confirmation against the checkpoint
    RECOMPUTED for the deployment id in force when the confirmation arrives, the queries serve the
    STORED BytesToSign.  As long as the id the record was written under is in force the two
    coincide (this section).  On a tree that does not re-issue open batches when a compass is
    activated they differ after a redeploy for every outstanding batch: the published (archived)
    checkpoint can no longer be confirmed, and the only checkpoint ConfirmBatch accepts a signature
    over was never published nor archived ([confirm_after_redeploy_checks_unpublished]; no clause of
    C13 is violated: the chain did not ask for that signature).  The code as it is re-issues on
    activation, which keeps every stored BytesToSign in step with the id in force ([Synced] below). *)
Section Verified.
  Context {Sig : Type}.
  Variable cp : Z -> Z -> Z -> Z.
  Variable recover : Z -> Sig -> option addr.
  Variable g : cfg.
  Notation run := (Evidence.run cp recover g).
  Notation step := (Evidence.step cp recover g).

  (** every stored BytesToSign is the record's checkpoint under SOME deployment id (the one in
      force when it was written) *)
  Definition bts_inv (s : state) : Prop :=
    forall b, In b (st_batches s) -> exists tid0, b_bts b = cp tid0 (b_body b) (eff_est (b_est b)).

  Lemma step_bts_inv s o : bts_inv s -> bts_inv (step s o).
  Proof.
    unfold bts_inv, Evidence.step. intros I.
    destruct o as [key chain body|key est|key|chain tid|reg|v|chain body est sg|key| |chain2 tid2]; cbn [Evidence.exec].
    - destruct (chain_tid (st_chains s) chain) as [tid|]; [|exact I].
      destruct (find_batch (st_batches s) key) as [b0|]; [exact I|].
      cbn. intros b [E|Hb]; [subst b; now exists tid | now apply I].
    - destruct (find_batch (st_batches s) key) as [b0|]; [|exact I].
      destruct (c_set_once g && (0 <? b_est b0)); [exact I|].
      destruct (chain_tid (st_chains s) (b_chain b0)) as [tid|]; [|exact I].
      cbn. intros b [E|Hb]; [subst b; now exists tid | apply I; eapply remove_batch_in; eassumption].
    - destruct (find_batch (st_batches s) key) as [b0|]; [|exact I].
      cbn. intros b Hb. apply I. eapply remove_batch_in; eassumption.
    - now apply refresh_bts_some_id.
    - exact I.
    - exact I.
    - destruct (chain_tid (st_chains s) chain) as [tid|]; [|exact I].
      destruct (c_rejects_archived g && memz _ (st_archive s)); [exact I|].
      destruct (recover _ sg) as [a|]; [|exact I].
      destruct (val_of_addr (st_reg s) chain a) as [v|]; [|exact I].
      destruct (memz v (st_jailed s)); exact I.
    - destruct (find_batch (st_batches s) key) as [b0|]; [|exact I]. exact I.
    - exact I.
    - destruct (chain_tid (st_chains s) chain2); [|exact I]. unfold Evidence.refresh_if_announced. destruct (c_stale_publishes g); [now apply refresh_bts_some_id | exact I].
  Qed.

  Theorem stored_bts_is_a_checkpoint ops b :
    In b (st_batches (run ops)) -> exists tid0, b_bts b = cp tid0 (b_body b) (eff_est (b_est b)).
  Proof.
    unfold Evidence.run, Evidence.run_from. revert b.
    change (bts_inv (fold_left step ops init)).
    assert (G : forall s, bts_inv s -> bts_inv (fold_left step ops s)).
    { induction ops as [|o r IH]; intros s I; [exact I|]. cbn. apply IH. now apply step_bts_inv. }
    apply G. intros b [].
  Qed.

  (** Issued = verified as long as the id the record was written under is still in force. *)
  Theorem confirm_checks_published_while_id_unchanged ops key b tid0 :
    find_batch (st_batches (run ops)) key = Some b ->
    b_bts b = cp tid0 (b_body b) (eff_est (b_est b)) ->
    chain_tid (st_chains (run ops)) (b_chain b) = Some tid0 ->
    confirm_checks_against cp g (run ops) key = Some (b_bts b).
  Proof.
    intros F E T. unfold confirm_checks_against, current_cp. rewrite F, T.
    destruct (c_confirm_recomputes g); [now rewrite E | reflexivity].
  Qed.
End Verified.

(** A tree that does not re-issue on compass activation (main before a05a08cf), after a redeploy:
    published <> verified, and the verified one is unprotected. *)
Definition no_reissue_cfg : cfg :=
  {| c_build_archives := true; c_reissue_archives := true; c_rejects_archived := true; c_set_once := true;
     c_queries_stored := true; c_confirm_recomputes := true; c_genesis_archives_live := true;
     c_redeploy_reissues := false; c_stale_publishes := true |}.

Theorem confirm_after_redeploy_checks_unpublished :
  let s := Evidence.run ex_cp ex_recover no_reissue_cfg ex_redeploy_history in
  served_bts ex_cp no_reissue_cfg s 1 = Some (ex_cp 7 42 300000) /\
  confirm_checks_against ex_cp no_reissue_cfg s 1 = Some (ex_cp 8 42 300000) /\
  In (ex_cp 7 42 300000) (st_archive s) /\
  ~ In (ex_cp 8 42 300000) (st_issued s) /\ ~ In (ex_cp 8 42 300000) (st_archive s) /\
  newly_jailed s (Evidence.step ex_cp ex_recover no_reissue_cfg s (OEvidence 1 42 0 (ex_sign 5 (ex_cp 8 42 300000)))) 5.
Proof.
  cbv zeta. split; [reflexivity|]. split; [reflexivity|]. split; [vm_compute; auto|].
  split; [vm_compute; intuition discriminate|]. split; [vm_compute; intuition discriminate|].
  split; vm_compute; intuition discriminate.
Qed.

(** The code as it is (re-issue on activation): the same history; what is served, what ConfirmBatch
    verifies against and what is archived are one and the same checkpoint, under the new id. *)
Example after_redeploy_reissued_now :
  let s := Evidence.run ex_cp ex_recover code_cfg ex_redeploy_history in
  served_bts ex_cp code_cfg s 1 = Some (ex_cp 8 42 300000) /\
  confirm_checks_against ex_cp code_cfg s 1 = Some (ex_cp 8 42 300000) /\
  In (ex_cp 8 42 300000) (st_archive s) /\ In (ex_cp 7 42 300000) (st_archive s) /\
  Evidence.exec ex_cp ex_recover code_cfg s (OEvidence 1 42 0 (ex_sign 5 (ex_cp 8 42 300000))) = (s, RErrArchived).
Proof. cbv zeta. split; [reflexivity|]. split; [reflexivity|]. split; [vm_compute; auto|]. split; [vm_compute; auto | reflexivity]. Qed.

(** ** Issued = verified, for all histories without a stale activation.  With the re-issue on
    activation every stored BytesToSign is the record's checkpoint under the id in force NOW. *)
Lemma chain_tid_set_same l c t : chain_tid (set_tid l c t) c = Some t.
Proof.
  induction l as [|[c' t'] r IH]; cbn [set_tid chain_tid]; [now rewrite Z.eqb_refl|].
  destruct (c' =? c) eqn:E; cbn [chain_tid]; [now rewrite Z.eqb_refl | now rewrite E].
Qed.

Lemma chain_tid_set_other l c t c2 : c2 <> c -> chain_tid (set_tid l c t) c2 = chain_tid l c2.
Proof.
  intros N. induction l as [|[c' t'] r IH]; cbn [set_tid chain_tid].
  - destruct (c =? c2) eqn:E; [apply Z.eqb_eq in E; congruence | reflexivity].
  - destruct (c' =? c) eqn:E; cbn [chain_tid].
    + apply Z.eqb_eq in E. subst c'. destruct (c =? c2) eqn:E2; [apply Z.eqb_eq in E2; congruence | reflexivity].
    + destruct (c' =? c2); [reflexivity | exact IH].
Qed.

Section Synced.
  Context {Sig : Type}.
  Variable cp : Z -> Z -> Z -> Z.
  Variable recover : Z -> Sig -> option addr.
  Variable g : cfg.
  Hypothesis Hre : c_redeploy_reissues g = true.
  Notation step := (Evidence.step cp recover g).
  Notation run := (Evidence.run cp recover g).

  Definition synced (s : state) : Prop :=
    forall b, In b (st_batches s) -> current_cp cp s b = Some (b_bts b).

  Definition not_stale (o : op Sig) : Prop := match o with OStaleActivate _ _ => False | _ => True end.
  (** a stale activation is harmless when evm does not announce it *)
  Definition stale_ok (o : op Sig) : Prop := c_stale_publishes g = false \/ not_stale o.

  Lemma stale_ok_all : c_stale_publishes g = false -> forall ops : list (op Sig), Forall stale_ok ops.
  Proof. intros H ops. apply Forall_forall. intros o _. now left. Qed.

  Lemma step_synced s o : stale_ok o -> synced s -> synced (step s o).
  Proof.
    unfold synced, Evidence.step. intros NS I.
    destruct o as [key chain body|key est|key|chain tid|reg|v|chain body est sg|key| |chain2 tid2]; cbn [Evidence.exec].
    - destruct (chain_tid (st_chains s) chain) as [tid|] eqn:T; [|exact I].
      destruct (find_batch (st_batches s) key) as [b0|]; [exact I|].
      cbn. intros b [E|Hb]; [|now apply I]. subst b. unfold current_cp. cbn. now rewrite T.
    - destruct (find_batch (st_batches s) key) as [b0|]; [|exact I].
      destruct (c_set_once g && (0 <? b_est b0)); [exact I|].
      destruct (chain_tid (st_chains s) (b_chain b0)) as [tid|] eqn:T; [|exact I].
      cbn. intros b [E|Hb]; [|apply I; eapply remove_batch_in; eassumption]. subst b. unfold current_cp. cbn. now rewrite T.
    - destruct (find_batch (st_batches s) key) as [b0|]; [|exact I].
      cbn. intros b Hb. apply I. eapply remove_batch_in; eassumption.
    - unfold Evidence.refresh. rewrite Hre. cbn [fst st_batches]. intros b' Hb'.
      unfold Evidence.reissue_all in Hb'. apply in_map_iff in Hb'. destruct Hb' as (b & E & Hb).
      unfold current_cp. cbn [st_chains]. destruct (b_chain b =? chain) eqn:Ec.
      + subst b'. cbn [b_chain b_body b_est b_bts]. apply Z.eqb_eq in Ec. rewrite Ec, chain_tid_set_same. reflexivity.
      + subst b'. apply Z.eqb_neq in Ec. rewrite (chain_tid_set_other _ _ _ _ Ec). exact (I b Hb).
    - exact I.
    - exact I.
    - destruct (chain_tid (st_chains s) chain) as [tid|]; [|exact I].
      destruct (c_rejects_archived g && memz _ (st_archive s)); [exact I|].
      destruct (recover _ sg) as [a|]; [|exact I].
      destruct (val_of_addr (st_reg s) chain a) as [v|]; [|exact I].
      destruct (memz v (st_jailed s)); exact I.
    - destruct (find_batch (st_batches s) key) as [b0|]; [|exact I]. exact I.
    - exact I.
    - destruct NS as [NS|NS]; [|contradiction].
      destruct (chain_tid (st_chains s) chain2); [|exact I]. unfold Evidence.refresh_if_announced. rewrite NS. exact I.
  Qed.

  Theorem batches_synced ops : Forall stale_ok ops -> synced (run ops).
  Proof.
    unfold Evidence.run, Evidence.run_from.
    assert (G : forall s, Forall stale_ok ops -> synced s -> synced (fold_left step ops s)).
    { induction ops as [|o r IH]; intros s F I; [exact I|]. inversion F; subst. cbn. apply IH; [assumption|].
      now apply step_synced. }
    intros F. apply G; [exact F | intros b []].
  Qed.

  (** what ConfirmBatch verifies against is what the queries serve, whatever the two flags say *)
  Theorem confirm_checks_what_is_served ops key :
    Forall stale_ok ops -> confirm_checks_against cp g (run ops) key = served_bts cp g (run ops) key.
  Proof.
    intros F. unfold confirm_checks_against, served_bts, served.
    destruct (find_batch (st_batches (run ops)) key) as [b|] eqn:Fb; [|reflexivity].
    apply find_batch_in in Fb. destruct Fb as [Fb _].
    rewrite (batches_synced ops F b Fb).
    destruct (c_confirm_recomputes g), (c_queries_stored g); reflexivity.
  Qed.
End Synced.

(** A stale activation (contract version not above the active one) leaves the chain info alone.  On a
    tree where evm still publishes the activation event for it (main before a10a974d), skyway
    re-issues the open batches for the id the event carries: what it publishes is archived (no C13
    clause is touched), but issued <> verified again. *)
Definition stale_publishing_cfg : cfg :=
  {| c_build_archives := true; c_reissue_archives := true; c_rejects_archived := true; c_set_once := true;
     c_queries_stored := true; c_confirm_recomputes := true; c_genesis_archives_live := true;
     c_redeploy_reissues := true; c_stale_publishes := true |}.

Example stale_activation_desyncs_when_announced :
  let s := Evidence.run ex_cp ex_recover stale_publishing_cfg
             [OSetTid 1 7; OSetReg [(1, 5, 210); (1, 6, 212)]; OBuild 1 1 42; OStaleActivate 1 9] in
  served_bts ex_cp stale_publishing_cfg s 1 = Some (ex_cp 9 42 300000) /\
  confirm_checks_against ex_cp stale_publishing_cfg s 1 = Some (ex_cp 7 42 300000) /\
  In (ex_cp 9 42 300000) (st_archive s) /\ In (ex_cp 7 42 300000) (st_archive s).
Proof. cbv zeta. split; [reflexivity|]. split; [reflexivity|]. split; vm_compute; auto. Qed.

(** The code as it is: a stale activation is not announced and changes nothing at all in skyway. *)
Theorem stale_activation_is_a_noop {Sig : Type} (cp : Z -> Z -> Z -> Z) (recover : Z -> Sig -> option addr) (g : cfg) s chain tid :
  c_stale_publishes g = false -> Evidence.step cp recover g s (OStaleActivate chain tid) = s.
Proof.
  intros H. unfold Evidence.step. cbn [Evidence.exec]. destruct (chain_tid (st_chains s) chain); [|reflexivity].
  unfold refresh_if_announced. now rewrite H.
Qed.

(** ** Chain restart from an exported genesis.  The PastEthSignatureCheckpoint set is not part of
    skyway's GenesisState; the batch records are, BytesToSign included.  An InitGenesis that does
    not archive what it imports starts the new chain instance showing, through every batch query,
    bytes to sign that are not in its archive: the validator that signs them is jailed by the replay. *)
Definition unarchiving_genesis_cfg : cfg :=
  {| c_build_archives := true; c_reissue_archives := true; c_rejects_archived := true; c_set_once := true;
     c_queries_stored := true; c_confirm_recomputes := true; c_genesis_archives_live := false;
     c_redeploy_reissues := true; c_stale_publishes := false |}.
Definition archiving_genesis_cfg : cfg :=
  {| c_build_archives := true; c_reissue_archives := true; c_rejects_archived := true; c_set_once := true;
     c_queries_stored := true; c_confirm_recomputes := true; c_genesis_archives_live := true;
     c_redeploy_reissues := true; c_stale_publishes := false |}.

Definition ex_genesis_history : list (op (Z * Z)) :=
  [OSetTid 1 7; OSetReg [(1, 5, 210); (1, 6, 212)]; OBuild 1 1 42; OGenesis].

Theorem honest_jailed_after_unarchiving_genesis :
  let s := Evidence.run ex_cp ex_recover unarchiving_genesis_cfg ex_genesis_history in
  served_bts ex_cp unarchiving_genesis_cfg s 1 = Some (ex_cp 7 42 300000) /\
  confirm_checks_against ex_cp unarchiving_genesis_cfg s 1 = Some (ex_cp 7 42 300000) /\
  In (ex_cp 7 42 300000) (st_issued s) /\ ~ In (ex_cp 7 42 300000) (st_archive s) /\
  uses_only_key ex_addr s 1 5 5 /\
  newly_jailed s (Evidence.step ex_cp ex_recover unarchiving_genesis_cfg s (OEvidence 1 42 0 (ex_sign 5 (ex_cp 7 42 300000)))) 5 /\
  ~ recover_binding_broken ex_recover ex_sign ex_addr.
Proof.
  cbv zeta. split; [reflexivity|]. split; [reflexivity|]. split; [vm_compute; auto|]. split; [vm_compute; intuition discriminate|].
  split.
  - intros a H. vm_compute in H. destruct H as [H|[H|[]]]; inversion H; reflexivity.
  - split; [|exact ex_binding_intact]. split; vm_compute; intuition discriminate.
Qed.

(** With an InitGenesis that archives the imported batches' BytesToSign the same replay is refused. *)
Example replay_after_archiving_genesis_rejected :
  let s := Evidence.run ex_cp ex_recover archiving_genesis_cfg ex_genesis_history in
  Evidence.exec ex_cp ex_recover archiving_genesis_cfg s (OEvidence 1 42 0 (ex_sign 5 (ex_cp 7 42 300000))) = (s, RErrArchived).
Proof. reflexivity. Qed.

(** What no InitGenesis can repair without carrying the archive in the genesis state: a checkpoint
    published by the previous instance for a batch that was retired (executed / cancelled / timed
    out / re-estimated) before the export.  It is in [st_ever], not in the new instance's archive;
    the genuine confirmation of it, replayed after the restart, jails its signer. *)
Definition ex_retired_history : list (op (Z * Z)) :=
  [OSetTid 1 7; OSetReg [(1, 5, 210); (1, 6, 212)]; OBuild 1 1 42; ORemove 1; OGenesis].

Theorem retired_checkpoint_unprotected_after_genesis :
  let s := Evidence.run ex_cp ex_recover archiving_genesis_cfg ex_retired_history in
  In (ex_cp 7 42 300000) (st_ever s) /\ ~ In (ex_cp 7 42 300000) (st_issued s) /\ ~ In (ex_cp 7 42 300000) (st_archive s) /\
  uses_only_key ex_addr s 1 5 5 /\
  newly_jailed s (Evidence.step ex_cp ex_recover archiving_genesis_cfg s (OEvidence 1 42 0 (ex_sign 5 (ex_cp 7 42 300000)))) 5 /\
  ~ recover_binding_broken ex_recover ex_sign ex_addr.
Proof.
  cbv zeta. split; [vm_compute; auto|]. split; [vm_compute; intuition|]. split; [vm_compute; intuition|].
  split.
  - intros a H. vm_compute in H. destruct H as [H|[H|[]]]; inversion H; reflexivity.
  - split; [|exact ex_binding_intact]. split; vm_compute; intuition discriminate.
Qed.

(** Without a restart the two ghosts coincide: everything ever published is archived. *)
Section Ever.
  Context {Sig : Type}.
  Variable cp : Z -> Z -> Z -> Z.
  Variable recover : Z -> Sig -> option addr.
  Variable g : cfg.

  Lemma step_ever_eq s o : o <> OGenesis -> st_ever s = st_issued s ->
    st_ever (Evidence.step cp recover g s o) = st_issued (Evidence.step cp recover g s o).
  Proof.
    intros NG E. unfold Evidence.step.
    destruct o as [key chain body|key est|key|chain tid|reg|v|chain body est sg|key| |chain2 tid2]; cbn [Evidence.exec].
    - destruct (chain_tid (st_chains s) chain) as [tid|]; [|exact E].
      destruct (find_batch (st_batches s) key) as [b0|]; [exact E|]. cbn. now rewrite E.
    - destruct (find_batch (st_batches s) key) as [b0|]; [|exact E].
      destruct (c_set_once g && (0 <? b_est b0)); [exact E|].
      destruct (chain_tid (st_chains s) (b_chain b0)) as [tid|]; [|exact E]. cbn. now rewrite E.
    - destruct (find_batch (st_batches s) key) as [b0|]; [|exact E]. cbn. exact E.
    - now apply refresh_ever_eq.
    - exact E.
    - exact E.
    - destruct (chain_tid (st_chains s) chain) as [tid|]; [|exact E].
      destruct (c_rejects_archived g && memz _ (st_archive s)); [exact E|].
      destruct (recover _ sg) as [a|]; [|exact E].
      destruct (val_of_addr (st_reg s) chain a) as [v|]; [|exact E].
      destruct (memz v (st_jailed s)); exact E.
    - destruct (find_batch (st_batches s) key) as [b0|]; [|exact E]. cbn. now rewrite E.
    - contradiction.
    - destruct (chain_tid (st_chains s) chain2); [|exact E]. unfold Evidence.refresh_if_announced. destruct (c_stale_publishes g); [now apply refresh_ever_eq | exact E].
  Qed.

  Theorem ever_is_issued_without_genesis ops :
    ~ In OGenesis ops -> st_ever (Evidence.run cp recover g ops) = st_issued (Evidence.run cp recover g ops).
  Proof.
    unfold Evidence.run, Evidence.run_from.
    assert (G : forall s, ~ In OGenesis ops -> st_ever s = st_issued s ->
                st_ever (fold_left (Evidence.step cp recover g) ops s) = st_issued (fold_left (Evidence.step cp recover g) ops s)).
    { induction ops as [|o r IH]; intros s NG E; [exact E|]. cbn. apply IH.
      - intros H. apply NG. now right.
      - apply step_ever_eq; [|exact E]. intros X. apply NG. now left. }
    intros NG. now apply G.
  Qed.
End Ever.
