(** C03, second round — OBJECTS held in a principal's name that messages refer to by an identifier
    the SENDER chooses (a token denom, an ERC20 binding, a pending transfer), and the non-message
    path that rewrites them: the ExportGenesis -> InitGenesis round trip of a module.

    Modelled code (x/tokenfactory/keeper: CreateDenom, ChangeAdmin, Mint, InitGenesis/ExportGenesis;
    x/skyway/keeper: SetERC20ToTokenDenom, SetERC20MappingProposal, SendToRemote,
    CancelSendToRemote, setDenomToERC20; genesis of skyway / treasury / paloma as the identity on
    this projection). Two SHAPES of the code are parameters of the model and are extracted from
    the Go AST on every run (Gen/C03.v):
    - [sh_bind_guard]: the request fields the duplicate-binding lookup of SetERC20ToTokenDenom is
      keyed by (the written index is keyed by ChainReferenceId + Erc20);
    - [sh_tf_import]: the keeper calls tokenfactory's InitGenesis makes per imported denom, in order
      (createDenomAfterValidation itself writes {Admin: creator}).
    Definitions only; proofs in ObjectsProofs.v. *)
From Coq Require Import List ZArith String Bool.
Import ListNotations.
Open Scope Z_scope.

(** A denom: (creator, sub id); creator 0 = a native denom (ugrain ...), held by governance. *)
Definition denom := (Z * Z)%type.
Definition denom_eqb (a b : denom) : bool := (fst a =? fst b) && (snd a =? snd b).

Record shape := MkShape { sh_bind_guard : list string; sh_tf_import : list string }.

Record ost := MkO {
  o_admin : list (denom * Z);        (* tokenfactory authority metadata: denom -> admin (0: none) *)
  o_e2d   : list (Z * denom);        (* skyway index erc20 -> denom *)
  o_d2e   : list (denom * Z);        (* skyway index denom -> erc20 *)
  o_pend  : list (Z * (Z * Z));      (* pending transfers: id -> (sender, erc20) *)
  o_esc   : list (denom * Z);        (* transfers escrowed in the module account, per denom *)
  o_next  : Z                        (* last pending-transfer id handed out *)
}.

Fixpoint dfind {A} (d : denom) (l : list (denom * A)) : option A :=
  match l with
  | [] => None
  | (k, v) :: r => if denom_eqb k d then Some v else dfind d r
  end.

Fixpoint zfind {A} (x : Z) (l : list (Z * A)) : option A :=
  match l with
  | [] => None
  | (k, v) :: r => if k =? x then Some v else zfind x r
  end.

Definition admin_of (s : ost) (d : denom) : option Z := dfind d (o_admin s).
Definition e2d (s : ost) (e : Z) : option denom := zfind e (o_e2d s).
Definition d2e (s : ost) (d : denom) : option Z := dfind d (o_d2e s).
Definition pend (s : ost) (tx : Z) : option (Z * Z) := zfind tx (o_pend s).
Definition esc (s : ost) (d : denom) : Z := match dfind d (o_esc s) with Some n => n | None => 0 end.

Definition mem_str (x : string) (l : list string) : bool := existsb (String.eqb x) l.

(** The duplicate-binding guard of SetERC20ToTokenDenom as the code has it: a lookup keyed by the
    listed request fields must find nothing. *)
Definition bind_guard_ok (sh : shape) (s : ost) (d : denom) (e : Z) : bool :=
  (if mem_str "Erc20" (sh_bind_guard sh) then match e2d s e with None => true | Some _ => false end else true)
  && (if mem_str "Denom" (sh_bind_guard sh) then match d2e s d with None => true | Some _ => false end else true).

(** tokenfactory InitGenesis for one exported (denom, admin): the calls in source order;
    createDenomAfterValidation writes {Admin: creator}, setAuthorityMetadata the exported admin. *)
Definition import_admin (order : list string) (creator exported : Z) : Z :=
  fold_left (fun cur w =>
    if String.eqb w "createDenomAfterValidation" then creator
    else if String.eqb w "setAuthorityMetadata" then exported
    else cur) order 0.

Fixpoint dedup_admin (l : list (denom * Z)) (seen : list denom) : list (denom * Z) :=
  match l with
  | [] => []
  | (d, a) :: r => if existsb (denom_eqb d) seen then dedup_admin r seen
                   else (d, a) :: dedup_admin r (d :: seen)
  end.

(** ExportGenesis lists every denom with its current admin; InitGenesis on an empty store. *)
Definition tf_roundtrip (sh : shape) (s : ost) : ost :=
  MkO (map (fun x => (fst x, import_admin (sh_tf_import sh) (fst (fst x)) (snd x))) (dedup_admin (o_admin s) []))
      (o_e2d s) (o_d2e s) (o_pend s) (o_esc s) (o_next s).

(** skyway: ExportGenesis lists the denom -> erc20 index (one entry per denom, in store order);
    InitGenesis calls setDenomToERC20 for each in turn, which writes BOTH indexes: the erc20 -> denom
    index is rebuilt from the forward index (stale reverse entries disappear; if two denoms point to
    the same contract the one imported last wins). [order] is the export order as observed; denoms it
    misses are appended, so that the function is total. *)
Fixpoint dedup_keys {A} (l : list (denom * A)) (seen : list denom) : list denom :=
  match l with
  | [] => []
  | (d, _) :: r => if existsb (denom_eqb d) seen then dedup_keys r seen else d :: dedup_keys r (d :: seen)
  end.

Definition complete_order (order : list denom) (l : list (denom * Z)) : list denom :=
  order ++ filter (fun d => negb (existsb (denom_eqb d) order)) (dedup_keys l []).

Definition exported_pairs (order : list denom) (l : list (denom * Z)) : list (denom * Z) :=
  flat_map (fun d => match dfind d l with Some e => [(d, e)] | None => [] end) (complete_order order l).

Inductive oop :=
| OCreate (p sub : Z) (wf : bool)              (* tokenfactory.MsgCreateDenom; wf: subdenom well-formed *)
| OChangeAdmin (p dc ds na : Z)                (* tokenfactory.MsgChangeAdmin of denom (dc, ds) to na *)
| OMint (p dc ds : Z)                          (* tokenfactory.MsgMint (the supply is not projected) *)
| OBind (p dc ds e : Z) (ewf : bool)           (* skyway.MsgSetERC20ToTokenDenom; ewf: contract well-formed *)
| OGovBind (dc ds e : Z)                       (* skyway.MsgSetERC20MappingProposal, signed by the authority *)
| OSend (p dc ds : Z) (funded : bool)          (* skyway.MsgSendToRemote; funded: p holds the coins (bank input) *)
| OCancel (p tx : Z)                           (* skyway.MsgCancelSendToRemote *)
| OGenesis (module : Z)                        (* ExportGenesis -> InitGenesis; 1 = tokenfactory *)
| OGenesisSky (order : list denom)             (* ... of skyway; order: the exported denom -> erc20 entries *)
| OOther.                                      (* a step outside this projection (oracle only) *)

Definition sky_roundtrip (order : list denom) (s : ost) : ost :=
  let pairs := exported_pairs order (o_d2e s) in
  (* since the fix 7a9c7932 the export also lists the reverse entries of contracts that no denom
     points to any more (a denom re-bound to another contract): they are imported first and survive;
     the current ones win for their contract *)
  let stale := filter (fun x => negb (existsb (Z.eqb (fst x)) (map snd pairs))) (o_e2d s) in
  MkO (o_admin s) (rev (map (fun x => (snd x, fst x)) pairs) ++ stale) (rev pairs) (o_pend s) (o_esc s) (o_next s).

Definition remove_tx (tx : Z) (l : list (Z * (Z * Z))) : list (Z * (Z * Z)) :=
  filter (fun x => negb (fst x =? tx)) l.

Definition ostep (sh : shape) (s : ost) (op : oop) : ost * bool :=
  match op with
  | OCreate p sub wf =>
      let d := (p, sub) in
      if wf && negb (p =? 0) && (match admin_of s d with None => true | Some _ => false end)
      then (MkO ((d, p) :: o_admin s) (o_e2d s) (o_d2e s) (o_pend s) (o_esc s) (o_next s), true)
      else (s, false)
  | OChangeAdmin p dc ds na =>
      let d := (dc, ds) in
      match admin_of s d with
      | Some a => if (a =? p) && negb (p =? 0)
                  then (MkO ((d, na) :: o_admin s) (o_e2d s) (o_d2e s) (o_pend s) (o_esc s) (o_next s), true)
                  else (s, false)
      | None => (s, false)
      end
  | OMint p dc ds =>
      match admin_of s (dc, ds) with
      | Some a => (s, (a =? p) && negb (p =? 0))
      | None => (s, false)
      end
  | OBind p dc ds e ewf =>
      let d := (dc, ds) in
      match admin_of s d with
      | Some a => if ewf && (a =? p) && negb (p =? 0) && bind_guard_ok sh s d e
                  then (MkO (o_admin s) ((e, d) :: o_e2d s) ((d, e) :: o_d2e s) (o_pend s) (o_esc s) (o_next s), true)
                  else (s, false)
      | None => (s, false)
      end
  | OGovBind dc ds e =>
      let d := (dc, ds) in
      (MkO (o_admin s) ((e, d) :: o_e2d s) ((d, e) :: o_d2e s) (o_pend s) (o_esc s) (o_next s), true)
  | OSend p dc ds funded =>
      let d := (dc, ds) in
      match d2e s d with
      | Some e => if funded
                  then (MkO (o_admin s) (o_e2d s) (o_d2e s) ((o_next s + 1, (p, e)) :: o_pend s)
                            ((d, esc s d + 1) :: o_esc s) (o_next s + 1), true)
                  else (s, false)
      | None => (s, false)
      end
  | OCancel p tx =>
      match pend s tx with
      | Some (q, e) =>
          if q =? p then
            match e2d s e with
            | Some d => if 1 <=? esc s d
                        then (MkO (o_admin s) (o_e2d s) (o_d2e s) (remove_tx tx (o_pend s))
                                  ((d, esc s d - 1) :: o_esc s) (o_next s), true)
                        else (s, false)
            | None => (s, false)
            end
          else (s, false)
      | None => (s, false)
      end
  | OGenesis m => if m =? 1 then (tf_roundtrip sh s, true) else (s, true)
  | OGenesisSky order => (sky_roundtrip order s, true)
  | OOther => (s, true)
  end.

Definition orun (sh : shape) (ops : list oop) (s : ost) : ost :=
  fold_left (fun s op => fst (ostep sh s op)) ops s.

(** Who signed the step ([auth] = the governance authority); genesis is signed by nobody. *)
Definition signer (auth : Z) (op : oop) : option Z :=
  match op with
  | OCreate p _ _ | OChangeAdmin p _ _ _ | OMint p _ _ | OBind p _ _ _ _ | OSend p _ _ _ | OCancel p _ => Some p
  | OGovBind _ _ _ => Some auth
  | OGenesis _ | OGenesisSky _ | OOther => None
  end.

(** The shape of the code the theorems need. *)
Definition guard_on_written_index (sh : shape) : bool := mem_str "Erc20" (sh_bind_guard sh).

Definition import_admin_last (sh : shape) : bool :=
  match rev (sh_tf_import sh) with
  | last :: _ => String.eqb last "setAuthorityMetadata"
  | [] => false
  end.

(** The skyway environment starts with governance's binding of the native denom (0, 1) to
    contract 1. *)
Definition init_env1 : ost := MkO [] [(1, (0, 1))] [((0, 1), 1)] [] [] 0.
Definition init_env2 : ost := MkO [] [] [] [] [] 0.
