(** C03 — the theorems instantiated on the table generated from the Go sources (Gen/C03.v). *)
From Coq Require Import List ZArith String Bool.
From Paloma Require Import Auth.Discipline Auth.Ante Auth.AnteProofs Auth.Objects Auth.ObjectsProofs Auth.Index.
From Paloma Require Gen.C03.
Import ListNotations.
Open Scope Z_scope.
Open Scope string_scope.

(** Message types whose handler is known NOT to obey the property on the current tree
    (findings/C03.jsonl): excluded from the theorems by name, nothing else is. *)
Definition known_open : list string := ["evm.MsgRemoveSmartContractDeploymentRequest"].

Definition closed_or_known (s : msgspec) : bool := spec_ok s || spec_named known_open s.

(** The per-run obligation over the generated table. *)
Lemma auth_table_closed_lemma : forallb closed_or_known Gen.C03.specs = true.
Proof. vm_compute. reflexivity. Qed.

Lemma table_spec_ok : forall spec, In spec Gen.C03.specs -> spec_named known_open spec = false -> spec_ok spec = true.
Proof.
  intros spec Hin Hk. pose proof auth_table_closed_lemma as H.
  eapply forallb_forall in H; eauto. unfold closed_or_known in H. rewrite Hk in H.
  apply orb_true_iff in H as [H|H]; [exact H | discriminate].
Qed.

Lemma table_no_cross_principal_effect : forall spec, In spec Gen.C03.specs -> spec_named known_open spec = false ->
  forall auth g m s s', deliver auth g spec m s = Done s' ->
  forall p, get (owned s') p <> get (owned s) p -> authorised auth g spec m p.
Proof.
  intros spec Hin Hk auth g m s s' Hd p Hch.
  eapply no_cross_principal_effect_lemma; eauto. apply table_spec_ok; assumption.
Qed.

Lemma table_history_no_cross_principal : forall auth ops s p,
  (forall g spec m, In (g, spec, m) ops ->
     In spec Gen.C03.specs /\ spec_named known_open spec = false /\ ~ authorised auth g spec m p) ->
  get (owned (run auth ops s)) p = get (owned s) p.
Proof.
  intros auth ops s p H. apply history_no_cross_principal_lemma.
  intros g spec m Hin. destruct (H g spec m Hin) as [H1 [H2 H3]].
  split; [apply table_spec_ok; assumption | exact H3].
Qed.

(** No row of the generated table (outside the named exceptions) is Unguarded. *)
Lemma table_no_unguarded : forallb (fun s => negb (has_unguarded s) || spec_named known_open s) Gen.C03.specs = true.
Proof. vm_compute. reflexivity. Qed.

(** Every message type carries metadata, so the decorator applies to all of them. *)
Lemma table_all_have_metadata : forallb ms_has_meta Gen.C03.specs = true.
Proof. vm_compute. reflexivity. Qed.

(** The known finding, on a literal copy of its row: any account deletes governance-held state. *)
Definition evm_remove_deployment_spec : msgspec :=
  MkSpec "evm.MsgRemoveSmartContractDeploymentRequest" SignMetadata true [(creator_field, Unused); (gov_field, Unguarded)].

Lemma evm_remove_deployment_refuted_lemma :
  exists auth g m s s', deliver auth g evm_remove_deployment_spec m s = Done s' /\
    get (owned s') auth <> get (owned s) auth /\ ~ authorised auth g evm_remove_deployment_spec m auth.
Proof.
  exists 0, [], (MkMsg [1] 1 [] []), empty_state. eexists. split; [vm_compute; reflexivity|]. split.
  - vm_compute. discriminate.
  - intros [[H _] | [[_ [H _]] | H]]; cbn in H; try discriminate; exact H.
Qed.

(** The decorator's loop carries nothing from one message of a transaction to the next (extracted
    from the Go AST on every run); the model of the loop is instantiated with what the code does. *)
Lemma decorator_loop_stateless_lemma : Gen.C03.ante_lookup_carried = false.
Proof. reflexivity. Qed.

Lemma table_ante_tx_sound : forall g tx, ante_tx Gen.C03.ante_lookup_carried g tx = true ->
  forall spec m, In (spec, m) tx -> ms_has_meta spec = true ->
  exists sg, In sg (m_meta_signers m) /\ (sg = m_creator m \/ granted g (m_creator m) sg = true).
Proof. rewrite decorator_loop_stateless_lemma. exact ante_tx_sound_lemma. Qed.

Lemma table_tx_no_cross_principal : forall auth g tx s s',
  (forall spec m, In (spec, m) tx -> In spec Gen.C03.specs /\ spec_named known_open spec = false) ->
  deliver_tx Gen.C03.ante_lookup_carried auth g tx s = Done s' ->
  forall p, get (owned s') p <> get (owned s) p ->
  exists spec m, In (spec, m) tx /\ authorised auth g spec m p.
Proof.
  rewrite decorator_loop_stateless_lemma. intros auth g tx s s' H Hd p Hch.
  eapply tx_no_cross_principal_lemma; eauto.
  intros spec m Hin. destruct (H spec m Hin). apply table_spec_ok; assumption.
Qed.

(** * Second round: index writes and object histories on the shapes extracted from the code *)

(** Per-run obligation: every store write whose key the sender chooses is guarded the way its
    reviewed kind needs, and the guard the extractor found is keyed by the written index. *)
Lemma index_writes_guarded_lemma : forallb (idx_ok Gen.C03.specs known_open) Gen.C03.index_rows = true.
Proof. vm_compute. reflexivity. Qed.

Lemma bind_guard_on_written_index_lemma : guard_on_written_index Gen.C03.code_shape = true.
Proof. vm_compute. reflexivity. Qed.

Lemma tf_import_admin_last_lemma : import_admin_last Gen.C03.code_shape = true.
Proof. vm_compute. reflexivity. Qed.

Lemma table_genesis_preserves_admin : forall s d, admin_of (tf_roundtrip Gen.C03.code_shape s) d = admin_of s d.
Proof. apply genesis_preserves_admin_lemma. exact tf_import_admin_last_lemma. Qed.

Lemma table_objects_history_admin : forall auth ops s q,
  (forall op, In op ops -> signer auth op <> Some q) ->
  forall d, admin_of s d = Some q -> admin_of (orun Gen.C03.code_shape ops s) d = Some q.
Proof.
  intros auth ops s q H d Had.
  exact (objects_history_admin_lemma _ auth ops s q tf_import_admin_last_lemma H d Had).
Qed.

Lemma table_objects_history_live_binding : forall auth ops s q d e,
  bindings_consistent s ->
  (forall op, In op ops -> signer auth op <> Some auth /\ signer auth op <> Some q) ->
  admin_of s d = Some q -> d2e s d = Some e ->
  admin_of (orun Gen.C03.code_shape ops s) d = Some q /\ d2e (orun Gen.C03.code_shape ops s) d = Some e /\
  e2d (orun Gen.C03.code_shape ops s) e = Some d.
Proof.
  intros auth ops s q d e HJ H Had Hb.
  exact (objects_history_live_binding_lemma _ auth ops s q d e bind_guard_on_written_index_lemma tf_import_admin_last_lemma HJ H Had Hb).
Qed.

Lemma table_objects_history_native_binding : forall auth ops s d e,
  bindings_consistent s ->
  (forall op, In op ops -> signer auth op <> Some auth) ->
  fst d = 0 -> admin_of s d = None -> d2e s d = Some e ->
  d2e (orun Gen.C03.code_shape ops s) d = Some e /\ e2d (orun Gen.C03.code_shape ops s) e = Some d.
Proof.
  intros auth ops s d e HJ H Hn Had Hb.
  exact (objects_history_native_binding_lemma _ auth ops s d e bind_guard_on_written_index_lemma tf_import_admin_last_lemma HJ H Hn Had Hb).
Qed.

Lemma table_objects_history_pending : forall auth ops s p,
  wf_ids s ->
  (forall op, In op ops -> signer auth op <> Some p) ->
  forall tx e, pend s tx = Some (p, e) -> pend (orun Gen.C03.code_shape ops s) tx = Some (p, e).
Proof. intros. eapply objects_history_pending_lemma; eauto. Qed.

(** * Third round: the CosmWasm custom-message bindings (creator := the dispatching contract) *)

Lemma wasm_table_closed_lemma : forallb spec_ok Gen.C03.wasm_specs = true.
Proof. vm_compute. reflexivity. Qed.

Lemma wasm_table_signed_by_contract : forallb (fun s => is_sign_metadata s && ms_has_meta s) Gen.C03.wasm_specs = true.
Proof. vm_compute. reflexivity. Qed.

Lemma wasm_no_cross_principal_effect_lemma : forall spec, In spec Gen.C03.wasm_specs ->
  forall auth g m s s', deliver auth g spec m s = Done s' ->
  forall p, get (owned s') p <> get (owned s) p -> authorised auth g spec m p.
Proof.
  intros spec Hin auth g m s s' Hd p Hch.
  eapply no_cross_principal_effect_lemma; eauto.
  pose proof wasm_table_closed_lemma as H. eapply forallb_forall in H; eauto.
Qed.

(** A dispatch carries no external signature and is authenticated as its contract only: whatever
    held in a name changes, the name is the contract's. *)
Lemma wasm_dispatch_only_contract_lemma : forall spec, In spec Gen.C03.wasm_specs ->
  forall auth g m s s', m_ext m = [] -> deliver auth g spec m s = Done s' ->
  forall p, get (owned s') p <> get (owned s) p -> p = m_creator m.
Proof.
  intros spec Hin auth g m s s' Hext Hd p Hch.
  destruct (wasm_no_cross_principal_effect_lemma spec Hin auth g m s s' Hd p Hch) as [[H _] | [[_ [H _]] | H]].
  - exact H.
  - pose proof wasm_table_signed_by_contract as Hs. eapply forallb_forall in Hs; eauto.
    apply andb_true_iff in Hs as [Hs _]. unfold is_sign_metadata in Hs. rewrite H in Hs. discriminate.
  - rewrite Hext in H. destruct H.
Qed.

(** * Fourth round: nesting of any depth *)
Lemma table_ante_nested_sound : forall g tx,
  ante_nested Gen.C03.ante_lookup_carried Gen.C03.max_nested_depth g tx = true ->
  forall top spec m, In top tx -> occurs (spec, m) top -> ms_has_meta spec = true ->
  exists sg, In sg (m_meta_signers m) /\ (sg = m_creator m \/ granted g (m_creator m) sg = true).
Proof. rewrite decorator_loop_stateless_lemma. apply ante_nested_sound_lemma. Qed.

(** * Seventh round *)
Lemma decorator_has_no_memory_lemma : Gen.C03.decorator_extra_fields = [].
Proof. reflexivity. Qed.

(** A denom whose admin role was renounced (admin 0) never gets an admin again: principals are
    positive ids, nobody signs as 0. *)
Lemma renounced_stays_renounced_lemma : forall auth ops s d,
  (forall op, In op ops -> signer auth op <> Some 0) ->
  admin_of s d = Some 0 -> admin_of (orun Gen.C03.code_shape ops s) d = Some 0.
Proof. intros auth ops s d H Had. exact (table_objects_history_admin auth ops s 0 H d Had). Qed.
