(** C03, second round — proofs about Auth/Objects.v. *)
From Coq Require Import List ZArith String Bool Lia.
From Paloma Require Import Auth.Objects.
Import ListNotations.
Open Scope Z_scope.

Lemma denom_eqb_eq : forall a b, denom_eqb a b = true <-> a = b.
Proof.
  intros [a1 a2] [b1 b2]. unfold denom_eqb. cbn [fst snd]. rewrite andb_true_iff, !Z.eqb_eq.
  split; [intros [-> ->]; reflexivity | intros H; inversion H; auto].
Qed.

Lemma denom_eqb_refl : forall a, denom_eqb a a = true.
Proof. intros a. apply denom_eqb_eq. reflexivity. Qed.

Lemma denom_eqb_neq : forall a b, denom_eqb a b = false <-> a <> b.
Proof.
  intros a b. split.
  - intros H E. apply denom_eqb_eq in E. congruence.
  - intros H. destruct (denom_eqb a b) eqn:E; [apply denom_eqb_eq in E; contradiction | reflexivity].
Qed.

Lemma dfind_cons : forall A (d k : denom) (v : A) l,
  dfind d ((k, v) :: l) = if denom_eqb k d then Some v else dfind d l.
Proof. reflexivity. Qed.

Lemma zfind_cons : forall A (x k : Z) (v : A) l,
  zfind x ((k, v) :: l) = if k =? x then Some v else zfind x l.
Proof. reflexivity. Qed.

(** * The genesis round trip of tokenfactory *)

Lemma import_admin_last_exported : forall order c a,
  (match rev order with last :: _ => String.eqb last "setAuthorityMetadata" | [] => false end) = true ->
  import_admin order c a = a.
Proof.
  intros order c a H. destruct (rev order) as [|last r] eqn:E; [discriminate|].
  assert (order = rev r ++ [last]) as ->.
  { rewrite <- (rev_involutive order), E. reflexivity. }
  unfold import_admin. rewrite fold_left_app. cbn [fold_left].
  apply String.eqb_eq in H. subst last. cbn. reflexivity.
Qed.

Lemma dfind_dedup : forall d l seen,
  existsb (denom_eqb d) seen = false ->
  dfind d (dedup_admin l seen) = dfind d l.
Proof.
  intros d l. induction l as [|[k a] r IH]; intros seen Hs; [reflexivity|].
  cbn [dedup_admin]. destruct (existsb (denom_eqb k) seen) eqn:Ek.
  - rewrite dfind_cons. destruct (denom_eqb k d) eqn:Ekd.
    + apply denom_eqb_eq in Ekd. subst k. congruence.
    + apply IH. exact Hs.
  - rewrite !dfind_cons. destruct (denom_eqb k d) eqn:Ekd; [reflexivity|].
    apply IH. cbn [existsb]. rewrite Hs, orb_false_r.
    destruct (denom_eqb d k) eqn:E2; [|reflexivity].
    apply denom_eqb_eq in E2. subst. rewrite denom_eqb_refl in Ekd. discriminate.
Qed.

Lemma dfind_map_import : forall order d l,
  dfind d (map (fun x : denom * Z => (fst x, import_admin order (fst (fst x)) (snd x))) l) =
  match dfind d l with Some a => Some (import_admin order (fst d) a) | None => None end.
Proof.
  intros order d l. induction l as [|[k a] r IH]; [reflexivity|].
  cbn [map fst snd]. rewrite !dfind_cons. destruct (denom_eqb k d) eqn:E.
  - apply denom_eqb_eq in E. subst. reflexivity.
  - exact IH.
Qed.

(** What ExportGenesis wrote is what InitGenesis restores: the admin of every denom. *)
Lemma genesis_preserves_admin_lemma : forall sh, import_admin_last sh = true ->
  forall s d, admin_of (tf_roundtrip sh s) d = admin_of s d.
Proof.
  intros sh H s d. unfold admin_of, tf_roundtrip. cbn [o_admin].
  rewrite dfind_map_import, dfind_dedup by reflexivity.
  destruct (dfind d (o_admin s)) as [a|]; [|reflexivity].
  rewrite import_admin_last_exported; [reflexivity | exact H].
Qed.

Lemma tf_roundtrip_other : forall sh s,
  o_e2d (tf_roundtrip sh s) = o_e2d s /\ o_d2e (tf_roundtrip sh s) = o_d2e s /\
  o_pend (tf_roundtrip sh s) = o_pend s /\ o_next (tf_roundtrip sh s) = o_next s /\ o_esc (tf_roundtrip sh s) = o_esc s.
Proof. intros. repeat split. Qed.

(** * Single steps *)

Ltac inv_step H := inversion H; subst; clear H.

(** Whatever a principal administers stays its own unless it signs the step itself: not another
    principal's message, not governance's, not a genesis round trip. *)
Lemma admin_preserved_step : forall sh auth s op s' b d q,
  import_admin_last sh = true ->
  ostep sh s op = (s', b) -> admin_of s d = Some q -> signer auth op <> Some q ->
  admin_of s' d = Some q.
Proof.
  intros sh auth s op s' b d q Hsh Hst Had Hsig. destruct op; cbn [ostep] in Hst.
  - (* create *)
    destruct (wf && match admin_of s (p, sub) with None => true | Some _ => false end) eqn:E; inv_step Hst; [|exact Had].
    unfold admin_of. cbn [o_admin]. rewrite dfind_cons. destruct (denom_eqb (p, sub) d) eqn:Ed; [|exact Had].
    apply denom_eqb_eq in Ed. subst d. apply andb_true_iff in E as [_ E]. rewrite Had in E. discriminate.
  - (* change admin *)
    destruct (admin_of s (dc, ds)) as [a|] eqn:Ea; [|inv_step Hst; exact Had].
    destruct ((a =? p) && negb (p =? 0)) eqn:E; inv_step Hst; [|exact Had].
    unfold admin_of. cbn [o_admin]. rewrite dfind_cons. destruct (denom_eqb (dc, ds) d) eqn:Ed; [|exact Had].
    apply denom_eqb_eq in Ed. subst d. rewrite Had in Ea. inversion Ea; subst a.
    apply andb_true_iff in E as [E _]. apply Z.eqb_eq in E. subst p. cbn in Hsig. congruence.
  - destruct (admin_of s (dc, ds)); inv_step Hst; exact Had.
  - destruct (admin_of s (dc, ds)) as [a|]; [|inv_step Hst; exact Had].
    destruct (ewf && (a =? p) && negb (p =? 0) && bind_guard_ok sh s (dc, ds) e); inv_step Hst; exact Had.
  - inv_step Hst. exact Had.
  - destruct (d2e s (dc, ds)); [destruct funded|]; inv_step Hst; exact Had.
  - destruct (pend s tx) as [[q0 e]|]; [|inv_step Hst; exact Had].
    destruct (q0 =? p); [|inv_step Hst; exact Had].
    destruct (e2d s e) as [d0|]; [|inv_step Hst; exact Had].
    destruct (1 <=? esc s d0); inv_step Hst; exact Had.
  - destruct (module =? 1); inv_step Hst; [|exact Had].
    rewrite genesis_preserves_admin_lemma by exact Hsh. exact Had.
  - inv_step Hst. exact Had.
Qed.

(** An ERC20 binding, once made, is altered by governance only — provided the duplicate-binding
    guard reads the index that is written (keyed by the ERC20 contract). *)
Lemma binding_preserved_step : forall sh auth s op s' b e d,
  guard_on_written_index sh = true ->
  ostep sh s op = (s', b) -> e2d s e = Some d -> signer auth op <> Some auth ->
  e2d s' e = Some d.
Proof.
  intros sh auth s op s' b e d Hsh Hst Hb Hsig. destruct op; cbn [ostep] in Hst.
  - destruct (wf && match admin_of s (p, sub) with None => true | Some _ => false end); inv_step Hst; exact Hb.
  - destruct (admin_of s (dc, ds)) as [a|]; [|inv_step Hst; exact Hb].
    destruct ((a =? p) && negb (p =? 0)); inv_step Hst; exact Hb.
  - destruct (admin_of s (dc, ds)); inv_step Hst; exact Hb.
  - destruct (admin_of s (dc, ds)) as [a|]; [|inv_step Hst; exact Hb].
    destruct (ewf && (a =? p) && negb (p =? 0) && bind_guard_ok sh s (dc, ds) e0) eqn:E; inv_step Hst; [|exact Hb].
    apply andb_true_iff in E as [_ E]. unfold bind_guard_ok in E. unfold guard_on_written_index in Hsh. rewrite Hsh in E.
    apply andb_true_iff in E as [E _].
    unfold e2d. cbn [o_e2d]. rewrite zfind_cons. destruct (e0 =? e) eqn:Ee; [|exact Hb].
    apply Z.eqb_eq in Ee. subst e0. rewrite Hb in E. discriminate.
  - cbn in Hsig. congruence.
  - destruct (d2e s (dc, ds)); [destruct funded|]; inv_step Hst; exact Hb.
  - destruct (pend s tx) as [[q0 e1]|]; [|inv_step Hst; exact Hb].
    destruct (q0 =? p); [|inv_step Hst; exact Hb].
    destruct (e2d s e1) as [d0|]; [|inv_step Hst; exact Hb].
    destruct (1 <=? esc s d0); inv_step Hst; exact Hb.
  - destruct (module =? 1); inv_step Hst; exact Hb.
  - inv_step Hst. exact Hb.
Qed.

(** Pending-transfer ids are handed out by a counter: every id in use is at most the counter. *)
Definition wf_ids (s : ost) : Prop := forall tx, pend s tx <> None -> tx <= o_next s.

Lemma zfind_remove_other : forall tx x l, x <> tx -> zfind x (remove_tx tx l) = zfind x l.
Proof.
  intros tx x l Hne. induction l as [|[k v] r IH]; [reflexivity|].
  cbn [remove_tx filter fst]. destruct (k =? tx) eqn:E; cbn [negb].
  - rewrite zfind_cons. apply Z.eqb_eq in E. subst k.
    destruct (tx =? x) eqn:E2; [apply Z.eqb_eq in E2; congruence | exact IH].
  - rewrite !zfind_cons. destruct (k =? x); [reflexivity | exact IH].
Qed.

Lemma zfind_remove_some : forall tx x l v, zfind x (remove_tx tx l) = Some v -> zfind x l <> None.
Proof.
  intros tx x l v. induction l as [|[k w] r IH]; [discriminate|].
  cbn [remove_tx filter fst]. destruct (k =? tx) eqn:E; cbn [negb].
  - intros H. rewrite zfind_cons. destruct (k =? x); [discriminate | exact (IH H)].
  - rewrite !zfind_cons. destruct (k =? x); [discriminate | exact IH].
Qed.

Lemma wf_ids_step : forall sh s op s' b, ostep sh s op = (s', b) -> wf_ids s -> wf_ids s'.
Proof.
  intros sh s op s' b Hst Hwf. destruct op; cbn [ostep] in Hst.
  - destruct (wf && match admin_of s (p, sub) with None => true | Some _ => false end); inv_step Hst; exact Hwf.
  - destruct (admin_of s (dc, ds)) as [a|]; [|inv_step Hst; exact Hwf].
    destruct ((a =? p) && negb (p =? 0)); inv_step Hst; exact Hwf.
  - destruct (admin_of s (dc, ds)); inv_step Hst; exact Hwf.
  - destruct (admin_of s (dc, ds)) as [a|]; [|inv_step Hst; exact Hwf].
    destruct (ewf && (a =? p) && negb (p =? 0) && bind_guard_ok sh s (dc, ds) e); inv_step Hst; exact Hwf.
  - inv_step Hst. exact Hwf.
  - destruct (d2e s (dc, ds)) as [e|]; [destruct funded|]; inv_step Hst; try exact Hwf.
    intros tx H. unfold pend in H. cbn [o_pend o_next] in *. rewrite zfind_cons in H.
    destruct (o_next s + 1 =? tx) eqn:E; [apply Z.eqb_eq in E; lia|].
    specialize (Hwf tx H). lia.
  - destruct (pend s tx) as [[q0 e]|]; [|inv_step Hst; exact Hwf].
    destruct (q0 =? p); [|inv_step Hst; exact Hwf].
    destruct (e2d s e) as [d0|]; [|inv_step Hst; exact Hwf].
    destruct (1 <=? esc s d0); inv_step Hst; [|exact Hwf].
    intros x H. unfold pend in H. cbn [o_pend o_next] in *.
    apply Hwf. destruct (zfind x (remove_tx tx (o_pend s))) eqn:E; [|congruence].
    eapply zfind_remove_some; eauto.
  - destruct (module =? 1); inv_step Hst; exact Hwf.
  - inv_step Hst. exact Hwf.
Qed.

(** A pending transfer stays in its sender's name unless the sender signs the step. *)
Lemma pending_preserved_step : forall sh auth s op s' b tx p e,
  wf_ids s ->
  ostep sh s op = (s', b) -> pend s tx = Some (p, e) -> signer auth op <> Some p ->
  pend s' tx = Some (p, e).
Proof.
  intros sh auth s op s' b tx p e Hwf Hst Hp Hsig. destruct op; cbn [ostep] in Hst.
  - destruct (wf && match admin_of s (p0, sub) with None => true | Some _ => false end); inv_step Hst; exact Hp.
  - destruct (admin_of s (dc, ds)) as [a|]; [|inv_step Hst; exact Hp].
    destruct ((a =? p0) && negb (p0 =? 0)); inv_step Hst; exact Hp.
  - destruct (admin_of s (dc, ds)); inv_step Hst; exact Hp.
  - destruct (admin_of s (dc, ds)) as [a|]; [|inv_step Hst; exact Hp].
    destruct (ewf && (a =? p0) && negb (p0 =? 0) && bind_guard_ok sh s (dc, ds) e0); inv_step Hst; exact Hp.
  - inv_step Hst. exact Hp.
  - destruct (d2e s (dc, ds)) as [e1|]; [destruct funded|]; inv_step Hst; try exact Hp.
    unfold pend. cbn [o_pend]. rewrite zfind_cons. destruct (o_next s + 1 =? tx) eqn:E; [|exact Hp].
    apply Z.eqb_eq in E. assert (tx <= o_next s) by (apply Hwf; congruence). lia.
  - destruct (pend s tx0) as [[q0 e1]|] eqn:Ep; [|inv_step Hst; exact Hp].
    destruct (q0 =? p0) eqn:Eq; [|inv_step Hst; exact Hp].
    destruct (e2d s e1) as [d0|]; [|inv_step Hst; exact Hp].
    destruct (1 <=? esc s d0); inv_step Hst; [|exact Hp].
    unfold pend. cbn [o_pend]. destruct (Z.eq_dec tx tx0) as [->|Hne].
    + rewrite Hp in Ep. inversion Ep; subst. apply Z.eqb_eq in Eq. subst. cbn in Hsig. congruence.
    + rewrite zfind_remove_other by exact Hne. exact Hp.
  - destruct (module =? 1); inv_step Hst; exact Hp.
  - inv_step Hst. exact Hp.
Qed.

(** * Histories *)

Lemma orun_cons : forall sh op ops s, orun sh (op :: ops) s = orun sh ops (fst (ostep sh s op)).
Proof. reflexivity. Qed.

Lemma wf_ids_run : forall sh ops s, wf_ids s -> wf_ids (orun sh ops s).
Proof.
  intros sh ops. induction ops as [|op r IH]; intros s H; [exact H|].
  rewrite orun_cons. apply IH. destruct (ostep sh s op) as [s' b] eqn:E. eapply wf_ids_step; eauto.
Qed.

Lemma objects_history_admin_lemma : forall sh auth ops s q,
  import_admin_last sh = true ->
  (forall op, In op ops -> signer auth op <> Some q) ->
  forall d, admin_of s d = Some q -> admin_of (orun sh ops s) d = Some q.
Proof.
  intros sh auth ops. induction ops as [|op r IH]; intros s q Hsh Hs d Had; [exact Had|].
  rewrite orun_cons. destruct (ostep sh s op) as [s' b] eqn:E. cbn [fst].
  apply IH; [exact Hsh | intros o Ho; apply Hs; right; exact Ho |].
  eapply admin_preserved_step; eauto. apply Hs. left. reflexivity.
Qed.

Lemma objects_history_binding_lemma : forall sh auth ops s,
  guard_on_written_index sh = true ->
  (forall op, In op ops -> signer auth op <> Some auth) ->
  forall e d, e2d s e = Some d -> e2d (orun sh ops s) e = Some d.
Proof.
  intros sh auth ops. induction ops as [|op r IH]; intros s Hsh Hs e d Hb; [exact Hb|].
  rewrite orun_cons. destruct (ostep sh s op) as [s' b] eqn:E. cbn [fst].
  apply IH; [exact Hsh | intros o Ho; apply Hs; right; exact Ho |].
  eapply binding_preserved_step; eauto. apply Hs. left. reflexivity.
Qed.

Lemma objects_history_pending_lemma : forall sh auth ops s p,
  wf_ids s ->
  (forall op, In op ops -> signer auth op <> Some p) ->
  forall tx e, pend s tx = Some (p, e) -> pend (orun sh ops s) tx = Some (p, e).
Proof.
  intros sh auth ops. induction ops as [|op r IH]; intros s p Hwf Hs tx e Hp; [exact Hp|].
  rewrite orun_cons. destruct (ostep sh s op) as [s' b] eqn:E. cbn [fst].
  apply IH; [eapply wf_ids_step; eauto | intros o Ho; apply Hs; right; exact Ho |].
  eapply pending_preserved_step; eauto. apply Hs. left. reflexivity.
Qed.

Lemma wf_ids_init1 : wf_ids init_env1.
Proof. intros tx H. cbn in H. congruence. Qed.

(** * Why the two shapes are pinned *)

(** The duplicate-binding guard reading the OTHER index (denom -> erc20): the admin of a fresh denom
    of its own overwrites governance's binding. *)
Lemma bind_guard_wrong_index_refuted_lemma :
  let sh := MkShape ["ChainReferenceId"; "Denom"]%string ["createDenomAfterValidation"; "setAuthorityMetadata"]%string in
  exists auth s p s',
    p <> auth /\ e2d s 1 = Some (0, 1) /\
    ostep sh s (OBind p p 3 1 true) = (s', true) /\ signer auth (OBind p p 3 1 true) <> Some auth /\
    e2d s' 1 = Some (p, 3).
Proof.
  exists 11, (MkO [((6, 3), 6)] [(1, (0, 1))] [((0, 1), 1)] [] [] 0), 6. eexists.
  split; [lia|]. split; [reflexivity|]. split; [vm_compute; reflexivity|]. split; [cbn; congruence|]. reflexivity.
Qed.

(** InitGenesis writing the exported admin BEFORE createDenomAfterValidation: the round trip hands
    a denom whose admin was changed back to its creator — with no message at all. *)
Lemma genesis_admin_first_refuted_lemma :
  let sh := MkShape ["ChainReferenceId"; "Erc20"]%string ["setAuthorityMetadata"; "createDenomAfterValidation"]%string in
  exists auth ops s d b c,
    b <> c /\ (forall op, In op ops -> signer auth op <> Some c /\ signer auth op <> Some b) /\
    admin_of s d = Some c /\ admin_of (orun sh ops s) d = Some b.
Proof.
  exists 11, [OGenesis 1], (MkO [((2, 1), 7); ((2, 1), 2)] [] [] [] [] 0), (2, 1), 2, 7.
  split; [lia|]. split.
  - intros op [<-|[]]. cbn. split; congruence.
  - split; reflexivity.
Qed.

(** Non-vacuity: a history in which the steps are accepted and the preserved facts are there. *)
Example ex_objects_history :
  let sh := MkShape ["ChainReferenceId"; "Erc20"]%string ["createDenomAfterValidation"; "setAuthorityMetadata"]%string in
  let ops := [OCreate 2 1 true; OChangeAdmin 2 2 1 7; OBind 7 2 1 2 true; OSend 6 2 1 true;
              OCreate 1 3 true; OBind 1 1 3 2 true; OBind 1 1 3 1 true; OGenesis 1; OGenesis 2;
              OChangeAdmin 2 2 1 2; OCancel 1 1] in
  let s := orun sh ops init_env1 in
  admin_of s (2, 1) = Some 7 /\ e2d s 2 = Some (2, 1) /\ e2d s 1 = Some (0, 1) /\ pend s 1 = Some (6, 2).
Proof. vm_compute. repeat split. Qed.
