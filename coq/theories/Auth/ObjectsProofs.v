(** C03, second round — proofs about Auth/Objects.v. *)
From Coq Require Import List ZArith String Bool Lia.
From Paloma Require Import Auth.Objects.
Import ListNotations.
Open Scope Z_scope.

Lemma denom_eqb_eq : forall a b, denom_eqb a b = true <-> a = b.
Proof.
  intros [a1 a2] [b1 b2]. unfold denom_eqb. cbn [fst snd]. rewrite andb_true_iff, !Z.eqb_eq.
  split; [intros [-> ->]; reflexivity | intros H; inversion H; auto].
Qed.

Lemma denom_eqb_refl : forall a, denom_eqb a a = true.
Proof. intros a. apply denom_eqb_eq. reflexivity. Qed.

Lemma denom_eqb_neq : forall a b, denom_eqb a b = false <-> a <> b.
Proof.
  intros a b. split.
  - intros H E. apply denom_eqb_eq in E. congruence.
  - intros H. destruct (denom_eqb a b) eqn:E; [apply denom_eqb_eq in E; contradiction | reflexivity].
Qed.

Lemma dfind_cons : forall A (d k : denom) (v : A) l,
  dfind d ((k, v) :: l) = if denom_eqb k d then Some v else dfind d l.
Proof. reflexivity. Qed.

Lemma zfind_cons : forall A (x k : Z) (v : A) l,
  zfind x ((k, v) :: l) = if k =? x then Some v else zfind x l.
Proof. reflexivity. Qed.

(** * The genesis round trip of tokenfactory *)

Lemma import_admin_last_exported : forall order c a,
  (match rev order with last :: _ => String.eqb last "setAuthorityMetadata" | [] => false end) = true ->
  import_admin order c a = a.
Proof.
  intros order c a H. destruct (rev order) as [|last r] eqn:E; [discriminate|].
  assert (order = rev r ++ [last]) as ->.
  { rewrite <- (rev_involutive order), E. reflexivity. }
  unfold import_admin. rewrite fold_left_app. cbn [fold_left].
  apply String.eqb_eq in H. subst last. cbn. reflexivity.
Qed.

Lemma dfind_dedup : forall d l seen,
  existsb (denom_eqb d) seen = false ->
  dfind d (dedup_admin l seen) = dfind d l.
Proof.
  intros d l. induction l as [|[k a] r IH]; intros seen Hs; [reflexivity|].
  cbn [dedup_admin]. destruct (existsb (denom_eqb k) seen) eqn:Ek.
  - rewrite dfind_cons. destruct (denom_eqb k d) eqn:Ekd.
    + apply denom_eqb_eq in Ekd. subst k. congruence.
    + apply IH. exact Hs.
  - rewrite !dfind_cons. destruct (denom_eqb k d) eqn:Ekd; [reflexivity|].
    apply IH. cbn [existsb]. rewrite Hs, orb_false_r.
    destruct (denom_eqb d k) eqn:E2; [|reflexivity].
    apply denom_eqb_eq in E2. subst. rewrite denom_eqb_refl in Ekd. discriminate.
Qed.

Lemma dfind_map_import : forall order d l,
  dfind d (map (fun x : denom * Z => (fst x, import_admin order (fst (fst x)) (snd x))) l) =
  match dfind d l with Some a => Some (import_admin order (fst d) a) | None => None end.
Proof.
  intros order d l. induction l as [|[k a] r IH]; [reflexivity|].
  cbn [map fst snd]. rewrite !dfind_cons. destruct (denom_eqb k d) eqn:E.
  - apply denom_eqb_eq in E. subst. reflexivity.
  - exact IH.
Qed.

(** What ExportGenesis wrote is what InitGenesis restores: the admin of every denom. *)
Lemma genesis_preserves_admin_lemma : forall sh, import_admin_last sh = true ->
  forall s d, admin_of (tf_roundtrip sh s) d = admin_of s d.
Proof.
  intros sh H s d. unfold admin_of, tf_roundtrip. cbn [o_admin].
  rewrite dfind_map_import, dfind_dedup by reflexivity.
  destruct (dfind d (o_admin s)) as [a|]; [|reflexivity].
  rewrite import_admin_last_exported; [reflexivity | exact H].
Qed.

Lemma tf_roundtrip_other : forall sh s,
  o_e2d (tf_roundtrip sh s) = o_e2d s /\ o_d2e (tf_roundtrip sh s) = o_d2e s /\
  o_pend (tf_roundtrip sh s) = o_pend s /\ o_next (tf_roundtrip sh s) = o_next s /\ o_esc (tf_roundtrip sh s) = o_esc s.
Proof. intros. repeat split. Qed.

(** * Single steps *)

Ltac inv_step H := inversion H; subst; clear H.

(** Whatever a principal administers stays its own unless it signs the step itself: not another
    principal's message, not governance's, not a genesis round trip. *)
Lemma admin_preserved_step : forall sh auth s op s' b d q,
  import_admin_last sh = true ->
  ostep sh s op = (s', b) -> admin_of s d = Some q -> signer auth op <> Some q ->
  admin_of s' d = Some q.
Proof.
  intros sh auth s op s' b d q Hsh Hst Had Hsig. destruct op; cbn [ostep] in Hst.
  - (* create *)
    destruct (wf && negb (p =? 0) && match admin_of s (p, sub) with None => true | Some _ => false end) eqn:E; inv_step Hst; [|exact Had].
    unfold admin_of. cbn [o_admin]. rewrite dfind_cons. destruct (denom_eqb (p, sub) d) eqn:Ed; [|exact Had].
    apply denom_eqb_eq in Ed. subst d. apply andb_true_iff in E as [_ E]. rewrite Had in E. discriminate.
  - (* change admin *)
    destruct (admin_of s (dc, ds)) as [a|] eqn:Ea; [|inv_step Hst; exact Had].
    destruct ((a =? p) && negb (p =? 0)) eqn:E; inv_step Hst; [|exact Had].
    unfold admin_of. cbn [o_admin]. rewrite dfind_cons. destruct (denom_eqb (dc, ds) d) eqn:Ed; [|exact Had].
    apply denom_eqb_eq in Ed. subst d. rewrite Had in Ea. inversion Ea; subst a.
    apply andb_true_iff in E as [E _]. apply Z.eqb_eq in E. subst p. cbn in Hsig. congruence.
  - destruct (admin_of s (dc, ds)); inv_step Hst; exact Had.
  - destruct (admin_of s (dc, ds)) as [a|]; [|inv_step Hst; exact Had].
    destruct (ewf && (a =? p) && negb (p =? 0) && bind_guard_ok sh s (dc, ds) e); inv_step Hst; exact Had.
  - inv_step Hst. exact Had.
  - destruct (d2e s (dc, ds)); [destruct funded|]; inv_step Hst; exact Had.
  - destruct (pend s tx) as [[q0 e]|]; [|inv_step Hst; exact Had].
    destruct (q0 =? p); [|inv_step Hst; exact Had].
    destruct (e2d s e) as [d0|]; [|inv_step Hst; exact Had].
    destruct (1 <=? esc s d0); inv_step Hst; exact Had.
  - destruct (module =? 1); inv_step Hst; [|exact Had].
    rewrite genesis_preserves_admin_lemma by exact Hsh. exact Had.
  - inv_step Hst. exact Had.
  - inv_step Hst. exact Had.
Qed.

(** ** ERC20 bindings.
    The forward index (denom -> erc20) is injective and contained in the reverse index
    (erc20 -> denom): an invariant of every history without governance steps (governance may bind
    anything to anything). *)
Definition fwd_inj (s : ost) : Prop := forall d1 d2 e, d2e s d1 = Some e -> d2e s d2 = Some e -> d1 = d2.
Definition fwd_in_rev (s : ost) : Prop := forall d e, d2e s d = Some e -> e2d s e = Some d.
Definition bindings_consistent (s : ost) : Prop := fwd_inj s /\ fwd_in_rev s.

Lemma dfind_unique : forall A (d : denom) (e : A) l,
  (forall v, In (d, v) l -> v = e) -> (exists v, In (d, v) l) -> dfind d l = Some e.
Proof.
  intros A d e l. induction l as [|[k v] r IH]; intros Hall [v0 Hin]; [destruct Hin|].
  rewrite dfind_cons. destruct (denom_eqb k d) eqn:E.
  - apply denom_eqb_eq in E. subst k. f_equal. apply Hall. left. reflexivity.
  - apply IH; [intros w Hw; apply Hall; right; exact Hw|].
    destruct Hin as [Hin|Hin]; [inversion Hin; subst; rewrite denom_eqb_refl in E; discriminate | exists v0; exact Hin].
Qed.

Lemma dfind_none : forall A (d : denom) (l : list (denom * A)), (forall v, ~ In (d, v) l) -> dfind d l = None.
Proof.
  intros A d l. induction l as [|[k v] r IH]; intros H; [reflexivity|].
  rewrite dfind_cons. destruct (denom_eqb k d) eqn:E.
  - apply denom_eqb_eq in E. subst k. exfalso. apply (H v). left. reflexivity.
  - apply IH. intros w Hw. apply (H w). right. exact Hw.
Qed.

Lemma dfind_in : forall A (d : denom) (e : A) l, dfind d l = Some e -> In (d, e) l.
Proof.
  intros A d e l. induction l as [|[k v] r IH]; [discriminate|].
  rewrite dfind_cons. destruct (denom_eqb k d) eqn:E.
  - intros H. inversion H; subst. apply denom_eqb_eq in E. subst. left. reflexivity.
  - intros H. right. apply IH. exact H.
Qed.

Lemma zfind_unique : forall A (x : Z) (e : A) l,
  (forall v, In (x, v) l -> v = e) -> (exists v, In (x, v) l) -> zfind x l = Some e.
Proof.
  intros A x e l. induction l as [|[k v] r IH]; intros Hall [v0 Hin]; [destruct Hin|].
  rewrite zfind_cons. destruct (k =? x) eqn:E.
  - apply Z.eqb_eq in E. subst k. f_equal. apply Hall. left. reflexivity.
  - apply IH; [intros w Hw; apply Hall; right; exact Hw|].
    destruct Hin as [Hin|Hin]; [inversion Hin; subst; rewrite Z.eqb_refl in E; discriminate | exists v0; exact Hin].
Qed.

Lemma in_dedup_keys : forall A (d : denom) (e : A) l seen,
  dfind d l = Some e -> existsb (denom_eqb d) seen = false -> In d (dedup_keys l seen).
Proof.
  intros A d e l. induction l as [|[k v] r IH]; intros seen Hf Hs; [discriminate|].
  rewrite dfind_cons in Hf. cbn [dedup_keys]. destruct (denom_eqb k d) eqn:E.
  - apply denom_eqb_eq in E. subst k. rewrite Hs. left. reflexivity.
  - destruct (existsb (denom_eqb k) seen).
    + apply IH; assumption.
    + right. apply IH; [exact Hf|]. cbn [existsb]. rewrite Hs, orb_false_r.
      destruct (denom_eqb d k) eqn:E2; [|reflexivity]. apply denom_eqb_eq in E2. subst. rewrite denom_eqb_refl in E. discriminate.
Qed.

Lemma in_complete_order : forall (d : denom) (e : Z) order l, dfind d l = Some e -> In d (complete_order order l).
Proof.
  intros d e order l H. unfold complete_order. apply in_or_app.
  destruct (existsb (denom_eqb d) order) eqn:E.
  - left. apply existsb_exists in E as [d' [Hin Hd]]. apply denom_eqb_eq in Hd. subst. exact Hin.
  - right. apply filter_In. split; [eapply in_dedup_keys; eauto | rewrite E; reflexivity].
Qed.

Lemma exported_pairs_sound : forall order l d e, In (d, e) (exported_pairs order l) -> dfind d l = Some e.
Proof.
  intros order l d e H. unfold exported_pairs in H. apply in_flat_map in H as [d0 [_ H]].
  destruct (dfind d0 l) as [e0|] eqn:E; [|destruct H]. destruct H as [H|[]]. inversion H; subst. exact E.
Qed.

Lemma exported_pairs_complete : forall order l d e, dfind d l = Some e -> In (d, e) (exported_pairs order l).
Proof.
  intros order l d e H. unfold exported_pairs. apply in_flat_map. exists d. split; [eapply in_complete_order; eauto|].
  rewrite H. left. reflexivity.
Qed.

(** The skyway round trip keeps the forward index ... *)
Lemma sky_roundtrip_d2e : forall order s d, d2e (sky_roundtrip order s) d = d2e s d.
Proof.
  intros order s d. unfold d2e, sky_roundtrip. cbn [o_d2e].
  destruct (dfind d (o_d2e s)) as [e|] eqn:E.
  - apply dfind_unique.
    + intros v Hv. apply in_rev in Hv. apply exported_pairs_sound in Hv. congruence.
    + exists e. apply -> in_rev. apply exported_pairs_complete. exact E.
  - apply dfind_none. intros v Hv. apply in_rev in Hv. apply exported_pairs_sound in Hv. congruence.
Qed.

(** ... and rebuilds the reverse index from it: where the forward index is injective every live
    binding is found again, whatever the export order. *)
Lemma sky_roundtrip_e2d_live : forall order s d e, fwd_inj s -> d2e s d = Some e -> e2d (sky_roundtrip order s) e = Some d.
Proof.
  intros order s d e Hinj H. unfold e2d, sky_roundtrip. cbn [o_e2d]. apply zfind_unique.
  - intros v Hv. apply in_app_or in Hv as [Hv|Hv].
    + apply in_rev in Hv. apply in_map_iff in Hv as [[d' e'] [Heq Hin]]. cbn in Heq. inversion Heq; subst.
      apply exported_pairs_sound in Hin. eapply Hinj; eauto.
    + exfalso. apply filter_In in Hv as [_ Hv]. cbn [fst] in Hv. apply negb_true_iff in Hv.
      assert (existsb (Z.eqb e) (map snd (exported_pairs order (o_d2e s))) = true) as Hx; [|congruence].
      apply existsb_exists. exists e. split; [|apply Z.eqb_refl].
      apply in_map_iff. exists (d, e). split; [reflexivity|]. apply exported_pairs_complete. exact H.
  - exists d. apply in_or_app. left. apply -> in_rev. apply in_map_iff. exists (d, e). split; [reflexivity|]. apply exported_pairs_complete. exact H.
Qed.

Lemma sky_roundtrip_consistent : forall order s, bindings_consistent s -> bindings_consistent (sky_roundtrip order s).
Proof.
  intros order s [Hi Hr]. split.
  - intros d1 d2 e H1 H2. rewrite sky_roundtrip_d2e in H1, H2. eapply Hi; eauto.
  - intros d e H. rewrite sky_roundtrip_d2e in H. apply sky_roundtrip_e2d_live; assumption.
Qed.

(** The invariant survives every step that governance does not sign — provided the duplicate-binding
    guard reads the index that is written (keyed by the ERC20 contract). *)
Lemma bindings_consistent_step : forall sh auth s op s' b,
  guard_on_written_index sh = true ->
  ostep sh s op = (s', b) -> signer auth op <> Some auth -> bindings_consistent s -> bindings_consistent s'.
Proof.
  intros sh auth s op s' b Hsh Hst Hsig HJ. destruct op; cbn [ostep] in Hst.
  - destruct (wf && negb (p =? 0) && match admin_of s (p, sub) with None => true | Some _ => false end); inv_step Hst; exact HJ.
  - destruct (admin_of s (dc, ds)) as [a|]; [|inv_step Hst; exact HJ].
    destruct ((a =? p) && negb (p =? 0)); inv_step Hst; exact HJ.
  - destruct (admin_of s (dc, ds)); inv_step Hst; exact HJ.
  - destruct (admin_of s (dc, ds)) as [a|]; [|inv_step Hst; exact HJ].
    destruct (ewf && (a =? p) && negb (p =? 0) && bind_guard_ok sh s (dc, ds) e) eqn:E; inv_step Hst; [|exact HJ].
    apply andb_true_iff in E as [_ E]. unfold bind_guard_ok in E. unfold guard_on_written_index in Hsh. rewrite Hsh in E.
    apply andb_true_iff in E as [E _]. destruct (e2d s e) as [d0|] eqn:Ee; [discriminate|]. clear E.
    destruct HJ as [Hi Hr]. split.
    + intros d1 d2 e1 H1 H2. unfold d2e in H1, H2. cbn [o_d2e] in H1, H2. rewrite dfind_cons in H1, H2.
      destruct (denom_eqb (dc, ds) d1) eqn:E1; destruct (denom_eqb (dc, ds) d2) eqn:E2.
      * apply denom_eqb_eq in E1, E2. congruence.
      * inversion H1; subst e1. apply Hr in H2. congruence.
      * inversion H2; subst e1. apply Hr in H1. congruence.
      * eapply Hi; eauto.
    + intros d1 e1 H1. unfold d2e in H1. cbn [o_d2e] in H1. rewrite dfind_cons in H1.
      unfold e2d. cbn [o_e2d]. rewrite zfind_cons.
      destruct (denom_eqb (dc, ds) d1) eqn:E1.
      * inversion H1; subst e1. rewrite Z.eqb_refl. apply denom_eqb_eq in E1. subst. reflexivity.
      * pose proof (Hr _ _ H1) as Hr1. destruct (e =? e1) eqn:E2; [apply Z.eqb_eq in E2; subst; congruence | exact Hr1].
  - cbn in Hsig. congruence.
  - destruct (d2e s (dc, ds)) as [e1|]; [destruct funded|]; inv_step Hst; exact HJ.
  - destruct (pend s tx) as [[q0 e1]|]; [|inv_step Hst; exact HJ].
    destruct (q0 =? p); [|inv_step Hst; exact HJ].
    destruct (e2d s e1) as [d0|]; [|inv_step Hst; exact HJ].
    destruct (1 <=? esc s d0); inv_step Hst; exact HJ.
  - destruct (module =? 1); inv_step Hst; exact HJ.
  - inv_step Hst. apply sky_roundtrip_consistent. exact HJ.
  - inv_step Hst. exact HJ.
Qed.

(** The forward entry of a denom stays unless its admin (or governance) signs the step. *)
Lemma forward_binding_preserved_step : forall sh auth s op s' b d e,
  ostep sh s op = (s', b) -> signer auth op <> Some auth ->
  (forall q, admin_of s d = Some q -> signer auth op <> Some q) ->
  d2e s d = Some e -> d2e s' d = Some e.
Proof.
  intros sh auth s op s' b d e Hst Hsig Hadm Hb. destruct op; cbn [ostep] in Hst.
  - destruct (wf && negb (p =? 0) && match admin_of s (p, sub) with None => true | Some _ => false end); inv_step Hst; exact Hb.
  - destruct (admin_of s (dc, ds)) as [a|]; [|inv_step Hst; exact Hb].
    destruct ((a =? p) && negb (p =? 0)); inv_step Hst; exact Hb.
  - destruct (admin_of s (dc, ds)); inv_step Hst; exact Hb.
  - destruct (admin_of s (dc, ds)) as [a|] eqn:Ea; [|inv_step Hst; exact Hb].
    destruct (ewf && (a =? p) && negb (p =? 0) && bind_guard_ok sh s (dc, ds) e0) eqn:E; inv_step Hst; [|exact Hb].
    unfold d2e. cbn [o_d2e]. rewrite dfind_cons. destruct (denom_eqb (dc, ds) d) eqn:Ed; [|exact Hb].
    apply denom_eqb_eq in Ed. subst d. exfalso.
    apply andb_true_iff in E as [E _]. apply andb_true_iff in E as [E _]. apply andb_true_iff in E as [_ E].
    apply Z.eqb_eq in E. subst a. apply (Hadm p Ea). reflexivity.
  - cbn in Hsig. congruence.
  - destruct (d2e s (dc, ds)) as [e1|]; [destruct funded|]; inv_step Hst; exact Hb.
  - destruct (pend s tx) as [[q0 e1]|]; [|inv_step Hst; exact Hb].
    destruct (q0 =? p); [|inv_step Hst; exact Hb].
    destruct (e2d s e1) as [d0|]; [|inv_step Hst; exact Hb].
    destruct (1 <=? esc s d0); inv_step Hst; exact Hb.
  - destruct (module =? 1); inv_step Hst; exact Hb.
  - inv_step Hst. rewrite sky_roundtrip_d2e. exact Hb.
  - inv_step Hst. exact Hb.
Qed.

(** A native denom (creator 0) never gets a tokenfactory admin. *)
Lemma native_no_admin_step : forall sh s op s' b d,
  import_admin_last sh = true ->
  ostep sh s op = (s', b) -> fst d = 0 -> admin_of s d = None -> admin_of s' d = None.
Proof.
  intros sh s op s' b d Hsh Hst Hn Had. destruct op; cbn [ostep] in Hst.
  - destruct (wf && negb (p =? 0) && match admin_of s (p, sub) with None => true | Some _ => false end) eqn:E; inv_step Hst; [|exact Had].
    unfold admin_of. cbn [o_admin]. rewrite dfind_cons. destruct (denom_eqb (p, sub) d) eqn:Ed; [|exact Had].
    apply denom_eqb_eq in Ed. subst d. cbn in Hn. subst p.
    apply andb_true_iff in E as [E _]. apply andb_true_iff in E as [_ E]. discriminate.
  - destruct (admin_of s (dc, ds)) as [a|] eqn:Ea; [|inv_step Hst; exact Had].
    destruct ((a =? p) && negb (p =? 0)); inv_step Hst; [|exact Had].
    unfold admin_of. cbn [o_admin]. rewrite dfind_cons. destruct (denom_eqb (dc, ds) d) eqn:Ed; [|exact Had].
    apply denom_eqb_eq in Ed. subst d. congruence.
  - destruct (admin_of s (dc, ds)); inv_step Hst; exact Had.
  - destruct (admin_of s (dc, ds)) as [a|]; [|inv_step Hst; exact Had].
    destruct (ewf && (a =? p) && negb (p =? 0) && bind_guard_ok sh s (dc, ds) e); inv_step Hst; exact Had.
  - inv_step Hst. exact Had.
  - destruct (d2e s (dc, ds)); [destruct funded|]; inv_step Hst; exact Had.
  - destruct (pend s tx) as [[q0 e]|]; [|inv_step Hst; exact Had].
    destruct (q0 =? p); [|inv_step Hst; exact Had].
    destruct (e2d s e) as [d0|]; [|inv_step Hst; exact Had].
    destruct (1 <=? esc s d0); inv_step Hst; exact Had.
  - destruct (module =? 1); inv_step Hst; [|exact Had].
    rewrite genesis_preserves_admin_lemma by exact Hsh. exact Had.
  - inv_step Hst. exact Had.
  - inv_step Hst. exact Had.
Qed.

(** Pending-transfer ids are handed out by a counter: every id in use is at most the counter. *)
Definition wf_ids (s : ost) : Prop := forall tx, pend s tx <> None -> tx <= o_next s.

Lemma zfind_remove_other : forall tx x l, x <> tx -> zfind x (remove_tx tx l) = zfind x l.
Proof.
  intros tx x l Hne. induction l as [|[k v] r IH]; [reflexivity|].
  cbn [remove_tx filter fst]. destruct (k =? tx) eqn:E; cbn [negb].
  - rewrite zfind_cons. apply Z.eqb_eq in E. subst k.
    destruct (tx =? x) eqn:E2; [apply Z.eqb_eq in E2; congruence | exact IH].
  - rewrite !zfind_cons. destruct (k =? x); [reflexivity | exact IH].
Qed.

Lemma zfind_remove_some : forall tx x l v, zfind x (remove_tx tx l) = Some v -> zfind x l <> None.
Proof.
  intros tx x l v. induction l as [|[k w] r IH]; [discriminate|].
  cbn [remove_tx filter fst]. destruct (k =? tx) eqn:E; cbn [negb].
  - intros H. rewrite zfind_cons. destruct (k =? x); [discriminate | exact (IH H)].
  - rewrite !zfind_cons. destruct (k =? x); [discriminate | exact IH].
Qed.

Lemma wf_ids_step : forall sh s op s' b, ostep sh s op = (s', b) -> wf_ids s -> wf_ids s'.
Proof.
  intros sh s op s' b Hst Hwf. destruct op; cbn [ostep] in Hst.
  - destruct (wf && negb (p =? 0) && match admin_of s (p, sub) with None => true | Some _ => false end); inv_step Hst; exact Hwf.
  - destruct (admin_of s (dc, ds)) as [a|]; [|inv_step Hst; exact Hwf].
    destruct ((a =? p) && negb (p =? 0)); inv_step Hst; exact Hwf.
  - destruct (admin_of s (dc, ds)); inv_step Hst; exact Hwf.
  - destruct (admin_of s (dc, ds)) as [a|]; [|inv_step Hst; exact Hwf].
    destruct (ewf && (a =? p) && negb (p =? 0) && bind_guard_ok sh s (dc, ds) e); inv_step Hst; exact Hwf.
  - inv_step Hst. exact Hwf.
  - destruct (d2e s (dc, ds)) as [e|]; [destruct funded|]; inv_step Hst; try exact Hwf.
    intros tx H. unfold pend in H. cbn [o_pend o_next] in *. rewrite zfind_cons in H.
    destruct (o_next s + 1 =? tx) eqn:E; [apply Z.eqb_eq in E; lia|].
    specialize (Hwf tx H). lia.
  - destruct (pend s tx) as [[q0 e]|]; [|inv_step Hst; exact Hwf].
    destruct (q0 =? p); [|inv_step Hst; exact Hwf].
    destruct (e2d s e) as [d0|]; [|inv_step Hst; exact Hwf].
    destruct (1 <=? esc s d0); inv_step Hst; [|exact Hwf].
    intros x H. unfold pend in H. cbn [o_pend o_next] in *.
    apply Hwf. destruct (zfind x (remove_tx tx (o_pend s))) eqn:E; [|congruence].
    eapply zfind_remove_some; eauto.
  - destruct (module =? 1); inv_step Hst; exact Hwf.
  - inv_step Hst. exact Hwf.
  - inv_step Hst. exact Hwf.
Qed.

(** A pending transfer stays in its sender's name unless the sender signs the step. *)
Lemma pending_preserved_step : forall sh auth s op s' b tx p e,
  wf_ids s ->
  ostep sh s op = (s', b) -> pend s tx = Some (p, e) -> signer auth op <> Some p ->
  pend s' tx = Some (p, e).
Proof.
  intros sh auth s op s' b tx p e Hwf Hst Hp Hsig. destruct op; cbn [ostep] in Hst.
  - destruct (wf && negb (p0 =? 0) && match admin_of s (p0, sub) with None => true | Some _ => false end); inv_step Hst; exact Hp.
  - destruct (admin_of s (dc, ds)) as [a|]; [|inv_step Hst; exact Hp].
    destruct ((a =? p0) && negb (p0 =? 0)); inv_step Hst; exact Hp.
  - destruct (admin_of s (dc, ds)); inv_step Hst; exact Hp.
  - destruct (admin_of s (dc, ds)) as [a|]; [|inv_step Hst; exact Hp].
    destruct (ewf && (a =? p0) && negb (p0 =? 0) && bind_guard_ok sh s (dc, ds) e0); inv_step Hst; exact Hp.
  - inv_step Hst. exact Hp.
  - destruct (d2e s (dc, ds)) as [e1|]; [destruct funded|]; inv_step Hst; try exact Hp.
    unfold pend. cbn [o_pend]. rewrite zfind_cons. destruct (o_next s + 1 =? tx) eqn:E; [|exact Hp].
    apply Z.eqb_eq in E. assert (tx <= o_next s) by (apply Hwf; congruence). lia.
  - destruct (pend s tx0) as [[q0 e1]|] eqn:Ep; [|inv_step Hst; exact Hp].
    destruct (q0 =? p0) eqn:Eq; [|inv_step Hst; exact Hp].
    destruct (e2d s e1) as [d0|]; [|inv_step Hst; exact Hp].
    destruct (1 <=? esc s d0); inv_step Hst; [|exact Hp].
    unfold pend. cbn [o_pend]. destruct (Z.eq_dec tx tx0) as [->|Hne].
    + rewrite Hp in Ep. inversion Ep; subst. apply Z.eqb_eq in Eq. subst. cbn in Hsig. congruence.
    + rewrite zfind_remove_other by exact Hne. exact Hp.
  - destruct (module =? 1); inv_step Hst; exact Hp.
  - inv_step Hst. exact Hp.
  - inv_step Hst. exact Hp.
Qed.

(** * Histories *)

Lemma orun_cons : forall sh op ops s, orun sh (op :: ops) s = orun sh ops (fst (ostep sh s op)).
Proof. reflexivity. Qed.

Lemma wf_ids_run : forall sh ops s, wf_ids s -> wf_ids (orun sh ops s).
Proof.
  intros sh ops. induction ops as [|op r IH]; intros s H; [exact H|].
  rewrite orun_cons. apply IH. destruct (ostep sh s op) as [s' b] eqn:E. eapply wf_ids_step; eauto.
Qed.

Lemma objects_history_admin_lemma : forall sh auth ops s q,
  import_admin_last sh = true ->
  (forall op, In op ops -> signer auth op <> Some q) ->
  forall d, admin_of s d = Some q -> admin_of (orun sh ops s) d = Some q.
Proof.
  intros sh auth ops. induction ops as [|op r IH]; intros s q Hsh Hs d Had; [exact Had|].
  rewrite orun_cons. destruct (ostep sh s op) as [s' b] eqn:E. cbn [fst].
  apply IH; [exact Hsh | intros o Ho; apply Hs; right; exact Ho |].
  eapply admin_preserved_step; eauto. apply Hs. left. reflexivity.
Qed.

(** A LIVE binding (the denom's forward entry and the matching reverse entry) of a denom administered
    by q survives every history in which neither q nor governance signs — messages of other token
    admins, genesis round trips of tokenfactory and of skyway included. *)
Lemma objects_history_live_binding_lemma : forall sh auth ops s q d e,
  guard_on_written_index sh = true -> import_admin_last sh = true -> bindings_consistent s ->
  (forall op, In op ops -> signer auth op <> Some auth /\ signer auth op <> Some q) ->
  admin_of s d = Some q -> d2e s d = Some e ->
  admin_of (orun sh ops s) d = Some q /\ d2e (orun sh ops s) d = Some e /\ e2d (orun sh ops s) e = Some d.
Proof.
  intros sh auth ops. induction ops as [|op r IH]; intros s q d e Hg Hi HJ Hs Had Hb.
  - split; [exact Had|]. split; [exact Hb|]. apply HJ. exact Hb.
  - rewrite orun_cons. destruct (ostep sh s op) as [s' b] eqn:E. cbn [fst].
    destruct (Hs op (or_introl eq_refl)) as [Hna Hnq].
    apply IH; try assumption.
    + eapply bindings_consistent_step; eauto.
    + intros o Ho. apply Hs. right. exact Ho.
    + eapply admin_preserved_step; eauto.
    + eapply forward_binding_preserved_step; eauto. intros q' Hq'. congruence.
Qed.

(** The same for governance's bindings of native denoms: nobody but governance alters them. *)
Lemma objects_history_native_binding_lemma : forall sh auth ops s d e,
  guard_on_written_index sh = true -> import_admin_last sh = true -> bindings_consistent s ->
  (forall op, In op ops -> signer auth op <> Some auth) ->
  fst d = 0 -> admin_of s d = None -> d2e s d = Some e ->
  d2e (orun sh ops s) d = Some e /\ e2d (orun sh ops s) e = Some d.
Proof.
  intros sh auth ops. induction ops as [|op r IH]; intros s d e Hg Hi HJ Hs Hn Had Hb.
  - split; [exact Hb|]. apply HJ. exact Hb.
  - rewrite orun_cons. destruct (ostep sh s op) as [s' b] eqn:E. cbn [fst].
    pose proof (Hs op (or_introl eq_refl)) as Hna.
    apply IH; try assumption.
    + eapply bindings_consistent_step; eauto.
    + intros o Ho. apply Hs. right. exact Ho.
    + eapply native_no_admin_step; eauto.
    + eapply forward_binding_preserved_step; eauto. intros q' Hq'. congruence.
Qed.

Lemma bindings_consistent_init1 : bindings_consistent init_env1.
Proof.
  split.
  - intros d1 d2 e H1 H2. unfold d2e in *. cbn in H1, H2.
    destruct (denom_eqb (0, 1) d1) eqn:E1; [|discriminate]. destruct (denom_eqb (0, 1) d2) eqn:E2; [|discriminate].
    apply denom_eqb_eq in E1, E2. congruence.
  - intros d e H. unfold d2e in H. cbn in H. destruct (denom_eqb (0, 1) d) eqn:E1; [|discriminate].
    inversion H; subst. apply denom_eqb_eq in E1. subst. reflexivity.
Qed.

Lemma objects_history_pending_lemma : forall sh auth ops s p,
  wf_ids s ->
  (forall op, In op ops -> signer auth op <> Some p) ->
  forall tx e, pend s tx = Some (p, e) -> pend (orun sh ops s) tx = Some (p, e).
Proof.
  intros sh auth ops. induction ops as [|op r IH]; intros s p Hwf Hs tx e Hp; [exact Hp|].
  rewrite orun_cons. destruct (ostep sh s op) as [s' b] eqn:E. cbn [fst].
  apply IH; [eapply wf_ids_step; eauto | intros o Ho; apply Hs; right; exact Ho |].
  eapply pending_preserved_step; eauto. apply Hs. left. reflexivity.
Qed.

Lemma wf_ids_init1 : wf_ids init_env1.
Proof. intros tx H. cbn in H. congruence. Qed.

(** * Why the two shapes are pinned *)

(** The duplicate-binding guard reading the OTHER index (denom -> erc20): the admin of a fresh denom
    of its own overwrites governance's binding. *)
Lemma bind_guard_wrong_index_refuted_lemma :
  let sh := MkShape ["ChainReferenceId"; "Denom"]%string ["createDenomAfterValidation"; "setAuthorityMetadata"]%string in
  exists auth s p s',
    p <> auth /\ e2d s 1 = Some (0, 1) /\
    ostep sh s (OBind p p 3 1 true) = (s', true) /\ signer auth (OBind p p 3 1 true) <> Some auth /\
    e2d s' 1 = Some (p, 3).
Proof.
  exists 11, (MkO [((6, 3), 6)] [(1, (0, 1))] [((0, 1), 1)] [] [] 0), 6. eexists.
  split; [lia|]. split; [reflexivity|]. split; [vm_compute; reflexivity|]. split; [cbn; congruence|]. reflexivity.
Qed.

(** InitGenesis writing the exported admin BEFORE createDenomAfterValidation: the round trip hands
    a denom whose admin was changed back to its creator — with no message at all. *)
Lemma genesis_admin_first_refuted_lemma :
  let sh := MkShape ["ChainReferenceId"; "Erc20"]%string ["setAuthorityMetadata"; "createDenomAfterValidation"]%string in
  exists auth ops s d b c,
    b <> c /\ (forall op, In op ops -> signer auth op <> Some c /\ signer auth op <> Some b) /\
    admin_of s d = Some c /\ admin_of (orun sh ops s) d = Some b.
Proof.
  exists 11, [OGenesis 1], (MkO [((2, 1), 7); ((2, 1), 2)] [] [] [] [] 0), (2, 1), 2, 7.
  split; [lia|]. split.
  - intros op [<-|[]]. cbn. split; congruence.
  - split; reflexivity.
Qed.

(** Non-vacuity: a history in which the steps are accepted and the preserved facts are there. *)
Example ex_objects_history :
  let sh := MkShape ["ChainReferenceId"; "Erc20"]%string ["createDenomAfterValidation"; "setAuthorityMetadata"]%string in
  let ops := [OCreate 2 1 true; OChangeAdmin 2 2 1 7; OBind 7 2 1 2 true; OSend 6 2 1 true;
              OCreate 1 3 true; OBind 1 1 3 2 true; OBind 1 1 3 1 true; OGenesis 1; OGenesis 2;
              OChangeAdmin 2 2 1 2; OCancel 1 1] in
  let s := orun sh ops init_env1 in
  admin_of s (2, 1) = Some 7 /\ e2d s 2 = Some (2, 1) /\ e2d s 1 = Some (0, 1) /\ pend s 1 = Some (6, 2).
Proof. vm_compute. repeat split. Qed.
