(** C03, second round — INDEX WRITES: store writes of msg-server handlers whose key (or part of it)
    the sender chooses. One row per (rpc, written function) as found by the extractor's scan of
    the handler (descending into the module's keeper functions), with the request fields the
    written call derives from, the request fields the ABSENT guards (a lookup must find nothing)
    and the OWNER guards (a lookup's result must equal the creator) that precede it are keyed by,
    and the reviewed expectation (tables/c03_fields.json, index_writes). Definitions only. *)
From Coq Require Import List ZArith String Bool.
From Paloma Require Import Auth.Discipline Auth.Ante.
Import ListNotations.
Open Scope string_scope.

Record idxrow := MkIdx {
  ix_rpc : string; ix_write : string;
  ix_wfields : list string;     (* extracted: fields the written call derives from *)
  ix_absent : list string;      (* extracted: fields the preceding absent-guards' lookups are keyed by *)
  ix_owner : list string;       (* extracted: fields the preceding owner-guards' lookups are keyed by *)
  ix_kind : string;             (* reviewed *)
  ix_key : list string;         (* reviewed: key of the written index an absent guard must cover *)
  ix_okey : list string         (* reviewed: key of the object whose holder must be the creator *)
}.

Definition mem_s (x : string) (l : list string) : bool := existsb (String.eqb x) l.
Definition subset_s (a b : list string) : bool := forallb (fun x => mem_s x b) a.
Definition nonempty (l : list string) : bool := match l with [] => false | _ => true end.

Fixpoint find_spec_by_name (n : string) (l : list msgspec) : option msgspec :=
  match l with
  | [] => None
  | s :: r => if String.eqb (ms_name s) n then Some s else find_spec_by_name n r
  end.

Definition authority_guarded (specs : list msgspec) (rpc : string) : bool :=
  match find_spec_by_name rpc specs with
  | Some s => has_row s creator_field EqAuthority || has_row s authority_field EqAuthority
  | None => false
  end.

(** A row is guarded the way its reviewed kind needs. *)
Definition idx_ok (specs : list msgspec) (known_open : list string) (r : idxrow) : bool :=
  let k := ix_kind r in
  if String.eqb k "absent" then nonempty (ix_key r) && subset_s (ix_key r) (ix_absent r)
  else if String.eqb k "owner" then nonempty (ix_okey r) && subset_s (ix_okey r) (ix_owner r)
  else if String.eqb k "absent+owner" then
    nonempty (ix_key r) && subset_s (ix_key r) (ix_absent r) && nonempty (ix_okey r) && subset_s (ix_okey r) (ix_owner r)
  else if String.eqb k "under_creator" then mem_s creator_field (ix_wfields r)
  else if String.eqb k "gov" then authority_guarded specs (ix_rpc r)
  else if String.eqb k "known_open" then mem_s (ix_rpc r) known_open
  else if String.eqb k "content" then true
  else if String.eqb k "beneficiary" then true
  else if String.eqb k "ext_signed" then true
  else false.
