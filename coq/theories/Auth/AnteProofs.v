(** C03 — proofs about Auth/Ante.v. *)
From Coq Require Import List ZArith String Bool Lia.
From Paloma Require Import Auth.Discipline Auth.Ante.
Import ListNotations.
Open Scope Z_scope.

(** * The decorator *)

Lemma ante_sound_lemma : forall g spec m,
  ms_has_meta spec = true -> ante_msg g spec m = true ->
  exists sg, In sg (m_meta_signers m) /\ (sg = m_creator m \/ granted g (m_creator m) sg = true).
Proof.
  intros g spec m Hmeta H. unfold ante_msg in H. rewrite Hmeta in H.
  apply orb_true_iff in H as [H | H]; apply existsb_exists in H as [sg [Hin Hsg]].
  - exists sg. split; [exact Hin|]. left. apply Z.eqb_eq in Hsg. congruence.
  - exists sg. split; [exact Hin|]. right. exact Hsg.
Qed.

(** Completeness: the decorator rejects nothing that is authorised in this sense. *)
Lemma ante_complete_lemma : forall g spec m sg,
  In sg (m_meta_signers m) -> (sg = m_creator m \/ granted g (m_creator m) sg = true) ->
  ante_msg g spec m = true.
Proof.
  intros g spec m sg Hin H. unfold ante_msg. destruct (ms_has_meta spec); [|reflexivity].
  apply orb_true_iff. destruct H as [H | H].
  - left. apply existsb_exists. exists sg. split; [exact Hin|]. subst. apply Z.eqb_refl.
  - right. apply existsb_exists. exists sg. split; assumption.
Qed.

(** A stranger (not the creator, no grant from it) alone can never pass. *)
Lemma ante_rejects_stranger_lemma : forall g spec m,
  ms_has_meta spec = true ->
  (forall sg, In sg (m_meta_signers m) -> sg <> m_creator m /\ granted g (m_creator m) sg = false) ->
  ante_msg g spec m = false.
Proof.
  intros g spec m Hmeta H. destruct (ante_msg g spec m) eqn:E; [|reflexivity].
  destruct (ante_sound_lemma g spec m Hmeta E) as [sg [Hin [Heq | Hgr]]];
    destruct (H sg Hin) as [Hne Hng]; congruence.
Qed.

(** * State lemmas *)

Lemma get_bump : forall l p q, get (bump l p) q = if p =? q then get l p + 1 else get l q.
Proof. intros. unfold bump. cbn [get]. reflexivity. Qed.

Lemma get_bump_other : forall l p q, p <> q -> get (bump l p) q = get l q.
Proof. intros l p q H. rewrite get_bump. destruct (p =? q) eqn:E; [apply Z.eqb_eq in E; congruence | reflexivity]. Qed.

Lemma write_owned_other : forall s t p,
  (forall q, t = Some (true, q) -> q <> p) -> get (owned (write s t)) p = get (owned s) p.
Proof.
  intros s t p H. destruct t as [[[|] q]|]; cbn [write owned]; try reflexivity.
  apply get_bump_other. apply H. reflexivity.
Qed.

Lemma apply_rows_owned_changed : forall auth m rows s p,
  get (owned (apply_rows auth m rows s)) p <> get (owned s) p ->
  exists r, In r rows /\ target auth m r = Some (true, p).
Proof.
  intros auth m rows. unfold apply_rows.
  induction rows as [|r rows IH]; intros s p H; cbn [fold_left] in H.
  - congruence.
  - destruct (target auth m r) as [[[|] q]|] eqn:T.
    + destruct (Z.eq_dec q p) as [->|Hne].
      * exists r. split; [left; reflexivity | exact T].
      * destruct (IH (write s (Some (true, q))) p) as [r' [Hin HT]].
        { assert (E0 : get (owned (write s (Some (true, q)))) p = get (owned s) p).
          { apply write_owned_other. intros q' E. inversion E; subst. exact Hne. }
          rewrite E0. exact H. }
        exists r'. split; [right; exact Hin | exact HT].
    + destruct (IH (write s (Some (false, q))) p) as [r' [Hin HT]].
      { cbn [write owned] in *. exact H. }
      exists r'. split; [right; exact Hin | exact HT].
    + destruct (IH (write s None) p) as [r' [Hin HT]].
      { cbn [write] in *. exact H. }
      exists r'. split; [right; exact Hin | exact HT].
Qed.

Lemma apply_rows_inbox_only_beneficiary : forall auth m rows s p,
  get (inbox (apply_rows auth m rows s)) p <> get (inbox s) p ->
  exists r, In r rows /\ target auth m r = Some (false, p).
Proof.
  intros auth m rows. unfold apply_rows.
  induction rows as [|r rows IH]; intros s p H; cbn [fold_left] in H.
  - congruence.
  - destruct (target auth m r) as [[[|] q]|] eqn:T.
    + destruct (IH (write s (Some (true, q))) p) as [r' [Hin HT]]; [cbn [write inbox] in *; exact H|].
      exists r'. split; [right; exact Hin | exact HT].
    + destruct (Z.eq_dec q p) as [->|Hne].
      * exists r. split; [left; reflexivity | exact T].
      * destruct (IH (write s (Some (false, q))) p) as [r' [Hin HT]].
        { assert (E0 : get (inbox (write s (Some (false, q)))) p = get (inbox s) p).
          { cbn [write inbox]. apply get_bump_other. exact Hne. }
          rewrite E0. exact H. }
        exists r'. split; [right; exact Hin | exact HT].
    + destruct (IH (write s None) p) as [r' [Hin HT]]; [cbn [write] in *; exact H|].
      exists r'. split; [right; exact Hin | exact HT].
Qed.

(** * Rows *)

Lemma has_row_In : forall spec f d, has_row spec f d = true ->
  exists r, In r (ms_rows spec) /\ fst r = f /\ snd r = d.
Proof.
  intros spec f d H. unfold has_row in H. apply existsb_exists in H as [r [Hin Hr]].
  apply andb_true_iff in Hr as [Hf Hd]. apply String.eqb_eq in Hf.
  exists r. repeat split; try assumption.
  destruct (snd r), d; cbn in Hd; congruence.
Qed.

Lemma field_creator : forall auth m, field auth m creator_field = Some (m_creator m).
Proof. intros. unfold field. rewrite String.eqb_refl. reflexivity. Qed.

(** The guard of an EqAuthority row on field f that passed says: f's value is the authority. *)
Lemma guard_eq_authority : forall auth m f, guard_ok auth m (f, EqAuthority) = true ->
  field auth m f = Some auth.
Proof.
  intros auth m f H. unfold guard_ok in H. cbn [fst snd] in H.
  destruct (field auth m f) as [v|]; [|discriminate]. apply Z.eqb_eq in H. congruence.
Qed.

(** Core: one accepted row whose target is state held in p's name => p authorised the message. *)
Lemma row_target_authorised : forall auth g spec m r p,
  ante_msg g spec m = true ->
  forallb (guard_ok auth m) (ms_rows spec) = true ->
  In r (ms_rows spec) -> row_ok spec r = true ->
  target auth m r = Some (true, p) ->
  authorised auth g spec m p.
Proof.
  intros auth g spec m [f d] p Hante Hguards Hin Hok HT.
  assert (Hg : guard_ok auth m (f, d) = true) by (eapply forallb_forall in Hguards; eauto).
  unfold target in HT. cbn [fst snd] in HT. unfold row_ok in Hok. cbn [fst snd] in Hok.
  destruct d; try discriminate; try (destruct (field auth m f); discriminate).
  - (* FromCreator *)
    apply andb_true_iff in Hok as [Hok Hsm]. apply andb_true_iff in Hok as [Hf Hmeta].
    apply String.eqb_eq in Hf. subst f. rewrite field_creator in HT. inversion HT; subst p.
    left. repeat split; try assumption.
    + unfold is_sign_metadata in Hsm. destruct (ms_signer spec); [reflexivity | discriminate].
    + destruct (ante_sound_lemma g spec m Hmeta Hante) as [sg [Hs Hc]]. exists sg. split; [|exact Hc].
      unfold sdk_signers. unfold is_sign_metadata in Hsm. destruct (ms_signer spec); [exact Hs | discriminate].
  - (* EqCreator *)
    apply andb_true_iff in Hok as [Hmeta Hsm].
    destruct (field auth m f) as [v|] eqn:F; [|discriminate]. inversion HT; subst v.
    unfold guard_ok in Hg. cbn [fst snd] in Hg. rewrite F in Hg. apply Z.eqb_eq in Hg. subst p.
    left. repeat split; try assumption.
    + unfold is_sign_metadata in Hsm. destruct (ms_signer spec); [reflexivity | discriminate].
    + destruct (ante_sound_lemma g spec m Hmeta Hante) as [sg [Hs Hc]]. exists sg. split; [|exact Hc].
      unfold sdk_signers. unfold is_sign_metadata in Hsm. destruct (ms_signer spec); [exact Hs | discriminate].
  - (* EqAuthority *)
    destruct (field auth m f) as [v|] eqn:F; [|discriminate]. inversion HT; subst v.
    pose proof (guard_eq_authority auth m f Hg) as Fa. rewrite F in Fa. inversion Fa; subst p.
    destruct (is_sign_metadata spec) eqn:Hsm.
    + apply andb_true_iff in Hok as [Hmeta Hrow].
      apply has_row_In in Hrow as [[f' d'] [Hin' [Hf' Hd']]]. cbn [fst snd] in Hf', Hd'. subst f' d'.
      assert (Hg' : guard_ok auth m (creator_field, EqAuthority) = true) by (eapply forallb_forall in Hguards; eauto).
      apply guard_eq_authority in Hg'. rewrite field_creator in Hg'. inversion Hg' as [Hc].
      left. repeat split; try assumption.
      * unfold is_sign_metadata in Hsm. destruct (ms_signer spec); [reflexivity | discriminate].
      * destruct (ante_sound_lemma g spec m Hmeta Hante) as [sg [Hs Hcs]]. exists sg.
        rewrite Hc in *. split; [|exact Hcs].
        unfold sdk_signers. unfold is_sign_metadata in Hsm. destruct (ms_signer spec); [exact Hs | discriminate].
    + apply has_row_In in Hok as [[f' d'] [Hin' [Hf' Hd']]]. cbn [fst snd] in Hf', Hd'. subst f' d'.
      assert (Hg' : guard_ok auth m (authority_field, EqAuthority) = true) by (eapply forallb_forall in Hguards; eauto).
      apply guard_eq_authority in Hg'.
      right. left. unfold is_sign_metadata in Hsm. destruct (ms_signer spec) eqn:Hk; [discriminate|].
      repeat split; try reflexivity.
      unfold sdk_signers. rewrite Hk, Hg'. left. reflexivity.
  - (* ExternallySigned *)
    destruct (field auth m f) as [v|] eqn:F; [|discriminate]. inversion HT; subst v.
    unfold guard_ok in Hg. cbn [fst snd] in Hg. rewrite F in Hg.
    apply existsb_exists in Hg as [x [Hx Hxe]]. apply Z.eqb_eq in Hxe. subst x.
    right. right. exact Hx.
Qed.

Lemma deliver_done_inv : forall auth g spec m s s', deliver auth g spec m s = Done s' ->
  ante_msg g spec m = true /\ forallb (guard_ok auth m) (ms_rows spec) = true /\
  s' = apply_rows auth m (ms_rows spec) s.
Proof.
  intros auth g spec m s s' H. unfold deliver in H.
  destruct (ante_msg g spec m); cbn [negb] in H; [|discriminate].
  destruct (forallb (guard_ok auth m) (ms_rows spec)); cbn [negb] in H; [|discriminate].
  inversion H. auto.
Qed.

(** * no_cross_principal_effect, for the executable discipline interpreter *)

Lemma no_cross_principal_effect_lemma : forall auth g spec m s s',
  spec_ok spec = true ->
  deliver auth g spec m s = Done s' ->
  forall p, get (owned s') p <> get (owned s) p -> authorised auth g spec m p.
Proof.
  intros auth g spec m s s' Hok Hd p Hch.
  apply deliver_done_inv in Hd as [Hante [Hguards ->]].
  apply apply_rows_owned_changed in Hch as [r [Hin HT]].
  eapply row_target_authorised; eauto.
  unfold spec_ok in Hok. eapply forallb_forall in Hok; eauto.
Qed.

(** A rejected delivery changes nothing (trivially: the state is returned as is; atomicity of the
    real delivery is baseapp's cache context, trusted). *)
Lemma rejected_is_noop_lemma : forall auth g spec m s,
  (forall s', deliver auth g spec m s <> Done s') -> state_after (deliver auth g spec m s) s = s.
Proof.
  intros auth g spec m s H. destruct (deliver auth g spec m s) eqn:E; try reflexivity.
  exfalso. eapply H. reflexivity.
Qed.

(** What a principal merely receives comes only through a reviewed Beneficiary row naming it. *)
Lemma inbox_only_via_beneficiary_lemma : forall auth g spec m s s',
  deliver auth g spec m s = Done s' ->
  forall p, get (inbox s') p <> get (inbox s) p ->
  exists f, In (f, Beneficiary) (ms_rows spec) /\ field auth m f = Some p.
Proof.
  intros auth g spec m s s' Hd p Hch.
  apply deliver_done_inv in Hd as [_ [_ ->]].
  apply apply_rows_inbox_only_beneficiary in Hch as [[f d] [Hin HT]].
  unfold target in HT. cbn [fst snd] in HT.
  destruct d; destruct (field auth m f) as [v|] eqn:F; try discriminate.
  inversion HT; subst v. exists f. split; [exact Hin | exact F].
Qed.

(** * The same statement, generic over any handler that obeys its declared discipline *)
Section DisciplinedHandler.
  Variable auth : principal.
  Variable spec : msgspec.
  (** an arbitrary handler over an arbitrary state type with an "attributed state" projection *)
  Variable St : Type.
  Variable attributed : St -> principal -> Z.
  Variable handler : msg -> St -> option St.
  (** obeys: on success every guard of the table held, and every principal whose attributed state
      differs is the target of some row of the table. *)
  Hypothesis obeys : forall m s s', handler m s = Some s' ->
    forallb (guard_ok auth m) (ms_rows spec) = true /\
    forall p, attributed s' p <> attributed s p ->
      exists r, In r (ms_rows spec) /\ target auth m r = Some (true, p).

  Lemma generic_no_cross_principal_effect : forall g m s s',
    spec_ok spec = true -> ante_msg g spec m = true -> handler m s = Some s' ->
    forall p, attributed s' p <> attributed s p -> authorised auth g spec m p.
  Proof.
    intros g m s s' Hok Hante Hh p Hch.
    destruct (obeys m s s' Hh) as [Hguards Htargets].
    destruct (Htargets p Hch) as [r [Hin HT]].
    eapply row_target_authorised; eauto.
    unfold spec_ok in Hok. eapply forallb_forall in Hok; eauto.
  Qed.
End DisciplinedHandler.

(** The interpreter is such a handler (so the section is not vacuous). *)
Lemma interpreter_obeys : forall auth spec m s s',
  (if forallb (guard_ok auth m) (ms_rows spec) then Some (apply_rows auth m (ms_rows spec) s) else None) = Some s' ->
  forallb (guard_ok auth m) (ms_rows spec) = true /\
  forall p, get (owned s') p <> get (owned s) p ->
    exists r, In r (ms_rows spec) /\ target auth m r = Some (true, p).
Proof.
  intros auth spec m s s' H. destruct (forallb (guard_ok auth m) (ms_rows spec)) eqn:G; [|discriminate].
  inversion H; subst s'. split; [reflexivity|]. intros p Hch.
  eapply apply_rows_owned_changed; eauto.
Qed.

(** * Histories *)

Definition op_ok (specs_ok : msgspec -> bool) (o : op) : bool := let '(_, spec, _) := o in specs_ok spec.

Lemma step_unauthorised_keeps : forall auth s o p,
  (let '(g, spec, m) := o in spec_ok spec = true /\ ~ authorised auth g spec m p) ->
  get (owned (step auth s o)) p = get (owned s) p.
Proof.
  intros auth s [[g spec] m] p [Hok Hna]. unfold step.
  destruct (deliver auth g spec m s) as [s'| |] eqn:E; cbn [state_after]; try reflexivity.
  destruct (Z.eq_dec (get (owned s') p) (get (owned s) p)) as [Heq|Hne]; [exact Heq|].
  exfalso. apply Hna. eapply no_cross_principal_effect_lemma; eauto.
Qed.

(** Over any history of deliveries (any interleaving of message types, signers, creators, named
    principals and grant sets): if p authorised none of them, nothing held in p's name changed. *)
Lemma history_no_cross_principal_lemma : forall auth ops s p,
  (forall g spec m, In (g, spec, m) ops -> spec_ok spec = true /\ ~ authorised auth g spec m p) ->
  get (owned (run auth ops s)) p = get (owned s) p.
Proof.
  intros auth ops. unfold run. induction ops as [|o ops IH]; intros s p H; cbn [fold_left].
  - reflexivity.
  - rewrite IH.
    + apply step_unauthorised_keeps. destruct o as [[g spec] m]. apply H. left. reflexivity.
    + intros g spec m Hin. apply H. right. exact Hin.
Qed.

(** * The obligation is necessary: an Unguarded row is exploitable *)

Lemma unguarded_row_exploitable_lemma : forall name f,
  f <> creator_field -> f <> gov_field ->
  let spec := MkSpec name SignMetadata true [(creator_field, Unused); (f, Unguarded)] in
  exists auth g m s s' p,
    deliver auth g spec m s = Done s' /\ get (owned s') p <> get (owned s) p /\ ~ authorised auth g spec m p.
Proof.
  intros name f Hf Hg spec.
  (* account 1 signs and creates; the message names principal 2 *)
  exists 0, [], (MkMsg [1] 1 [(f, 2)] []), empty_state.
  assert (F : field 0 (MkMsg [1] 1 [(f, 2)] []) f = Some 2).
  { unfold field. destruct (String.eqb f creator_field) eqn:E1; [apply String.eqb_eq in E1; congruence|].
    destruct (String.eqb f gov_field) eqn:E2; [apply String.eqb_eq in E2; congruence|].
    cbn [m_fields assoc]. rewrite String.eqb_refl. reflexivity. }
  eexists. exists 2. split; [|split].
  - unfold deliver, ante_msg. cbn [ms_has_meta spec m_creator m_meta_signers existsb orb negb Z.eqb].
    cbn [ms_rows spec forallb]. unfold guard_ok at 1 2. cbn [fst snd]. rewrite F. cbn [andb negb].
    reflexivity.
  - unfold apply_rows. cbn [ms_rows spec fold_left]. unfold target. cbn [fst snd]. rewrite F.
    try rewrite field_creator. cbn [write owned empty_state]. rewrite get_bump. cbn. discriminate.
  - intros [[H _] | [[_ [H _]] | H]].
    + cbn in H. discriminate.
    + cbn in H. discriminate.
    + cbn in H. exact H.
Qed.

(** * Whole transactions *)

Lemma memz_grantees_of : forall g c sg, memz sg (grantees_of g c) = granted g c sg.
Proof.
  intros g c sg. unfold grantees_of, granted, memz. induction g as [|[a b] g IH]; cbn [filter map existsb fst snd].
  - reflexivity.
  - destruct (a =? c) eqn:E; cbn [map existsb snd andb].
    + rewrite IH. rewrite (Z.eqb_sym sg b). reflexivity.
    + rewrite IH. reflexivity.
Qed.

(** With the lookup table local to the loop body the decorator is exactly "every message passes". *)
Lemma ante_loop_no_carry : forall g tx lk,
  ante_loop false g lk tx = forallb (fun sm => ante_msg g (fst sm) (snd sm)) tx.
Proof.
  intros g tx. induction tx as [|[spec m] r IH]; intros lk; cbn [ante_loop forallb fst snd].
  - reflexivity.
  - unfold ante_msg at 1. destruct (ms_has_meta spec); cbn [negb].
    + destruct (existsb (Z.eqb (m_creator m)) (m_meta_signers m)) eqn:E1; cbn [orb andb].
      * apply IH.
      * rewrite app_nil_r.
        assert (E : existsb (fun sg => memz sg (grantees_of g (m_creator m))) (m_meta_signers m)
                    = existsb (granted g (m_creator m)) (m_meta_signers m)).
        { clear E1. induction (m_meta_signers m) as [|x l IHl].
          - reflexivity.
          - cbn [existsb]. rewrite memz_grantees_of, IHl. reflexivity. }
        rewrite E. destruct (existsb (granted g (m_creator m)) (m_meta_signers m)); cbn [andb]; [apply IH | reflexivity].
    + apply IH.
Qed.

Lemma ante_tx_sound_lemma : forall g tx, ante_tx false g tx = true ->
  forall spec m, In (spec, m) tx -> ms_has_meta spec = true ->
  exists sg, In sg (m_meta_signers m) /\ (sg = m_creator m \/ granted g (m_creator m) sg = true).
Proof.
  intros g tx H spec m Hin Hmeta. unfold ante_tx in H. rewrite ante_loop_no_carry in H.
  eapply forallb_forall in H; eauto. cbn [fst snd] in H. eapply ante_sound_lemma; eauto.
Qed.

(** If the table is carried from one message to the next, the decorator is unsound: the grant of an
    earlier creator authorises the signer of a later message of somebody else. *)
Lemma ante_carry_refuted_lemma :
  exists g tx spec m, ante_tx true g tx = true /\ In (spec, m) tx /\ ms_has_meta spec = true /\
    forall sg, In sg (m_meta_signers m) -> sg <> m_creator m /\ granted g (m_creator m) sg = false.
Proof.
  pose (sp := MkSpec "any" SignMetadata true [(creator_field, FromCreator)]).
  (* 9 granted 1 a fee allowance; 1 signs alone: first as 9's grantee, then in 7's name *)
  exists [(9, 1)], [(sp, MkMsg [1] 9 [] []); (sp, MkMsg [1] 7 [] [])], sp, (MkMsg [1] 7 [] []).
  split; [vm_compute; reflexivity|]. split; [right; left; reflexivity|]. split; [reflexivity|].
  intros sg [<-|[]]. split; [cbn; discriminate | vm_compute; reflexivity].
Qed.

Lemma handle_all_owned_changed : forall auth tx s s' p,
  handle_all auth tx s = Some s' -> get (owned s') p <> get (owned s) p ->
  exists spec m r, In (spec, m) tx /\ forallb (guard_ok auth m) (ms_rows spec) = true /\
                   In r (ms_rows spec) /\ target auth m r = Some (true, p).
Proof.
  intros auth tx. induction tx as [|[spec m] rest IH]; intros s s' p H Hch; cbn [handle_all] in H.
  - inversion H; subst. congruence.
  - destruct (forallb (guard_ok auth m) (ms_rows spec)) eqn:G; [|discriminate].
    destruct (Z.eq_dec (get (owned (apply_rows auth m (ms_rows spec) s)) p) (get (owned s) p)) as [Heq|Hne].
    + destruct (IH _ _ p H) as [spec' [m' [r [Hin [Hg [Hr HT]]]]]]; [rewrite Heq; exact Hch|].
      exists spec', m', r. repeat split; try assumption. right. exact Hin.
    + apply apply_rows_owned_changed in Hne as [r [Hr HT]].
      exists spec, m, r. repeat split; try assumption. left. reflexivity.
Qed.

Lemma tx_no_cross_principal_lemma : forall auth g tx s s',
  (forall spec m, In (spec, m) tx -> spec_ok spec = true) ->
  deliver_tx false auth g tx s = Done s' ->
  forall p, get (owned s') p <> get (owned s) p ->
  exists spec m, In (spec, m) tx /\ authorised auth g spec m p.
Proof.
  intros auth g tx s s' Hok Hd p Hch. unfold deliver_tx in Hd.
  destruct (ante_tx false g tx) eqn:A; cbn [negb] in Hd; [|discriminate].
  destruct (handle_all auth tx s) as [s1|] eqn:Hh; [|discriminate]. inversion Hd; subst s1.
  destruct (handle_all_owned_changed auth tx s s' p Hh Hch) as [spec [m [r [Hin [Hg [Hr HT]]]]]].
  exists spec, m. split; [exact Hin|].
  unfold ante_tx in A. rewrite ante_loop_no_carry in A. eapply forallb_forall in A; eauto. cbn [fst snd] in A.
  eapply row_target_authorised; eauto.
  pose proof (Hok spec m Hin) as Hs. unfold spec_ok in Hs. eapply forallb_forall in Hs; eauto.
Qed.

(** * Non-vacuity examples *)
Open Scope string_scope.

Definition ex_claim_fixed : msgspec :=
  MkSpec "skyway.MsgSendToPalomaClaim" SignMetadata true
         [(creator_field, FromCreator); ("Orchestrator", EqCreator); ("PalomaReceiver", Beneficiary)].

(** validator 7 votes through its pigeon key 8 holding a fee grant from 7: accepted, 7's state moves *)
Example ex_grantee_accepted :
  exists s', deliver 0 [(7, 8)] ex_claim_fixed (MkMsg [8] 7 [("Orchestrator", 7); ("PalomaReceiver", 5)] []) empty_state = Done s'
             /\ get (owned s') 7 = 2 /\ get (inbox s') 5 = 1 /\ get (owned s') 5 = 0.
Proof. eexists. split; [vm_compute; reflexivity|]. vm_compute. auto. Qed.

(** account 1 names validator 7 as orchestrator: rejected by the handler guard *)
Example ex_cross_principal_rejected :
  deliver 0 [] ex_claim_fixed (MkMsg [1] 1 [("Orchestrator", 7); ("PalomaReceiver", 5)] []) empty_state = RejectedGuard.
Proof. vm_compute. reflexivity. Qed.

(** account 1 claims to be creator 7 without a grant: rejected by the decorator *)
Example ex_forged_creator_rejected :
  deliver 0 [(7, 8)] ex_claim_fixed (MkMsg [1] 7 [("Orchestrator", 7); ("PalomaReceiver", 5)] []) empty_state = RejectedAnte.
Proof. vm_compute. reflexivity. Qed.

Example ex_spec_ok : spec_ok ex_claim_fixed = true.
Proof. vm_compute. reflexivity. Qed.

(** a history in which 7 authorised nothing leaves 7's state alone, although messages were accepted *)
Example ex_history :
  let ops := [([], ex_claim_fixed, MkMsg [1] 1 [("Orchestrator", 1); ("PalomaReceiver", 7)] []);
              ([], ex_claim_fixed, MkMsg [1] 1 [("Orchestrator", 7); ("PalomaReceiver", 5)] [])] in
  get (owned (run 0 ops empty_state)) 7 = 0 /\ get (owned (run 0 ops empty_state)) 1 = 2
  /\ get (inbox (run 0 ops empty_state)) 7 = 1.
Proof. vm_compute. auto. Qed.

(** * Nested transactions: every message at ANY depth is checked, or the transaction is refused *)

Lemma flat_complete : forall m lim l x, flat lim m = Some l -> occurs x m -> In x l.
Proof.
  fix IH 1. intros [y|inner] lim l x Hf Ho.
  - cbn in Hf, Ho. inversion Hf; subst. left. reflexivity.
  - cbn [flat] in Hf. destruct lim as [|lim']; [discriminate|]. cbn [occurs] in Ho.
    revert l Hf Ho. induction inner as [|h t IHt]; intros l Hf Ho.
    + destruct Ho.
    + destruct (flat lim' h) as [a|] eqn:E1; [|discriminate].
      match type of Hf with match ?G with _ => _ end = _ => destruct G as [b|] eqn:E2; [|discriminate] end.
      inversion Hf; subst. apply in_or_app. destruct Ho as [Ho|Ho].
      * left. eapply IH; eauto.
      * right. eapply IHt; eauto.
Qed.

Lemma flat_list_complete : forall ms lim l x m, flat_list lim ms = Some l -> In m ms -> occurs x m -> In x l.
Proof.
  induction ms as [|h t IH]; intros lim l x m Hf Hin Ho; [destruct Hin|].
  cbn in Hf. destruct (flat lim h) as [a|] eqn:E1; [|discriminate]. destruct (flat_list lim t) as [b|] eqn:E2; [|discriminate].
  inversion Hf; subst. apply in_or_app. destruct Hin as [->|Hin].
  - left. eapply flat_complete; eauto.
  - right. eapply IH; eauto.
Qed.

Lemma ante_nested_sound_lemma : forall lim g tx, ante_nested false lim g tx = true ->
  forall top spec m, In top tx -> occurs (spec, m) top -> ms_has_meta spec = true ->
  exists sg, In sg (m_meta_signers m) /\ (sg = m_creator m \/ granted g (m_creator m) sg = true).
Proof.
  intros lim g tx H top spec m Hin Ho Hmeta. unfold ante_nested in H.
  destruct (flat_list lim tx) as [l|] eqn:E; [|discriminate].
  eapply ante_tx_sound_lemma; eauto. eapply flat_list_complete; eauto.
Qed.

(** Beyond the limit the transaction is refused, whatever it wraps. *)
Lemma flat_wrap_beyond : forall lim d m, (lim < d)%nat -> flat lim (wrap d m) = None.
Proof.
  induction lim as [|lim IH]; intros d m Hd; (destruct d as [|d]; [inversion Hd|]); cbn.
  - reflexivity.
  - rewrite IH by lia. reflexivity.
Qed.

Lemma flat_wrap_within : forall lim d x, (d <= lim)%nat -> flat lim (wrap d (NLeaf x)) = Some [x].
Proof.
  induction lim as [|lim IH]; intros d x Hd; destruct d as [|d]; cbn; try reflexivity.
  - inversion Hd.
  - rewrite IH by lia. reflexivity.
Qed.
