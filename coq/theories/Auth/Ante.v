(** C03 — executable model of message delivery as far as *who may change whose state* goes:
    (1) the signature-authorisation ante decorator (x/paloma/ante.go,
        VerifyAuthorisedSignatureDecorator.AnteHandle) and
    (2) a message handler reduced to its identity discipline: the guards it applies to the
        identity-bearing request fields and the principals whose state it then writes.
    The per-message discipline table is generated from the Go AST (Gen/C03.v).
    Definitions only; proofs are in AnteProofs.v. *)
From Coq Require Import List ZArith String Bool.
From Paloma Require Import Auth.Discipline.
Import ListNotations.
Open Scope Z_scope.

(** Principals are abstract ids (the harness maps the 20 address bytes, whether rendered as an
    account or as a validator-operator address, to one id). *)
Definition principal := Z.

Record msg := MkMsg {
  m_meta_signers : list principal;          (* metadata.signers *)
  m_creator      : principal;               (* metadata.creator *)
  m_fields       : list (string * principal);(* other identity-bearing fields, by dotted path *)
  m_ext          : list principal           (* principals whose external-chain signature over the
                                               exact item carried by the message verifies *)
}.

(** Fee grants in the feegrant keeper: (granter, grantee). *)
Definition grants := list (principal * principal).

Definition granted (g : grants) (granter grantee : principal) : bool :=
  existsb (fun x => (fst x =? granter) && (snd x =? grantee)) g.

Fixpoint assoc (f : string) (l : list (string * principal)) : option principal :=
  match l with
  | [] => None
  | (k, v) :: r => if String.eqb k f then Some v else assoc f r
  end.

(** Value of an identity field; [auth] is the keeper's authority (gov module account). *)
Definition field (auth : principal) (m : msg) (f : string) : option principal :=
  if String.eqb f creator_field then Some (m_creator m)
  else if String.eqb f gov_field then Some auth
  else assoc f (m_fields m).

(** The addresses the SDK requires (and verifies) signatures from: trusted
    SigVerificationDecorator + cosmos.msg.v1.signer resolution. *)
Definition sdk_signers (auth : principal) (spec : msgspec) (m : msg) : list principal :=
  match ms_signer spec with
  | SignMetadata => m_meta_signers m
  | SignAuthority => match field auth m authority_field with Some a => [a] | None => [] end
  end.

(** VerifyAuthorisedSignatureDecorator, one message: skipped when the message carries no metadata;
    otherwise some metadata signer is the creator, or holds a fee grant from the creator. *)
Definition ante_msg (g : grants) (spec : msgspec) (m : msg) : bool :=
  if ms_has_meta spec then
    existsb (Z.eqb (m_creator m)) (m_meta_signers m)
    || existsb (granted g (m_creator m)) (m_meta_signers m)
  else true.

(** ** The decorator over a whole transaction.
    [tx] is the list of messages the decorator iterates over: the messages of the transaction with
    the messages nested in authz.MsgExec flattened in (the MsgExec wrapper itself carries no
    metadata and is skipped, so it is left out). The loop is written with the state it could carry
    from one iteration to the next made explicit: [lk] is the grantee lookup table. On a correct
    tree the table is declared inside the loop body ([carry = false]: it starts empty for every
    message); T extracts from the Go AST whether it is ([Gen.C03.ante_lookup_carried]). *)
Definition memz (x : Z) (l : list Z) : bool := existsb (Z.eqb x) l.

Definition grantees_of (g : grants) (granter : principal) : list principal :=
  map snd (filter (fun x => fst x =? granter) g).

Fixpoint ante_loop (carry : bool) (g : grants) (lk : list principal) (tx : list (msgspec * msg)) : bool :=
  match tx with
  | [] => true
  | (spec, m) :: r =>
    if negb (ms_has_meta spec) then ante_loop carry g lk r
    else if existsb (Z.eqb (m_creator m)) (m_meta_signers m) then ante_loop carry g lk r
    else
      let lk' := grantees_of g (m_creator m) ++ (if carry then lk else []) in
      if existsb (fun sg => memz sg lk') (m_meta_signers m) then ante_loop carry g lk' r else false
  end.

Definition ante_tx (carry : bool) (g : grants) (tx : list (msgspec * msg)) : bool := ante_loop carry g [] tx.

(** State: per principal, a version counter of everything held in its name ([owned]) and of what
    it has merely been given ([inbox]: funds, a licence, an admin role handed over). *)
Record state := MkState { owned : list (principal * Z); inbox : list (principal * Z) }.

Fixpoint get (l : list (principal * Z)) (p : principal) : Z :=
  match l with
  | [] => 0
  | (k, v) :: r => if k =? p then v else get r p
  end.

Definition bump (l : list (principal * Z)) (p : principal) : list (principal * Z) :=
  (p, get l p + 1) :: l.

Definition empty_state : state := MkState [] [].

(** Guard the handler applies for one table row. A row whose field the message does not carry
    cannot be evaluated: reject (only for disciplines that read the field). *)
Definition guard_ok (auth : principal) (m : msg) (r : string * discipline) : bool :=
  match snd r, field auth m (fst r) with
  | (Unused | StateDerived), _ => true
  | _, None => false
  | EqCreator, Some v => v =? m_creator m
  | EqAuthority, Some v => v =? auth
  | ExternallySigned, Some v => existsb (Z.eqb v) (m_ext m)
  | _, Some _ => true
  end.

(** Whose state the row lets the handler write: [(true, p)] = state held in p's name,
    [(false, p)] = p only receives. *)
Definition target (auth : principal) (m : msg) (r : string * discipline) : option (bool * principal) :=
  match snd r, field auth m (fst r) with
  | (FromCreator | EqCreator | EqAuthority | ExternallySigned | Unguarded), Some v => Some (true, v)
  | Beneficiary, Some v => Some (false, v)
  | _, _ => None
  end.

Definition write (s : state) (t : option (bool * principal)) : state :=
  match t with
  | Some (true, p) => MkState (bump (owned s) p) (inbox s)
  | Some (false, p) => MkState (owned s) (bump (inbox s) p)
  | None => s
  end.

Definition apply_rows (auth : principal) (m : msg) (rows : list (string * discipline)) (s : state) : state :=
  fold_left (fun s r => write s (target auth m r)) rows s.

Inductive outcome := Done (s : state) | RejectedAnte | RejectedGuard.

(** deliver = ante decorator ;; handler (guards first, then the writes), all-or-nothing as in
    baseapp (cache context committed on success only). *)
Definition deliver (auth : principal) (g : grants) (spec : msgspec) (m : msg) (s : state) : outcome :=
  if negb (ante_msg g spec m) then RejectedAnte
  else if negb (forallb (guard_ok auth m) (ms_rows spec)) then RejectedGuard
  else Done (apply_rows auth m (ms_rows spec) s).

Definition state_after (o : outcome) (s : state) : state :=
  match o with Done s' => s' | _ => s end.

(** Delivery of a transaction: the decorator over all its messages, then the handlers one after
    the other; all-or-nothing (baseapp's runMsgs on a cache context). *)
Fixpoint handle_all (auth : principal) (tx : list (msgspec * msg)) (s : state) : option state :=
  match tx with
  | [] => Some s
  | (spec, m) :: r =>
    if forallb (guard_ok auth m) (ms_rows spec)
    then handle_all auth r (apply_rows auth m (ms_rows spec) s)
    else None
  end.

Definition deliver_tx (carry : bool) (auth : principal) (g : grants) (tx : list (msgspec * msg)) (s : state) : outcome :=
  if negb (ante_tx carry g tx) then RejectedAnte
  else match handle_all auth tx s with Some s' => Done s' | None => RejectedGuard end.

(** A history: each step has its own grant set (grants change over time), message type and message. *)
Definition op := (grants * msgspec * msg)%type.

Definition step (auth : principal) (s : state) (o : op) : state :=
  let '(g, spec, m) := o in state_after (deliver auth g spec m s) s.

Definition run (auth : principal) (ops : list op) (s : state) : state := fold_left (step auth) ops s.

(** A principal [p] authorised the delivery of [m]:
    - it is the creator, and a verified tx signer is the creator or a fee-grantee of the creator; or
    - it is the authority and the SDK verified the authority's own signature; or
    - the message carries p's external-chain signature over the exact item. *)
Definition authorised (auth : principal) (g : grants) (spec : msgspec) (m : msg) (p : principal) : Prop :=
  (p = m_creator m /\ ms_has_meta spec = true /\ ms_signer spec = SignMetadata /\
     exists sg, In sg (sdk_signers auth spec m) /\ (sg = m_creator m \/ granted g (m_creator m) sg = true))
  \/ (p = auth /\ ms_signer spec = SignAuthority /\ In auth (sdk_signers auth spec m))
  \/ In p (m_ext m).

Definition is_sign_metadata (spec : msgspec) : bool :=
  match ms_signer spec with SignMetadata => true | SignAuthority => false end.

Definition has_row (spec : msgspec) (f : string) (d : discipline) : bool :=
  existsb (fun r => String.eqb (fst r) f && discipline_eqb (snd r) d) (ms_rows spec).

(** Table side conditions: what makes a row sound for the message type it belongs to. *)
Definition row_ok (spec : msgspec) (r : string * discipline) : bool :=
  match snd r with
  | Unguarded => false
  | FromCreator => String.eqb (fst r) creator_field && ms_has_meta spec && is_sign_metadata spec
  | EqCreator => ms_has_meta spec && is_sign_metadata spec
  | EqAuthority =>
      if is_sign_metadata spec
      then ms_has_meta spec && has_row spec creator_field EqAuthority
      else has_row spec authority_field EqAuthority
  | ExternallySigned | Beneficiary | StateDerived | Unused => true
  end.

Definition spec_ok (spec : msgspec) : bool := forallb (row_ok spec) (ms_rows spec).

Definition has_unguarded (spec : msgspec) : bool :=
  existsb (fun r => discipline_eqb (snd r) Unguarded) (ms_rows spec).

Definition spec_named (names : list string) (spec : msgspec) : bool :=
  existsb (String.eqb (ms_name spec)) names.

(** ** Nested transactions (x/authz MsgExec), all depths.
    A transaction is a forest: a leaf is a Paloma message, [NExec] an authz.MsgExec with the messages
    it wraps. [flat lim] is flattenMsgs (x/paloma/ante.go) with [lim] = maxNestedMsgDepth levels of
    descent allowed: descending once more REFUSES the transaction ([None]); nothing is ever skipped.
    (The MsgExec wrappers themselves carry no metadata and are left out.) *)
Inductive nmsg := NLeaf (x : msgspec * msg) | NExec (inner : list nmsg).

Fixpoint flat (lim : nat) (m : nmsg) {struct m} : option (list (msgspec * msg)) :=
  match m with
  | NLeaf x => Some [x]
  | NExec inner =>
    match lim with
    | O => None
    | S l =>
      (fix go (ms : list nmsg) : option (list (msgspec * msg)) :=
         match ms with
         | [] => Some []
         | h :: t => match flat l h, go t with
                     | Some a, Some b => Some (a ++ b)
                     | _, _ => None
                     end
         end) inner
    end
  end.

Fixpoint flat_list (lim : nat) (ms : list nmsg) : option (list (msgspec * msg)) :=
  match ms with
  | [] => Some []
  | h :: t => match flat lim h, flat_list lim t with
              | Some a, Some b => Some (a ++ b)
              | _, _ => None
              end
  end.

(** x occurs somewhere in the forest, at whatever depth *)
Fixpoint occurs (x : msgspec * msg) (m : nmsg) {struct m} : Prop :=
  match m with
  | NLeaf y => x = y
  | NExec inner => (fix any (ms : list nmsg) : Prop := match ms with [] => False | h :: t => occurs x h \/ any t end) inner
  end.

Definition ante_nested (carry : bool) (lim : nat) (g : grants) (tx : list nmsg) : bool :=
  match flat_list lim tx with
  | None => false
  | Some l => ante_tx carry g l
  end.

Fixpoint wrap (depth : nat) (m : nmsg) : nmsg :=
  match depth with O => m | S d => NExec [wrap d m] end.
