(** C03 — vocabulary shared by the generated handler identity-field table (Gen/C03.v) and the
    model (Auth/Ante.v).  Definitions only. *)
From Coq Require Import List ZArith String Bool.
Import ListNotations.

(** What a message handler does with an identity-bearing request field before state keyed by the
    principal the field names is touched. *)
Inductive discipline :=
| FromCreator       (* the field IS metadata.creator: the acting principal is derived from it *)
| EqCreator         (* a guard `field == creator-derived address` (else error) dominates every use *)
| EqAuthority       (* a guard `field == keeper authority` (else error) dominates every use *)
| ExternallySigned  (* a signature of the named principal over the exact item is verified first *)
| Beneficiary       (* reviewed: the named account only receives (tables/c03_fields.json) *)
| StateDerived      (* reviewed: effect is a function of existing state only, never alters an entry *)
| Unused            (* the handler never reads the field and the message does not escape whole *)
| Unguarded.        (* the field selects whose state changes and nothing binds it to the signer *)

(** Which field the SDK resolves tx signers from (cosmos.msg.v1.signer option of the message). *)
Inductive signer_kind := SignMetadata | SignAuthority.

Record msgspec := MkSpec {
  ms_name   : string;                       (* "<module>.<MsgType>" *)
  ms_signer : signer_kind;
  ms_has_meta : bool;                       (* implements MsgWithMetadata => decorator applies *)
  ms_rows   : list (string * discipline)    (* identity field (dotted path) -> discipline *)
}.

Definition discipline_eqb (a b : discipline) : bool :=
  match a, b with
  | FromCreator, FromCreator | EqCreator, EqCreator | EqAuthority, EqAuthority
  | ExternallySigned, ExternallySigned | Beneficiary, Beneficiary | StateDerived, StateDerived
  | Unused, Unused | Unguarded, Unguarded => true
  | _, _ => false
  end.

Definition creator_field : string := "Metadata.Creator".
Definition authority_field : string := "Authority".
(** Pseudo field: the handler writes governance-held state that no request field selects. *)
Definition gov_field : string := "<gov>".
