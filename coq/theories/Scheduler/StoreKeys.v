(** C17 — the key families of the scheduler module's KV store.

    A job record lives under the raw key  job_record_prefix ++ id  (prefix.NewStore over the module
    store; the id is the submitted string, Gen.C17.job_id_keys).  Every other family the module can
    write uses one of Gen.C17.other_key_prefixes followed by anything.  Two families  a ++ _  and
    b ++ _  can share a key iff one of a, b is a prefix of the other; [prefix_disjoint a b] decides
    that neither is.  The statement is over ALL strings (ids and key remainders), not sampled. *)
From Coq Require Import String Ascii List Bool.
From Paloma Require Gen.C17.
Import ListNotations.
Local Open Scope string_scope.

Fixpoint prefix_disjoint (a b : string) : bool :=
  match a, b with
  | String c a', String d b' => if Ascii.eqb c d then prefix_disjoint a' b' else true
  | _, _ => false
  end.

Lemma prefix_disjoint_sound a : forall b, prefix_disjoint a b = true -> forall x y, a ++ x <> b ++ y.
Proof.
  induction a as [|c a IH]; intros b H x y; [discriminate|].
  destruct b as [|d b]; [discriminate|]. cbn in H. cbn.
  destruct (Ascii.eqb c d) eqn:E.
  - intros K. inversion K. eapply IH; eauto.
  - intros K. inversion K. subst. rewrite Ascii.eqb_refl in E. discriminate.
Qed.

Lemma append_nil_r (s : string) : s ++ "" = s.
Proof. induction s as [|c s IH]; cbn; [reflexivity | now rewrite IH]. Qed.

(** and it is complete: when the check fails, the two families do share keys *)
Lemma prefix_disjoint_complete a : forall b, prefix_disjoint a b = false -> exists x y, a ++ x = b ++ y.
Proof.
  induction a as [|c a IH]; intros b H.
  - exists b, "". cbn. now rewrite append_nil_r.
  - destruct b as [|d b].
    + exists "", (String c a). cbn. now rewrite append_nil_r.
    + cbn in H. destruct (Ascii.eqb c d) eqn:E; [|discriminate].
      apply Ascii.eqb_eq in E. subst d. destruct (IH b H) as (x & y & K). exists x, y. cbn. now rewrite K.
Qed.

Definition job_key (id : string) : string := Gen.C17.job_record_prefix ++ id.

(** the generated table: the job-record prefix against every other prefix of the module *)
Lemma table_disjoint :
  forallb (prefix_disjoint Gen.C17.job_record_prefix) Gen.C17.other_key_prefixes = true.
Proof. vm_compute. reflexivity. Qed.

Theorem job_record_keys_prefix_free :
  forall p, In p Gen.C17.other_key_prefixes -> forall id k, job_key id <> p ++ k.
Proof.
  intros p Hin id k. pose proof table_disjoint as T. rewrite forallb_forall in T.
  apply prefix_disjoint_sound. now apply T.
Qed.

(** job records of different ids never share a key either *)
Theorem job_key_injective : forall id1 id2, job_key id1 = job_key id2 -> id1 = id2.
Proof.
  unfold job_key. generalize Gen.C17.job_record_prefix as p.
  induction p as [|c p IH]; cbn; intros id1 id2 H; [exact H|]. inversion H. now apply IH.
Qed.

(** what the check says about the prefix the seeded change C17-F introduced *)
Example counter_prefix_would_collide :
  prefix_disjoint "jobs" "jobs-runs-" = false /\ "jobs" ++ "-runs-sweep" = "jobs-runs-" ++ "sweep".
Proof. split; reflexivity. Qed.
