(** C17 — scheduler jobs: executable model of

      x/scheduler/keeper/keeper.go            AddNewJob, saveJob, ExecuteJob, ScheduleNow
      x/scheduler/keeper/msg_server_*.go      CreateJob (owner := creator), ExecuteJob (sender := creator's account)
      x/scheduler/bindings/msg_plugin.go      customMessenger.executeJob (contract callers; payload wrapped as {"hexPayload":"<hex>"})
      x/evm/keeper/scheduler_job.go           unmarshalJob, ExecuteJob, injectSenderIntoPayload, zeroPadBytes
      x/evm/keeper/smart_contract_deployment.go  AddSmartContractExecutionToConsensus

    Definitions only; proofs are in JobsProofs.v.

    Conventions.  Byte strings are [list Z] (values 0..255).  Go's encoding/json is glue: the two
    decoders ([dec_def]: job definition -> (ABI string, contract address string); [dec_pay]:
    payload -> hexPayload string) are PARAMETERS of the model, nothing is assumed about them.
    What the EVM keeper does with the decoded strings (hex validation, common.FromHex, the 32-byte
    sender suffix) is modelled exactly.  Relayer selection (C14) and the just-in-time valset update
    of PreJobExecution (C10) are inputs of the execute operation: [x_pick] is the observed result of
    PickValidatorForMessage (Some assignee | None = error), [x_pre] says whether the hook put a
    valset update into the chain's queue. *)
From Coq Require Import List ZArith Bool Lia.
From Paloma Require Import Base.Corr.
From Paloma Require Gen.C17.
Import ListNotations.
Open Scope Z_scope.

Definition bytes := list Z.
Definition bytes_eqb (a b : bytes) : bool := list_eqb Z.eqb a b.

(** ** Hex strings (go-ethereum common.FromHex and the strict validation in unmarshalJob) *)

Definition hexval (c : Z) : option Z :=
  if (48 <=? c) && (c <=? 57) then Some (c - 48)
  else if (97 <=? c) && (c <=? 102) then Some (c - 87)
  else if (65 <=? c) && (c <=? 70) then Some (c - 55)
  else None.

(** has0xPrefix: "0x" / "0X" *)
Definition strip0x (s : bytes) : bytes :=
  match s with
  | a :: x :: r => if (a =? 48) && ((x =? 120) || (x =? 88)) then r else s
  | _ => s
  end.

(** odd length: a "0" is put in front *)
Definition even_pad (s : bytes) : bytes := if Nat.even (length s) then s else 48 :: s.

(** encoding/hex.DecodeString, strict: every pair must be two hex digits *)
Fixpoint hex_pairs (s : bytes) : option bytes :=
  match s with
  | [] => Some []
  | a :: b :: r =>
      match hexval a, hexval b, hex_pairs r with
      | Some x, Some y, Some t => Some (16 * x + y :: t)
      | _, _, _ => None
      end
  | [_] => None
  end.

(** Hex2Bytes ignores the error of hex.DecodeString, which returns the bytes decoded before the
    first bad pair: the lenient decoder silently truncates. *)
Fixpoint hex_pairs_lenient (s : bytes) : bytes :=
  match s with
  | a :: b :: r =>
      match hexval a, hexval b with
      | Some x, Some y => 16 * x + y :: hex_pairs_lenient r
      | _, _ => []
      end
  | _ => []
  end.

Definition from_hex (s : bytes) : option bytes := hex_pairs (even_pad (strip0x s)).
Definition from_hex_lenient (s : bytes) : bytes := hex_pairs_lenient (even_pad (strip0x s)).

Definition hexdigit (n : Z) : Z := if n <? 10 then 48 + n else 87 + n.
(** encoding/hex.EncodeToString *)
Definition hex_encode (b : bytes) : bytes := flat_map (fun x => [hexdigit (x / 16); hexdigit (x mod 16)]) b.

(** fmt.Sprintf("{\"hexPayload\":\"%s\"}", hex) of the wasm bindings *)
Definition wrap_prefix : bytes := [123; 34; 104; 101; 120; 80; 97; 121; 108; 111; 97; 100; 34; 58; 34].
Definition wrap_suffix : bytes := [34; 125].
Definition wasm_wrap (raw : bytes) : bytes := wrap_prefix ++ hex_encode raw ++ wrap_suffix.

(** ** zeroPadBytes(input, 32): left-pad with zeros, error above the size *)
Definition pad_size : Z := Gen.C17.sender_pad_size.
Definition pad32 (b : bytes) : option bytes :=
  if Z.of_nat (length b) <=? pad_size
  then Some (repeat 0 (Z.to_nat pad_size - length b) ++ b)
  else None.

(** ** Jobs, queue messages, state *)

Record job := mkJob {
  j_id : bytes;
  j_owner : bytes;
  j_ctype : bytes;      (* Routing.ChainType *)
  j_cref : bytes;       (* Routing.ChainReferenceID *)
  j_def : bytes;        (* Definition (JSON) *)
  j_payload : bytes;    (* Payload (JSON) *)
  j_modifiable : bool;  (* IsPayloadModifiable *)
  j_mev : bool          (* EnforceMEVRelay *)
}.

Definition job_eqb (a b : job) : bool :=
  bytes_eqb (j_id a) (j_id b) && bytes_eqb (j_owner a) (j_owner b) &&
  bytes_eqb (j_ctype a) (j_ctype b) && bytes_eqb (j_cref a) (j_cref b) &&
  bytes_eqb (j_def a) (j_def b) && bytes_eqb (j_payload a) (j_payload b) &&
  Bool.eqb (j_modifiable a) (j_modifiable b) && Bool.eqb (j_mev a) (j_mev b).

(** the SubmitLogicCall message that lands in the chain's turnstone queue *)
Record call := mkCall {
  c_chain : bytes;              (* Message.ChainReferenceID = the queue's chain *)
  c_turnstone : bytes;          (* Message.TurnstoneID *)
  c_contract : bytes;           (* HexContractAddress *)
  c_abi : bytes;                (* Abi *)
  c_payload : bytes;            (* Payload *)
  c_sender : option bytes;      (* SenderAddress (nil = None) *)
  c_contractaddr : option bytes;(* ContractAddress *)
  c_mev : bool;                 (* ExecutionRequirements.EnforceMEVRelay *)
  c_assignee : Z                (* Assignee, as picked *)
}.

Inductive qmsg :=
| QValset (chain : bytes)       (* a validator-set update for that chain *)
| QCall (c : call).

Record state := mkState {
  chains : list (bytes * bytes);   (* registered EVM chains: reference id -> smart contract unique id *)
  jobs : list job;                 (* job store, in creation order *)
  queue : list qmsg                (* everything ever put into turnstone queues, oldest first *)
}.

Definition init (chs : list (bytes * bytes)) : state := mkState chs [] [].

Inductive err :=
| ERejected       (* creation refused: duplicate id, empty owner, ValidateBasic, unsupported chain type, VerifyJob *)
| ENotFound | ECannotModify | EBadJSON | EBadHex | ENoChain | EPad | EPick
| EWasmInvalid.   (* bindings: empty job id / empty payload *)

Inductive result := Ok | Err (e : err).

Definition err_eqb (a b : err) : bool :=
  match a, b with
  | ERejected, ERejected | ENotFound, ENotFound | ECannotModify, ECannotModify
  | EBadJSON, EBadJSON | EBadHex, EBadHex | ENoChain, ENoChain | EPad, EPad | EPick, EPick
  | EWasmInvalid, EWasmInvalid => true
  | _, _ => false
  end.
Definition result_eqb (a b : result) : bool :=
  match a, b with Ok, Ok => true | Err x, Err y => err_eqb x y | _, _ => false end.

Definition find_job (js : list job) (id : bytes) : option job :=
  find (fun j => bytes_eqb (j_id j) id) js.
Definition job_at (s : state) (id : bytes) : option job := find_job (jobs s) id.

Fixpoint chain_info (chs : list (bytes * bytes)) (c : bytes) : option bytes :=
  match chs with
  | [] => None
  | (k, v) :: r => if bytes_eqb k c then Some v else chain_info r c
  end.

Definition evm_type : bytes := [101; 118; 109].  (* "evm", the only bridge in Keeper.Chains *)

Definition nonempty (o : option bytes) : bool :=
  match o with Some (_ :: _) => true | _ => false end.

(** execute request, with the environment's answers *)
Record exec_in := mkExec {
  x_id : bytes;
  x_in : option bytes;         (* supplied payload; None = nil *)
  x_sender : option bytes;     (* senderAddress; None = nil *)
  x_contract : option bytes;   (* contractAddr; None = nil *)
  x_pre : bool;                (* PreJobExecution enqueued a valset update for the job's chain *)
  x_pick : option Z;           (* PickValidatorForMessage: Some assignee | None (error) *)
  x_atomic : bool              (* delivered as a transaction / sub-message: state kept only on success *)
}.

Inductive op :=
| OCreate (j : job) (vb : bool)   (* j carries the owner (= creator); vb = Job.ValidateBasic() passed *)
| OExec (x : exec_in)             (* keeper ExecuteJob (msg server: sender = creator account, contract = nil) *)
| OWasmExec (id raw : bytes) (caddr : bytes) (pre : bool) (pick : option Z) (atomic : bool)  (* bindings executeJob *)
| OLegacyExec (id raw : bytes) (caddr : bytes) (pre : bool) (pick : option Z) (atomic : bool). (* legacy messenger *)

Section Model.
  Variable dec_def : bytes -> option (bytes * bytes).   (* definition JSON -> (ABI, address) *)
  Variable dec_pay : bytes -> option bytes.             (* payload JSON -> hexPayload *)

  (** VerifyJob = unmarshalJob: both JSON documents decode and the hexPayload is valid hex *)
  Definition verify_job (def pay : bytes) : bool :=
    match dec_def def, dec_pay pay with
    | Some _, Some hx => match from_hex hx with Some _ => true | None => false end
    | _, _ => false
    end.

  (** AddNewJob *)
  Definition create (s : state) (j : job) (vb : bool) : state * result :=
    if existsb (fun k => bytes_eqb (j_id k) (j_id j)) (jobs s) then (s, Err ERejected)
    else if match j_owner j with [] => true | _ => false end then (s, Err ERejected)
    else if negb vb then (s, Err ERejected)
    else if negb (bytes_eqb (j_ctype j) evm_type) then (s, Err ERejected)
    else if negb (verify_job (j_def j) (j_payload j)) then (s, Err ERejected)
    else (mkState (chains s) (jobs s ++ [j]) (queue s), Ok).

  Definition enqueue (s : state) (m : qmsg) : state := mkState (chains s) (jobs s) (queue s ++ [m]).

  (** the address whose bytes become the suffix: the sender if present, else the contract *)
  Definition caller_of (sender contract : option bytes) : bytes :=
    match sender with
    | Some a => a
    | None => match contract with Some c => c | None => [] end
    end.

  (** ScheduleNow's choice of payload *)
  Definition base_payload (j : job) (supplied : option bytes) : bytes :=
    if j_modifiable j then match supplied with Some p => p | None => j_payload j end
    else j_payload j.

  (** keeper.ExecuteJob = PreJobExecution ; ScheduleNow ; evm ExecuteJob ; AddSmartContractExecutionToConsensus,
      not wrapped in a cache context *)
  Definition exec_raw (s : state) (x : exec_in) : state * result :=
    match job_at s (x_id x) with
    | None => (s, Err ENotFound)
    | Some j =>
      let s1 := if x_pre x then enqueue s (QValset (j_cref j)) else s in
      if nonempty (x_in x) && negb (j_modifiable j) then (s1, Err ECannotModify) else
      let base := base_payload j (x_in x) in
      match dec_def (j_def j) with
      | None => (s1, Err EBadJSON)
      | Some (abi, addr) =>
        match dec_pay base with
        | None => (s1, Err EBadJSON)
        | Some hx =>
          match from_hex hx with
          | None => (s1, Err EBadHex)
          | Some _ =>
            match chain_info (chains s) (j_cref j) with
            | None => (s1, Err ENoChain)
            | Some ts =>
              match pad32 (caller_of (x_sender x) (x_contract x)) with
              | None => (s1, Err EPad)
              | Some suffix =>
                match x_pick x with
                | None => (s1, Err EPick)
                | Some a =>
                  (enqueue s1 (QCall (mkCall (j_cref j) ts addr (from_hex_lenient abi)
                                             (from_hex_lenient hx ++ suffix)
                                             (x_sender x) (x_contract x) (j_mev j) a)), Ok)
                end
              end
            end
          end
        end
      end
    end.

  (** transaction semantics (SDK, trusted): a failed delivery leaves no trace *)
  Definition exec (s : state) (x : exec_in) : state * result :=
    match exec_raw s x with
    | (s', Ok) => (s', Ok)
    | (s', Err e) => (if x_atomic x then s else s', Err e)
    end.

  (** customMessenger.executeJob *)
  Definition wasm_exec (s : state) (id raw caddr : bytes) (pre : bool) (pick : option Z) (atomic : bool) : state * result :=
    match id, raw with
    | [], _ | _, [] => (s, Err EWasmInvalid)
    | _, _ => exec s (mkExec id (Some (wasm_wrap raw)) (Some caddr) (Some caddr) pre pick atomic)
    end.

  (** customLegacyMessenger.DispatchMsg: the payload is wrapped BEFORE executeJobWasmEvent.valid()
      looks at it, so only an empty job id is refused there *)
  Definition legacy_exec (s : state) (id raw caddr : bytes) (pre : bool) (pick : option Z) (atomic : bool) : state * result :=
    match id with
    | [] => (s, Err EWasmInvalid)
    | _ => exec s (mkExec id (Some (wasm_wrap raw)) (Some caddr) (Some caddr) pre pick atomic)
    end.

  Definition step_res (s : state) (o : op) : state * result :=
    match o with
    | OCreate j vb => create s j vb
    | OExec x => exec s x
    | OWasmExec id raw caddr pre pick atm => wasm_exec s id raw caddr pre pick atm
    | OLegacyExec id raw caddr pre pick atm => legacy_exec s id raw caddr pre pick atm
    end.

  Definition step (s : state) (o : op) : state := fst (step_res s o).
  Definition run_from (s : state) (ops : list op) : state := fold_left step ops s.
  Definition run (chs : list (bytes * bytes)) (ops : list op) : state := run_from (init chs) ops.
End Model.

(** the logic calls among queue messages *)
Fixpoint calls_of (q : list qmsg) : list call :=
  match q with
  | [] => []
  | QCall c :: r => c :: calls_of r
  | QValset _ :: r => calls_of r
  end.
