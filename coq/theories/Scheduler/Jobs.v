(** C17 — scheduler jobs: executable model of

      x/scheduler/keeper/keeper.go            AddNewJob, saveJob, ExecuteJob, ScheduleNow
      x/scheduler/keeper/msg_server_*.go      CreateJob (owner := creator), ExecuteJob (sender := creator's account)
      x/scheduler/bindings/msg_plugin.go      customMessenger.executeJob (contract callers; payload wrapped as {"hexPayload":"<hex>"})
      x/evm/keeper/scheduler_job.go           unmarshalJob, ExecuteJob, injectSenderIntoPayload, zeroPadBytes
      x/evm/keeper/smart_contract_deployment.go  AddSmartContractExecutionToConsensus

    Definitions only; proofs are in JobsProofs.v.

    Conventions.  Byte strings are [list Z] (values 0..255).  Go's encoding/json is glue: the two
    decoders ([dec_def]: job definition -> (ABI string, contract address string); [dec_pay]:
    payload -> hexPayload string) are PARAMETERS of the model, nothing is assumed about them.
    What the EVM keeper does with the decoded strings (hex validation, common.FromHex, the 32-byte
    sender suffix) is modelled exactly.  Relayer selection (C14) is an input of the execute
    operation: [x_pick] is the observed result of PickValidatorForMessage (Some assignee | None =
    error).  The just-in-time valset update of PreJobExecution is modelled from the point where it
    calls msgSender.SendValsetMsgForChain: [x_pre = Some vid] says that the hook got that far (chain
    known and active, a current snapshot with id [vid] that is not the one published on the chain,
    enough power, a relayer picked -- valset / C10 / C14 facts, inputs); what SendValsetMsgForChain
    then does to the chain's turnstone queue (stop at a foreign turnstone id, stop at an update with
    the same valset id, delete every other update, append the new one) is modelled exactly
    ([send_valset]).  [queue] is the LIVE content of the turnstone queues of all chains in the order
    of the consensus keeper's global message counter.

    Entry points (the translator pins that there are no others, Gen.C17.entry_points): the msg
    server ([OCreate] with owner = creator, [OMsgExec]), the wasm bindings behind the libwasm router
    ([OCreate] with owner = contract, [OWasmExec], [OLegacyExec]), keeper-level calls ([OExec]: no
    caller outside these files).  Environment: [OPublish] (the snapshot listener's
    PublishValsetToChain, the other caller of SendValsetMsgForChain), [OGenesisRoundTrip]
    (scheduler ExportGenesis ; empty store ; InitGenesis: the genesis state carries no jobs),
    [OBlock] (scheduler Begin/EndBlocker: empty bodies). *)
From Coq Require Import List ZArith Bool Lia.
From Paloma Require Import Base.Corr.
From Paloma Require Gen.C17.
Import ListNotations.
Open Scope Z_scope.

Definition bytes := list Z.
Definition bytes_eqb (a b : bytes) : bool := list_eqb Z.eqb a b.

(** ** Hex strings (go-ethereum common.FromHex and the strict validation in unmarshalJob) *)

Definition hexval (c : Z) : option Z :=
  if (48 <=? c) && (c <=? 57) then Some (c - 48)
  else if (97 <=? c) && (c <=? 102) then Some (c - 87)
  else if (65 <=? c) && (c <=? 70) then Some (c - 55)
  else None.

(** has0xPrefix: "0x" / "0X" *)
Definition strip0x (s : bytes) : bytes :=
  match s with
  | a :: x :: r => if (a =? 48) && ((x =? 120) || (x =? 88)) then r else s
  | _ => s
  end.

(** odd length: a "0" is put in front *)
Definition even_pad (s : bytes) : bytes := if Nat.even (length s) then s else 48 :: s.

(** encoding/hex.DecodeString, strict: every pair must be two hex digits *)
Fixpoint hex_pairs (s : bytes) : option bytes :=
  match s with
  | [] => Some []
  | a :: b :: r =>
      match hexval a, hexval b, hex_pairs r with
      | Some x, Some y, Some t => Some (16 * x + y :: t)
      | _, _, _ => None
      end
  | [_] => None
  end.

(** Hex2Bytes ignores the error of hex.DecodeString, which returns the bytes decoded before the
    first bad pair: the lenient decoder silently truncates. *)
Fixpoint hex_pairs_lenient (s : bytes) : bytes :=
  match s with
  | a :: b :: r =>
      match hexval a, hexval b with
      | Some x, Some y => 16 * x + y :: hex_pairs_lenient r
      | _, _ => []
      end
  | _ => []
  end.

Definition from_hex (s : bytes) : option bytes := hex_pairs (even_pad (strip0x s)).
Definition from_hex_lenient (s : bytes) : bytes := hex_pairs_lenient (even_pad (strip0x s)).

Definition hexdigit (n : Z) : Z := if n <? 10 then 48 + n else 87 + n.
(** encoding/hex.EncodeToString *)
Definition hex_encode (b : bytes) : bytes := flat_map (fun x => [hexdigit (x / 16); hexdigit (x mod 16)]) b.

(** fmt.Sprintf("{\"hexPayload\":\"%s\"}", hex) of the wasm bindings *)
Definition wrap_prefix : bytes := [123; 34; 104; 101; 120; 80; 97; 121; 108; 111; 97; 100; 34; 58; 34].
Definition wrap_suffix : bytes := [34; 125].
Definition wasm_wrap (raw : bytes) : bytes := wrap_prefix ++ hex_encode raw ++ wrap_suffix.

(** ** zeroPadBytes(input, 32): left-pad with zeros, error above the size *)
Definition pad_size : Z := Gen.C17.sender_pad_size.
Definition pad32 (b : bytes) : option bytes :=
  if Z.of_nat (length b) <=? pad_size
  then Some (repeat 0 (Z.to_nat pad_size - length b) ++ b)
  else None.

(** ** Jobs, queue messages, state *)

Record job := mkJob {
  j_id : bytes;
  j_owner : bytes;
  j_ctype : bytes;      (* Routing.ChainType *)
  j_cref : bytes;       (* Routing.ChainReferenceID *)
  j_def : bytes;        (* Definition (JSON) *)
  j_payload : bytes;    (* Payload (JSON) *)
  j_modifiable : bool;  (* IsPayloadModifiable *)
  j_mev : bool          (* EnforceMEVRelay *)
}.

Definition job_eqb (a b : job) : bool :=
  bytes_eqb (j_id a) (j_id b) && bytes_eqb (j_owner a) (j_owner b) &&
  bytes_eqb (j_ctype a) (j_ctype b) && bytes_eqb (j_cref a) (j_cref b) &&
  bytes_eqb (j_def a) (j_def b) && bytes_eqb (j_payload a) (j_payload b) &&
  Bool.eqb (j_modifiable a) (j_modifiable b) && Bool.eqb (j_mev a) (j_mev b).

(** the SubmitLogicCall message that lands in the chain's turnstone queue *)
Record call := mkCall {
  c_chain : bytes;              (* Message.ChainReferenceID = the queue's chain *)
  c_turnstone : bytes;          (* Message.TurnstoneID *)
  c_contract : bytes;           (* HexContractAddress *)
  c_abi : bytes;                (* Abi *)
  c_payload : bytes;            (* Payload *)
  c_sender : option bytes;      (* SenderAddress (nil = None) *)
  c_contractaddr : option bytes;(* ContractAddress *)
  c_mev : bool;                 (* ExecutionRequirements.EnforceMEVRelay *)
  c_assignee : Z                (* Assignee, as picked *)
}.

Inductive qmsg :=
| QValset (chain ts : bytes) (vid : Z)  (* a validator-set update in that chain's queue: Message.TurnstoneID, Valset.ValsetID *)
| QCall (c : call).

Definition q_chain (m : qmsg) : bytes := match m with QValset c _ _ => c | QCall c => c_chain c end.
Definition q_ts (m : qmsg) : bytes := match m with QValset _ t _ => t | QCall c => c_turnstone c end.
Definition is_valset_of (c : bytes) (m : qmsg) : bool :=
  match m with QValset c' _ _ => bytes_eqb c' c | QCall _ => false end.
Definition is_valset_vid (c : bytes) (v : Z) (m : qmsg) : bool :=
  match m with QValset c' _ v' => bytes_eqb c' c && (v' =? v) | QCall _ => false end.
(** the queue without the valset updates of chain [c]; whether an update of [c] with id [v] is queued *)
Definition drop_valsets (c : bytes) (q : list qmsg) : list qmsg := filter (fun m => negb (is_valset_of c m)) q.
Definition has_valset (c : bytes) (v : Z) (q : list qmsg) : bool := existsb (is_valset_vid c v) q.

(** msgSender.SendValsetMsgForChain(chainInfo, valset): walk the messages of the chain's queue,
    oldest first.  A message with another turnstone id: return nil (nothing is appended; deletions
    made so far stay).  An UpdateValset with the same valset id: return nil.  Any other
    UpdateValset: DeleteJob.  Other messages are skipped.  After the loop the new update is put.
    The boolean of [send_scan] says whether the loop ran to its end. *)
Fixpoint send_scan (c ts : bytes) (v : Z) (q : list qmsg) : list qmsg * bool :=
  match q with
  | [] => ([], true)
  | m :: r =>
      if negb (bytes_eqb (q_chain m) c) then let (r', b) := send_scan c ts v r in (m :: r', b)
      else if negb (bytes_eqb (q_ts m) ts) then (m :: r, false)
      else match m with
           | QValset _ _ v' => if v' =? v then (m :: r, false) else send_scan c ts v r
           | QCall _ => let (r', b) := send_scan c ts v r in (m :: r', b)
           end
  end.
Definition send_valset (c ts : bytes) (v : Z) (q : list qmsg) : list qmsg :=
  let (q', b) := send_scan c ts v q in if b then q' ++ [QValset c ts v] else q'.

Record state := mkState {
  chains : list (bytes * bytes);   (* registered EVM chains: reference id -> smart contract unique id *)
  jobs : list job;                 (* job store, in creation order *)
  queue : list qmsg                (* live content of the turnstone queues, oldest first *)
}.

Definition init (chs : list (bytes * bytes)) : state := mkState chs [] [].

Inductive err :=
| ERejected       (* creation refused: duplicate id, empty owner, ValidateBasic, unsupported chain type, VerifyJob *)
| ENotFound | ECannotModify | EBadJSON | EBadHex | ENoChain | EPad | EPick
| EWasmInvalid    (* bindings: empty job id / empty payload *)
| EUnauthorised   (* MsgExecuteJob refused before the handler: ValidateBasic / VerifyAuthorisedSignatureDecorator *)
| EPanic.         (* msg server: GetAccount(creator) is nil and is dereferenced *)

Inductive result := Ok | Err (e : err).

Definition err_eqb (a b : err) : bool :=
  match a, b with
  | ERejected, ERejected | ENotFound, ENotFound | ECannotModify, ECannotModify
  | EBadJSON, EBadJSON | EBadHex, EBadHex | ENoChain, ENoChain | EPad, EPad | EPick, EPick
  | EWasmInvalid, EWasmInvalid | EUnauthorised, EUnauthorised | EPanic, EPanic => true
  | _, _ => false
  end.
Definition result_eqb (a b : result) : bool :=
  match a, b with Ok, Ok => true | Err x, Err y => err_eqb x y | _, _ => false end.

Definition find_job (js : list job) (id : bytes) : option job :=
  find (fun j => bytes_eqb (j_id j) id) js.
Definition job_at (s : state) (id : bytes) : option job := find_job (jobs s) id.

Fixpoint chain_info (chs : list (bytes * bytes)) (c : bytes) : option bytes :=
  match chs with
  | [] => None
  | (k, v) :: r => if bytes_eqb k c then Some v else chain_info r c
  end.

Definition evm_type : bytes := [101; 118; 109].  (* "evm", the only bridge in Keeper.Chains *)

Definition nonempty (o : option bytes) : bool :=
  match o with Some (_ :: _) => true | _ => false end.

(** execute request, with the environment's answers *)
Record exec_in := mkExec {
  x_id : bytes;
  x_in : option bytes;         (* supplied payload; None = nil *)
  x_sender : option bytes;     (* senderAddress; None = nil *)
  x_contract : option bytes;   (* contractAddr; None = nil *)
  x_pre : option Z;            (* PreJobExecution reaches SendValsetMsgForChain with this valset id (None: it stops before) *)
  x_pick : option Z;           (* PickValidatorForMessage: Some assignee | None (error) *)
  x_atomic : bool              (* delivered as a transaction / sub-message: state kept only on success *)
}.

Inductive op :=
| OCreate (j : job) (vb : bool)   (* j carries the owner (= creator); vb = Job.ValidateBasic() passed *)
| OExec (x : exec_in)             (* keeper ExecuteJob called directly (no such caller outside the entry points below) *)
  (* MsgExecuteJob delivered as a transaction message: [creator] = Metadata.Creator, [authorised] =
     ValidateBasic and the ante decorator let it through (creator among the signers, or a signer
     holds a fee grant of the creator: property C03), [has_acct] = the creator has an account *)
| OMsgExec (creator : bytes) (authorised has_acct : bool) (id : bytes) (inp : option bytes)
           (pre : option Z) (pick : option Z) (atomic : bool)
  (* contract [caddr] dispatches {"scheduler_msg":{"execute_job":{job_id, sender: claimed, payload: raw}}} *)
| OWasmExec (id raw : bytes) (caddr claimed : bytes) (pre : option Z) (pick : option Z) (atomic : bool)
  (* contract [caddr] dispatches the legacy message {job_id, payload: raw} (+ any other members, e.g. a sender) *)
| OLegacyExec (id raw : bytes) (caddr claimed : bytes) (pre : option Z) (pick : option Z) (atomic : bool)
| OPublish (chain : bytes) (pre : option Z)   (* snapshot listener: PublishValsetToChain reaches SendValsetMsgForChain or not *)
| OGenesisRoundTrip                           (* scheduler ExportGenesis ; empty scheduler store ; InitGenesis *)
| OBlock.                                     (* scheduler BeginBlocker ; EndBlocker *)

Section Model.
  Variable dec_def : bytes -> option (bytes * bytes).   (* definition JSON -> (ABI, address) *)
  Variable dec_pay : bytes -> option bytes.             (* payload JSON -> hexPayload *)

  (** VerifyJob = unmarshalJob: both JSON documents decode and the hexPayload is valid hex *)
  Definition verify_job (def pay : bytes) : bool :=
    match dec_def def, dec_pay pay with
    | Some _, Some hx => match from_hex hx with Some _ => true | None => false end
    | _, _ => false
    end.

  (** AddNewJob *)
  Definition create (s : state) (j : job) (vb : bool) : state * result :=
    if existsb (fun k => bytes_eqb (j_id k) (j_id j)) (jobs s) then (s, Err ERejected)
    else if match j_owner j with [] => true | _ => false end then (s, Err ERejected)
    else if negb vb then (s, Err ERejected)
    else if negb (bytes_eqb (j_ctype j) evm_type) then (s, Err ERejected)
    else if negb (verify_job (j_def j) (j_payload j)) then (s, Err ERejected)
    else (mkState (chains s) (jobs s ++ [j]) (queue s), Ok).

  Definition enqueue (s : state) (m : qmsg) : state := mkState (chains s) (jobs s) (queue s ++ [m]).

  (** evm PreJobExecution / PublishValsetToChain for chain [c]: GetChainInfo, ..., SendValsetMsgForChain *)
  Definition hook (s : state) (c : bytes) (pre : option Z) : state :=
    match pre, chain_info (chains s) c with
    | Some v, Some ts => mkState (chains s) (jobs s) (send_valset c ts v (queue s))
    | _, _ => s
    end.

  (** the address whose bytes become the suffix: the sender if present, else the contract *)
  Definition caller_of (sender contract : option bytes) : bytes :=
    match sender with
    | Some a => a
    | None => match contract with Some c => c | None => [] end
    end.

  (** ScheduleNow's choice of payload *)
  Definition base_payload (j : job) (supplied : option bytes) : bytes :=
    if j_modifiable j then match supplied with Some p => p | None => j_payload j end
    else j_payload j.

  (** keeper.ExecuteJob = PreJobExecution ; ScheduleNow ; evm ExecuteJob ; AddSmartContractExecutionToConsensus,
      not wrapped in a cache context *)
  Definition exec_raw (s : state) (x : exec_in) : state * result :=
    match job_at s (x_id x) with
    | None => (s, Err ENotFound)
    | Some j =>
      let s1 := hook s (j_cref j) (x_pre x) in
      if nonempty (x_in x) && negb (j_modifiable j) then (s1, Err ECannotModify) else
      let base := base_payload j (x_in x) in
      match dec_def (j_def j) with
      | None => (s1, Err EBadJSON)
      | Some (abi, addr) =>
        match dec_pay base with
        | None => (s1, Err EBadJSON)
        | Some hx =>
          match from_hex hx with
          | None => (s1, Err EBadHex)
          | Some _ =>
            match chain_info (chains s) (j_cref j) with
            | None => (s1, Err ENoChain)
            | Some ts =>
              match pad32 (caller_of (x_sender x) (x_contract x)) with
              | None => (s1, Err EPad)
              | Some suffix =>
                match x_pick x with
                | None => (s1, Err EPick)
                | Some a =>
                  (enqueue s1 (QCall (mkCall (j_cref j) ts addr (from_hex_lenient abi)
                                             (from_hex_lenient hx ++ suffix)
                                             (x_sender x) (x_contract x) (j_mev j) a)), Ok)
                end
              end
            end
          end
        end
      end
    end.

  (** transaction semantics (SDK, trusted): a failed delivery leaves no trace *)
  Definition exec (s : state) (x : exec_in) : state * result :=
    match exec_raw s x with
    | (s', Ok) => (s', Ok)
    | (s', Err e) => (if x_atomic x then s else s', Err e)
    end.

  (** msgServer.ExecuteJob behind ValidateBasic and the ante handler: sender = the creator's
      account address, contract = nil.  GetAccount(creator).GetAddress() panics on a missing
      account before anything is read or written. *)
  Definition msg_exec (s : state) (creator : bytes) (authorised has_acct : bool) (id : bytes) (inp : option bytes)
             (pre : option Z) (pick : option Z) (atomic : bool) : state * result :=
    if negb authorised then (s, Err EUnauthorised)
    else if negb has_acct then (s, Err EPanic)
    else exec s (mkExec id inp (Some creator) None pre pick atomic).

  (** customMessenger.executeJob: the message's own "sender" member is not read *)
  Definition wasm_exec (s : state) (id raw caddr : bytes) (pre : option Z) (pick : option Z) (atomic : bool) : state * result :=
    match id, raw with
    | [], _ | _, [] => (s, Err EWasmInvalid)
    | _, _ => exec s (mkExec id (Some (wasm_wrap raw)) (Some caddr) (Some caddr) pre pick atomic)
    end.

  (** customLegacyMessenger.DispatchMsg: the payload is wrapped BEFORE executeJobWasmEvent.valid()
      looks at it, so only an empty job id is refused there *)
  Definition legacy_exec (s : state) (id raw caddr : bytes) (pre : option Z) (pick : option Z) (atomic : bool) : state * result :=
    match id with
    | [] => (s, Err EWasmInvalid)
    | _ => exec s (mkExec id (Some (wasm_wrap raw)) (Some caddr) (Some caddr) pre pick atomic)
    end.

  Definition step_res (s : state) (o : op) : state * result :=
    match o with
    | OCreate j vb => create s j vb
    | OExec x => exec s x
    | OMsgExec cr au ac id inp pre pick atm => msg_exec s cr au ac id inp pre pick atm
    | OWasmExec id raw caddr _ pre pick atm => wasm_exec s id raw caddr pre pick atm
    | OLegacyExec id raw caddr _ pre pick atm => legacy_exec s id raw caddr pre pick atm
    | OPublish c pre => (hook s c pre, Ok)
    | OGenesisRoundTrip => (mkState (chains s) [] (queue s), Ok)
    | OBlock => (s, Ok)
    end.

  Definition step (s : state) (o : op) : state := fst (step_res s o).
  Definition run_from (s : state) (ops : list op) : state := fold_left step ops s.
  Definition run (chs : list (bytes * bytes)) (ops : list op) : state := run_from (init chs) ops.
End Model.

(** the logic calls among queue messages *)
Fixpoint calls_of (q : list qmsg) : list call :=
  match q with
  | [] => []
  | QCall c :: r => c :: calls_of r
  | QValset _ _ _ :: r => calls_of r
  end.
