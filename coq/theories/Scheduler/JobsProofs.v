(** C17 — proofs about the scheduler model (Scheduler/Jobs.v). *)
From Coq Require Import List ZArith Bool Lia.
From Paloma Require Import Base.Corr Scheduler.Jobs.
From Paloma Require Gen.C17.
Import ListNotations.
Open Scope Z_scope.

(** * Byte strings *)

Lemma bytes_eqb_eq a b : bytes_eqb a b = true <-> a = b.
Proof. apply list_eqb_eq. intros; apply Z.eqb_eq. Qed.

Lemma bytes_eqb_refl a : bytes_eqb a a = true.
Proof. now apply bytes_eqb_eq. Qed.

Lemma bytes_eqb_neq a b : bytes_eqb a b = false <-> a <> b.
Proof.
  split; intros H.
  - intros E. apply bytes_eqb_eq in E. congruence.
  - destruct (bytes_eqb a b) eqn:E; [apply bytes_eqb_eq in E; contradiction | reflexivity].
Qed.

(** * Hex *)

Lemma pairs_ind (P : bytes -> Prop) :
  P [] -> (forall a, P [a]) -> (forall a b r, P r -> P (a :: b :: r)) -> forall s, P s.
Proof.
  intros H0 H1 H2. fix IH 1. intros s. destruct s as [|a [|b r]].
  - exact H0.
  - apply H1.
  - apply H2. apply IH.
Qed.

(** When the strict decoder accepts, the lenient one (what common.FromHex computes) returns the
    same bytes: after validation nothing is truncated. *)
Lemma hex_pairs_lenient_of_strict s b : hex_pairs s = Some b -> hex_pairs_lenient s = b.
Proof.
  revert b. induction s as [| a | a c r IH] using pairs_ind; intros b H.
  - inversion H. reflexivity.
  - discriminate.
  - cbn [hex_pairs] in H. cbn [hex_pairs_lenient].
    destruct (hexval a) as [x|]; [|discriminate].
    destruct (hexval c) as [y|]; [|discriminate].
    destruct (hex_pairs r) as [t|] eqn:E; [|discriminate].
    inversion H. f_equal. now apply IH.
Qed.

Lemma from_hex_lenient_of_strict s b : from_hex s = Some b -> from_hex_lenient s = b.
Proof. unfold from_hex, from_hex_lenient. apply hex_pairs_lenient_of_strict. Qed.

Lemma hexval_hexdigit d : 0 <= d < 16 -> hexval (hexdigit d) = Some d.
Proof.
  intros H.
  assert (I : In d [0;1;2;3;4;5;6;7;8;9;10;11;12;13;14;15]) by (simpl; lia).
  simpl in I.
  repeat (destruct I as [<-|I]; [reflexivity|]). contradiction.
Qed.

Lemma hexdigit_not_x d : 0 <= d < 16 -> ((hexdigit d =? 120) || (hexdigit d =? 88)) = false.
Proof.
  intros H. unfold hexdigit. destruct (d <? 10) eqn:E.
  - apply Z.ltb_lt in E. apply orb_false_iff; split; apply Z.eqb_neq; lia.
  - apply Z.ltb_ge in E. apply orb_false_iff; split; apply Z.eqb_neq; lia.
Qed.

Definition is_byte (x : Z) : Prop := 0 <= x < 256.

Lemma hex_encode_cons x r :
  hex_encode (x :: r) = hexdigit (x / 16) :: hexdigit (x mod 16) :: hex_encode r.
Proof. reflexivity. Qed.

Lemma hex_encode_even r : Nat.even (length (hex_encode r)) = true.
Proof. induction r as [|x r IH]; [reflexivity|]. rewrite hex_encode_cons. exact IH. Qed.

Lemma hex_pairs_encode r : Forall is_byte r -> hex_pairs (hex_encode r) = Some r.
Proof.
  induction 1 as [|x r Hx Hr IH]; [reflexivity|].
  rewrite hex_encode_cons. cbn [hex_pairs].
  unfold is_byte in Hx.
  assert (H1 : 0 <= x / 16 < 16) by (split; [apply Z.div_pos; lia | apply Z.div_lt_upper_bound; lia]).
  assert (H2 : 0 <= x mod 16 < 16) by (apply Z.mod_pos_bound; lia).
  rewrite (hexval_hexdigit _ H1), (hexval_hexdigit _ H2), IH.
  f_equal. f_equal. symmetry. apply Z.div_mod. lia.
Qed.

(** hex.EncodeToString followed by FromHex (+ validation) is the identity on byte strings: what a
    contract hands to the binding is what is decoded again. *)
Lemma from_hex_encode r : Forall is_byte r -> from_hex (hex_encode r) = Some r.
Proof.
  intros H. unfold from_hex.
  assert (S : strip0x (hex_encode r) = hex_encode r).
  { destruct H as [|x r Hx Hr]; [reflexivity|].
    rewrite hex_encode_cons. unfold strip0x.
    unfold is_byte in Hx.
    assert (H2 : 0 <= x mod 16 < 16) by (apply Z.mod_pos_bound; lia).
    rewrite (hexdigit_not_x _ H2), andb_false_r. reflexivity. }
  rewrite S. unfold even_pad. rewrite hex_encode_even. now apply hex_pairs_encode.
Qed.

(** * The 32-byte suffix *)

Lemma some_inj {A} (a b : A) : Some a = Some b -> a = b.
Proof. now intros [= ->]. Qed.

Lemma NoDup_snoc {A} (l : list A) (x : A) : NoDup l -> ~ In x l -> NoDup (l ++ [x]).
Proof.
  intros N. induction N as [|y l Hy N IH]; intros H; cbn.
  - constructor; [intros [] | constructor].
  - constructor.
    + intros I. apply in_app_or in I as [I|[<-|[]]]; [contradiction | apply H; now left].
    + apply IH. intros I. apply H. now right.
Qed.

Lemma pad_size_32 : pad_size = 32.
Proof. reflexivity. Qed.

Lemma pad32_some b sfx :
  pad32 b = Some sfx ->
  (length b <= 32)%nat /\ sfx = repeat 0 (32 - length b) ++ b /\ length sfx = 32%nat.
Proof.
  unfold pad32. rewrite pad_size_32.
  destruct (Z.of_nat (length b) <=? 32) eqn:E; [|discriminate].
  apply Z.leb_le in E. change (Z.to_nat 32) with 32%nat. intros H. apply some_inj in H. subst sfx.
  split; [lia|]. split; [reflexivity|]. rewrite app_length, repeat_length. lia.
Qed.

Lemma pad32_none b : pad32 b = None <-> (32 < length b)%nat.
Proof.
  unfold pad32. rewrite pad_size_32.
  destruct (Z.of_nat (length b) <=? 32) eqn:E.
  - apply Z.leb_le in E. split; [discriminate | lia].
  - apply Z.leb_gt in E. split; [lia | reflexivity].
Qed.

Lemma pad32_20 a : length a = 20%nat -> pad32 a = Some (repeat 0 12 ++ a).
Proof.
  intros H. unfold pad32. rewrite pad_size_32, H. reflexivity.
Qed.

(** the suffix identifies the caller among addresses of the same length *)
Lemma pad32_injective a b sfx :
  pad32 a = Some sfx -> pad32 b = Some sfx -> length a = length b -> a = b.
Proof.
  intros Ha Hb L.
  apply pad32_some in Ha as (_ & Ea & _). apply pad32_some in Hb as (_ & Eb & _).
  rewrite Ea, L in Eb. now apply app_inv_head in Eb.
Qed.

(** the caller's bytes are the tail of the suffix *)
Lemma pad32_tail a sfx : pad32 a = Some sfx -> skipn (32 - length a) sfx = a.
Proof.
  intros H. apply pad32_some in H as (_ & E & _). subst sfx.
  rewrite skipn_app, repeat_length, Nat.sub_diag. cbn [skipn].
  rewrite skipn_all2; [reflexivity | rewrite repeat_length; lia].
Qed.

(** * SendValsetMsgForChain *)

Lemma calls_of_app q1 q2 : calls_of (q1 ++ q2) = calls_of q1 ++ calls_of q2.
Proof.
  induction q1 as [|[c t v|c] q1 IH]; cbn; [reflexivity | exact IH | now rewrite IH].
Qed.

Lemma send_scan_calls c ts v q : calls_of (fst (send_scan c ts v q)) = calls_of q.
Proof.
  induction q as [|m r IH]; [reflexivity|]. cbn [send_scan].
  destruct (negb (bytes_eqb (q_chain m) c)).
  { destruct (send_scan c ts v r) as [r' b]. cbn in *. destruct m; cbn; now rewrite IH. }
  destruct (negb (bytes_eqb (q_ts m) ts)); [reflexivity|].
  destruct m as [c' t' v'|cl].
  - destruct (v' =? v); [reflexivity | exact IH].
  - destruct (send_scan c ts v r) as [r' b]. cbn in *. now rewrite IH.
Qed.

Lemma send_valset_calls c ts v q : calls_of (send_valset c ts v q) = calls_of q.
Proof.
  unfold send_valset. pose proof (send_scan_calls c ts v q) as H.
  destruct (send_scan c ts v q) as [q' b]. cbn in H. destruct b; [|exact H].
  rewrite calls_of_app, H. cbn. now rewrite app_nil_r.
Qed.

Definition count_valsets (c : bytes) (q : list qmsg) : nat := length (filter (is_valset_of c) q).

(** every message of chain [c] carries the turnstone id [ts] *)
Definition ts_ok_for (c ts : bytes) (q : list qmsg) : Prop :=
  forall m, In m q -> q_chain m = c -> q_ts m = ts.

Lemma ts_ok_for_tail c ts m r : ts_ok_for c ts (m :: r) -> ts_ok_for c ts r.
Proof. intros H x Hx. apply H. now right. Qed.

Lemma is_valset_vid_of c v m : is_valset_vid c v m = true -> is_valset_of c m = true.
Proof. destruct m as [c' t' v'|cl]; cbn; [|discriminate]. intros H. now apply andb_true_iff in H as [H _]. Qed.

Lemma is_valset_of_chain c m : is_valset_of c m = true -> q_chain m = c.
Proof. destruct m as [c' t' v'|cl]; cbn; [|discriminate]. apply bytes_eqb_eq. Qed.

Lemma has_valset_count c v q : has_valset c v q = true -> (1 <= count_valsets c q)%nat.
Proof.
  unfold has_valset, count_valsets. induction q as [|m r IH]; [discriminate|]. cbn.
  destruct (is_valset_vid c v m) eqn:E.
  - apply is_valset_vid_of in E. rewrite E. cbn. lia.
  - cbn. intros H. specialize (IH H). destruct (is_valset_of c m); cbn; lia.
Qed.

(** no update with the same id is queued: every update of the chain is deleted, the loop ends *)
Lemma scan_no_same c ts v q :
  ts_ok_for c ts q -> has_valset c v q = false -> send_scan c ts v q = (drop_valsets c q, true).
Proof.
  induction q as [|m r IH]; intros T H; [reflexivity|].
  unfold has_valset in H. cbn [existsb] in H. apply orb_false_iff in H as [Hm Hr].
  specialize (IH (ts_ok_for_tail _ _ _ _ T) Hr).
  cbn [send_scan]. unfold drop_valsets. cbn [filter].
  destruct (bytes_eqb (q_chain m) c) eqn:Ec; cbn [negb].
  - apply bytes_eqb_eq in Ec. rewrite (T m (or_introl eq_refl) Ec), bytes_eqb_refl. cbn [negb].
    destruct m as [c' t' v'|cl].
    + cbn in Ec. subst c'. cbn in Hm. rewrite bytes_eqb_refl in Hm. cbn in Hm. rewrite Hm.
      cbn. rewrite bytes_eqb_refl. cbn. exact IH.
    + rewrite IH. reflexivity.
  - rewrite IH. assert (V : is_valset_of c m = false).
    { destruct m as [c' t' v'|cl]; [exact Ec | reflexivity]. }
    now rewrite V.
Qed.

(** an update with the same id is queued (and it is the only update of the chain): nothing happens *)
Lemma scan_same c ts v q :
  ts_ok_for c ts q -> (count_valsets c q <= 1)%nat -> has_valset c v q = true ->
  send_scan c ts v q = (q, false).
Proof.
  induction q as [|m r IH]; intros T C H; [discriminate|].
  cbn [send_scan].
  destruct (bytes_eqb (q_chain m) c) eqn:Ec; cbn [negb].
  - apply bytes_eqb_eq in Ec. rewrite (T m (or_introl eq_refl) Ec), bytes_eqb_refl. cbn [negb].
    destruct m as [c' t' v'|cl].
    + destruct (v' =? v) eqn:Ev; [reflexivity|]. exfalso.
      cbn in Ec. subst c'. unfold has_valset in H. cbn in H. rewrite bytes_eqb_refl, Ev in H. cbn in H.
      apply has_valset_count in H. unfold count_valsets in C. cbn in C. rewrite bytes_eqb_refl in C.
      cbn in C. unfold count_valsets in H. lia.
    + unfold has_valset in H. cbn in H. unfold count_valsets in C. cbn in C.
      rewrite (IH (ts_ok_for_tail _ _ _ _ T) C H). reflexivity.
  - assert (V : is_valset_of c m = false).
    { destruct m as [c' t' v'|cl]; [exact Ec | reflexivity]. }
    assert (W : is_valset_vid c v m = false).
    { destruct (is_valset_vid c v m) eqn:E; [apply is_valset_vid_of in E; congruence | reflexivity]. }
    unfold has_valset in H. cbn in H. rewrite W in H. cbn in H.
    unfold count_valsets in C. cbn in C. rewrite V in C.
    rewrite (IH (ts_ok_for_tail _ _ _ _ T) C H). reflexivity.
Qed.

Lemma send_valset_closed c ts v q :
  ts_ok_for c ts q -> (count_valsets c q <= 1)%nat ->
  send_valset c ts v q = if has_valset c v q then q else drop_valsets c q ++ [QValset c ts v].
Proof.
  intros T C. unfold send_valset. destruct (has_valset c v q) eqn:H.
  - now rewrite (scan_same _ _ _ _ T C H).
  - now rewrite (scan_no_same _ _ _ _ T H).
Qed.

Lemma count_drop_same c q : count_valsets c (drop_valsets c q) = 0%nat.
Proof.
  unfold count_valsets, drop_valsets. induction q as [|m r IH]; [reflexivity|]. cbn.
  destruct (is_valset_of c m) eqn:E; cbn; [exact IH | now rewrite E].
Qed.

Lemma count_drop_other c c' q : c' <> c -> count_valsets c' (drop_valsets c q) = count_valsets c' q.
Proof.
  intros N. unfold count_valsets, drop_valsets. induction q as [|m r IH]; [reflexivity|]. cbn.
  destruct (is_valset_of c m) eqn:E; cbn.
  - destruct (is_valset_of c' m) eqn:E'; [|exact IH].
    apply is_valset_of_chain in E. apply is_valset_of_chain in E'. congruence.
  - destruct (is_valset_of c' m); cbn; now rewrite IH.
Qed.

Lemma count_app c q1 q2 : count_valsets c (q1 ++ q2) = (count_valsets c q1 + count_valsets c q2)%nat.
Proof. unfold count_valsets. now rewrite filter_app, app_length. Qed.

Lemma drop_valsets_incl c q m : In m (drop_valsets c q) -> In m q.
Proof. unfold drop_valsets. intros H. now apply filter_In in H as [H _]. Qed.

(** messages of the other chains' queues are not touched *)
Definition others (c : bytes) (q : list qmsg) : list qmsg := filter (fun m => negb (bytes_eqb (q_chain m) c)) q.

Lemma others_drop c q : others c (drop_valsets c q) = others c q.
Proof.
  unfold others, drop_valsets. induction q as [|m r IH]; [reflexivity|]. cbn.
  destruct (is_valset_of c m) eqn:E; cbn.
  - apply is_valset_of_chain in E. rewrite E, bytes_eqb_refl. cbn. exact IH.
  - destruct (negb (bytes_eqb (q_chain m) c)); now rewrite IH.
Qed.

(** * The machine *)

Section Proofs.
  Variable dec_def : bytes -> option (bytes * bytes).
  Variable dec_pay : bytes -> option bytes.

  Notation create := (create dec_def dec_pay).
  Notation exec_raw := (exec_raw dec_def dec_pay).
  Notation exec := (exec dec_def dec_pay).
  Notation msg_exec := (msg_exec dec_def dec_pay).
  Notation wasm_exec := (wasm_exec dec_def dec_pay).
  Notation legacy_exec := (legacy_exec dec_def dec_pay).
  Notation step_res := (step_res dec_def dec_pay).
  Notation step := (step dec_def dec_pay).
  Notation run_from := (run_from dec_def dec_pay).
  Notation run := (run dec_def dec_pay).

  (** ** create *)

  Lemma create_spec s j vb :
    (create s j vb = (s, Err ERejected)) \/
    (create s j vb = (mkState (chains s) (jobs s ++ [j]) (queue s), Ok) /\
     find_job (jobs s) (j_id j) = None /\ j_owner j <> [] /\ vb = true /\ j_ctype j = evm_type /\
     verify_job dec_def dec_pay (j_def j) (j_payload j) = true).
  Proof.
    unfold Jobs.create.
    destruct (existsb (fun k => bytes_eqb (j_id k) (j_id j)) (jobs s)) eqn:Ex; [now left|].
    destruct (j_owner j) as [|o ow] eqn:Ow; [now left|].
    destruct vb; [|now left]. cbn [negb].
    destruct (bytes_eqb (j_ctype j) evm_type) eqn:Ct; [|now left]. cbn [negb].
    destruct (verify_job dec_def dec_pay (j_def j) (j_payload j)) eqn:Vj; [|now left]. cbn [negb].
    right. repeat split; try reflexivity.
    - unfold find_job. destruct (find _ (jobs s)) as [k|] eqn:F; [|reflexivity].
      apply find_some in F as [Hin Hk].
      assert (existsb (fun k => bytes_eqb (j_id k) (j_id j)) (jobs s) = true)
        by (apply existsb_exists; eauto). congruence.
    - discriminate.
    - now apply bytes_eqb_eq.
  Qed.

  (** ** the valset hook *)

  Lemma hook_jobs s c pre : jobs (hook s c pre) = jobs s.
  Proof. unfold hook. destruct pre; [destruct (chain_info (chains s) c)|]; reflexivity. Qed.
  Lemma hook_chains s c pre : chains (hook s c pre) = chains s.
  Proof. unfold hook. destruct pre; [destruct (chain_info (chains s) c)|]; reflexivity. Qed.
  Lemma hook_calls s c pre : calls_of (queue (hook s c pre)) = calls_of (queue s).
  Proof.
    unfold hook. destruct pre; [destruct (chain_info (chains s) c)|]; try reflexivity.
    cbn. apply send_valset_calls.
  Qed.

  (** invariant of the live queue: every message carries the turnstone id of its chain, and a
      chain's queue holds at most one valset update *)
  Definition q_inv (chs : list (bytes * bytes)) (q : list qmsg) : Prop :=
    (forall m, In m q -> chain_info chs (q_chain m) = Some (q_ts m)) /\
    (forall c, count_valsets c q <= 1)%nat.

  (** what the hook does to a queue that satisfies the invariant *)
  Definition hook_queue (chs : list (bytes * bytes)) (q : list qmsg) (c : bytes) (pre : option Z) : list qmsg :=
    match pre, chain_info chs c with
    | Some v, Some ts => if has_valset c v q then q else drop_valsets c q ++ [QValset c ts v]
    | _, _ => q
    end.

  Lemma hook_closed s c pre :
    q_inv (chains s) (queue s) -> queue (hook s c pre) = hook_queue (chains s) (queue s) c pre.
  Proof.
    intros [T C]. unfold hook, hook_queue. destruct pre as [v|]; [|reflexivity].
    destruct (chain_info (chains s) c) as [ts|] eqn:E; [|reflexivity]. cbn.
    apply send_valset_closed; [|apply C].
    intros m Hm Hc. specialize (T m Hm). rewrite Hc, E in T. now inversion T.
  Qed.

  Lemma hook_queue_inv chs q c pre : q_inv chs q -> q_inv chs (hook_queue chs q c pre).
  Proof.
    intros [T C]. unfold hook_queue. destruct pre as [v|]; [|now split].
    destruct (chain_info chs c) as [ts|] eqn:E; [|now split].
    destruct (has_valset c v q); [now split|]. split.
    - intros m Hm. apply in_app_or in Hm as [Hm|[<-|[]]]; [apply T; eapply drop_valsets_incl; eauto | exact E].
    - intros c'. rewrite count_app. destruct (bytes_eqb c' c) eqn:Ecc.
      + apply bytes_eqb_eq in Ecc. subst c'. rewrite count_drop_same. unfold count_valsets. cbn.
        rewrite bytes_eqb_refl. cbn. lia.
      + apply bytes_eqb_neq in Ecc. rewrite (count_drop_other _ _ _ Ecc). unfold count_valsets at 2. cbn.
        assert (N : bytes_eqb c c' = false) by (apply bytes_eqb_neq; congruence).
        rewrite N. cbn. specialize (C c'). lia.
  Qed.

  Lemma hook_queue_calls chs q c pre : calls_of (hook_queue chs q c pre) = calls_of q.
  Proof.
    unfold hook_queue. destruct pre as [v|]; [|reflexivity].
    destruct (chain_info chs c) as [ts|]; [|reflexivity].
    destruct (has_valset c v q); [reflexivity|].
    rewrite calls_of_app. cbn. rewrite app_nil_r.
    unfold drop_valsets. induction q as [|[c' t' v'|cl] r IH]; cbn; [reflexivity | | now rewrite IH].
    destruct (bytes_eqb c' c); cbn; exact IH.
  Qed.

  Lemma hook_queue_others chs q c pre : others c (hook_queue chs q c pre) = others c q.
  Proof.
    unfold hook_queue. destruct pre as [v|]; [|reflexivity].
    destruct (chain_info chs c) as [ts|]; [|reflexivity].
    destruct (has_valset c v q); [reflexivity|].
    unfold others at 1. rewrite filter_app. cbn. rewrite bytes_eqb_refl. cbn. rewrite app_nil_r.
    apply others_drop.
  Qed.

  (** ** execute *)

  Definition pre_state (s : state) (x : exec_in) (j : job) : state := hook s (j_cref j) (x_pre x).

  (** everything a successful run establishes *)
  Record run_facts (s : state) (x : exec_in) (j : job) (c : call) : Prop := {
    rf_job : job_at s (x_id x) = Some j;
    rf_guard : nonempty (x_in x) = true -> j_modifiable j = true;
    rf_payload : exists hx b sfx,
        dec_pay (base_payload j (x_in x)) = Some hx /\ from_hex hx = Some b /\
        pad32 (caller_of (x_sender x) (x_contract x)) = Some sfx /\
        c_payload c = b ++ sfx;
    rf_contract : exists abi, dec_def (j_def j) = Some (abi, c_contract c) /\ c_abi c = from_hex_lenient abi;
    rf_chain : c_chain c = j_cref j /\ chain_info (chains s) (j_cref j) = Some (c_turnstone c);
    rf_ids : c_sender c = x_sender x /\ c_contractaddr c = x_contract x /\ c_mev c = j_mev j;
    rf_pick : x_pick x = Some (c_assignee c)
  }.

  Lemma exec_raw_ok s x s' :
    exec_raw s x = (s', Ok) ->
    exists j c, run_facts s x j c /\ s' = enqueue (pre_state s x j) (QCall c).
  Proof.
    unfold Jobs.exec_raw. cbv zeta.
    destruct (job_at s (x_id x)) as [j|] eqn:Hj; [|discriminate].
    destruct (nonempty (x_in x) && negb (j_modifiable j)) eqn:Hg; [discriminate|].
    destruct (dec_def (j_def j)) as [[abi addr]|] eqn:Hd; [|discriminate].
    destruct (dec_pay (base_payload j (x_in x))) as [hx|] eqn:Hp; [|discriminate].
    destruct (from_hex hx) as [b|] eqn:Hh; [|discriminate].
    destruct (chain_info (chains s) (j_cref j)) as [ts|] eqn:Hc; [|discriminate].
    destruct (pad32 (caller_of (x_sender x) (x_contract x))) as [sfx|] eqn:Hs; [|discriminate].
    destruct (x_pick x) as [a|] eqn:Hk; [|discriminate].
    intros H. inversion H; subst s'; clear H.
    eexists j, _. split; [|reflexivity].
    constructor; cbn.
    - exact Hj.
    - intros N. rewrite N in Hg. cbn in Hg. now destruct (j_modifiable j).
    - exists hx, b, sfx. repeat split; auto. now rewrite (from_hex_lenient_of_strict _ _ Hh).
    - exists abi. now split.
    - now split.
    - now repeat split.
    - exact Hk.
  Qed.

  Lemma exec_raw_err s x s' e :
    exec_raw s x = (s', Err e) ->
    s' = s \/ exists j, job_at s (x_id x) = Some j /\ s' = pre_state s x j.
  Proof.
    unfold Jobs.exec_raw. cbv zeta.
    destruct (job_at s (x_id x)) as [j|] eqn:Hj; [|intros H; inversion H; now left].
    intros H. right. exists j. split; [reflexivity|]. unfold pre_state.
    destruct (nonempty (x_in x) && negb (j_modifiable j)); [now inversion H|].
    destruct (dec_def (j_def j)) as [[abi addr]|]; [|now inversion H].
    destruct (dec_pay (base_payload j (x_in x))) as [hx|]; [|now inversion H].
    destruct (from_hex hx) as [b|]; [|now inversion H].
    destruct (chain_info (chains s) (j_cref j)) as [ts|]; [|now inversion H].
    destruct (pad32 (caller_of (x_sender x) (x_contract x))) as [sfx|]; [|now inversion H].
    destruct (x_pick x) as [a|]; [discriminate | now inversion H].
  Qed.

  Lemma exec_ok s x s' :
    exec s x = (s', Ok) ->
    exists j c, run_facts s x j c /\ s' = enqueue (pre_state s x j) (QCall c).
  Proof.
    unfold Jobs.exec. destruct (exec_raw s x) as [s1 [|e]] eqn:E; [|discriminate].
    intros H; inversion H; subst. now apply exec_raw_ok.
  Qed.

  Lemma exec_err s x s' e :
    exec s x = (s', Err e) ->
    s' = s \/ (x_atomic x = false /\ exists j, job_at s (x_id x) = Some j /\ s' = pre_state s x j).
  Proof.
    unfold Jobs.exec. destruct (exec_raw s x) as [s1 [|e1]] eqn:E; [discriminate|].
    intros H; inversion H; subst; clear H.
    destruct (x_atomic x); [now left|].
    apply exec_raw_err in E as [->|E]; [now left | right; now split].
  Qed.

  Lemma pre_state_jobs s x j : jobs (pre_state s x j) = jobs s.
  Proof. apply hook_jobs. Qed.
  Lemma pre_state_chains s x j : chains (pre_state s x j) = chains s.
  Proof. apply hook_chains. Qed.
  Lemma pre_state_calls s x j : calls_of (queue (pre_state s x j)) = calls_of (queue s).
  Proof. apply hook_calls. Qed.

  (** the requests of the entry points as keeper requests *)
  Definition wasm_req (id raw caddr : bytes) (pre : option Z) (pick : option Z) (atm : bool) : exec_in :=
    mkExec id (Some (wasm_wrap raw)) (Some caddr) (Some caddr) pre pick atm.
  Definition msg_req (creator id : bytes) (inp : option bytes) (pre : option Z) (pick : option Z) (atm : bool) : exec_in :=
    mkExec id inp (Some creator) None pre pick atm.

  Lemma wasm_exec_cases s id raw caddr pre pick atm :
    (wasm_exec s id raw caddr pre pick atm = (s, Err EWasmInvalid) /\ (id = [] \/ raw = [])) \/
    (wasm_exec s id raw caddr pre pick atm = exec s (wasm_req id raw caddr pre pick atm) /\ id <> [] /\ raw <> []).
  Proof.
    unfold Jobs.wasm_exec, wasm_req. destruct id as [|i id]; [left; split; [now destruct raw | now left]|].
    destruct raw as [|r raw]; [left; split; [reflexivity | now right]|].
    right. repeat split; discriminate.
  Qed.

  Lemma legacy_exec_cases s id raw caddr pre pick atm :
    (legacy_exec s id raw caddr pre pick atm = (s, Err EWasmInvalid) /\ id = []) \/
    (legacy_exec s id raw caddr pre pick atm = exec s (wasm_req id raw caddr pre pick atm) /\ id <> []).
  Proof.
    unfold Jobs.legacy_exec, wasm_req. destruct id as [|i id]; [left; now split|].
    right. split; [reflexivity | discriminate].
  Qed.

  Lemma msg_exec_cases s cr au ac id inp pre pick atm :
    (exists e, msg_exec s cr au ac id inp pre pick atm = (s, Err e) /\ (au = false \/ ac = false)) \/
    (msg_exec s cr au ac id inp pre pick atm = exec s (msg_req cr id inp pre pick atm) /\ au = true /\ ac = true).
  Proof.
    unfold Jobs.msg_exec, msg_req. destruct au; cbn [negb]; [|left; eexists; split; [reflexivity | now left]].
    destruct ac; cbn [negb]; [|left; eexists; split; [reflexivity | now right]].
    right. now repeat split.
  Qed.

  (** ** one step: what can happen to the three components *)

  (** the request as seen by the keeper, for execute operations *)
  Definition exec_req (o : op) : option exec_in :=
    match o with
    | OExec x => Some x
    | OMsgExec cr _ _ id inp pre pick atm => Some (msg_req cr id inp pre pick atm)
    | OWasmExec id raw caddr _ pre pick atm => Some (wasm_req id raw caddr pre pick atm)
    | OLegacyExec id raw caddr _ pre pick atm => Some (wasm_req id raw caddr pre pick atm)
    | _ => None
    end.

  Inductive step_shape (s : state) (o : op) : state * result -> Prop :=
  | SNoop e : step_shape s o (s, Err e)
  | SCreated j vb :
      o = OCreate j vb -> vb = true -> find_job (jobs s) (j_id j) = None -> j_owner j <> [] ->
      j_ctype j = evm_type -> verify_job dec_def dec_pay (j_def j) (j_payload j) = true ->
      step_shape s o (mkState (chains s) (jobs s ++ [j]) (queue s), Ok)
  | SRan x j c :
      exec_req o = Some x -> run_facts s x j c ->
      step_shape s o (enqueue (pre_state s x j) (QCall c), Ok)
  | SFailedAfterHook x j e :
      exec_req o = Some x -> x_atomic x = false -> job_at s (x_id x) = Some j ->
      step_shape s o (pre_state s x j, Err e)
  | SPublished c pre : o = OPublish c pre -> step_shape s o (hook s c pre, Ok)
  | SGenesis : o = OGenesisRoundTrip -> step_shape s o (mkState (chains s) [] (queue s), Ok)
  | SBlock : o = OBlock -> step_shape s o (s, Ok).

  Lemma exec_shape s o x : exec_req o = Some x -> step_shape s o (exec s x).
  Proof.
    intros R. destruct (exec s x) as [s' [|e]] eqn:E.
    - apply exec_ok in E as (j & c & RF & ->). now apply (SRan s o x j c).
    - apply exec_err in E as [-> | (A & j & J & ->)]; [constructor|].
      now apply (SFailedAfterHook s o x j e).
  Qed.

  Lemma step_res_shape s o : step_shape s o (step_res s o).
  Proof.
    destruct o as [j vb | x | cr au ac id inp pre pick atm | id raw caddr cl pre pick atm
                  | id raw caddr cl pre pick atm | c pre | | ]; cbn [Jobs.step_res].
    - destruct (create_spec s j vb) as [E | (E & F & O & V & C & VJ)]; rewrite E.
      + constructor.
      + now apply (SCreated s _ j vb).
    - now apply exec_shape.
    - destruct (msg_exec_cases s cr au ac id inp pre pick atm) as [(e & E & _) | (E & _ & _)]; rewrite E.
      + constructor.
      + now apply exec_shape.
    - destruct (wasm_exec_cases s id raw caddr pre pick atm) as [[E _] | (E & _ & _)]; rewrite E.
      + constructor.
      + now apply exec_shape.
    - destruct (legacy_exec_cases s id raw caddr pre pick atm) as [[E _] | (E & _)]; rewrite E.
      + constructor.
      + now apply exec_shape.
    - now apply (SPublished s _ c pre).
    - now apply SGenesis.
    - now apply SBlock.
  Qed.

  Lemma step_chains s o : chains (step s o) = chains s.
  Proof.
    unfold Jobs.step. destruct (step_res_shape s o); cbn; auto using pre_state_chains, hook_chains.
  Qed.

  Lemma run_from_app s ops ops' : run_from s (ops ++ ops') = run_from (run_from s ops) ops'.
  Proof. unfold Jobs.run_from. apply fold_left_app. Qed.

  Lemma run_from_snoc s ops o : run_from s (ops ++ [o]) = step (run_from s ops) o.
  Proof. now rewrite run_from_app. Qed.

  Lemma run_chains chs ops : chains (run chs ops) = chs.
  Proof.
    unfold Jobs.run. induction ops as [|o ops IH] using rev_ind; [reflexivity|].
    now rewrite run_from_snoc, step_chains.
  Qed.

  (** ** the queue invariant holds in every reachable state *)

  Lemma step_inv s o : q_inv (chains s) (queue s) -> q_inv (chains (step s o)) (queue (step s o)).
  Proof.
    intros I. rewrite step_chains. unfold Jobs.step.
    destruct (step_res_shape s o) as [e | j vb _ _ _ _ _ _ | x j c _ RF | x j e _ _ _ | c pre _ | _ | _]; cbn;
      try exact I.
    - unfold pre_state. rewrite (hook_closed _ _ _ I).
      destruct (hook_queue_inv _ _ (j_cref j) (x_pre x) I) as [T C].
      destruct RF as [_ _ _ _ (C1 & C2) _ _]. split.
      + intros m Hm. apply in_app_or in Hm as [Hm|[<-|[]]]; [now apply T|]. cbn. now rewrite C1.
      + intros c'. rewrite count_app. unfold count_valsets at 2. cbn. specialize (C c'). lia.
    - unfold pre_state. rewrite (hook_closed _ _ _ I). now apply hook_queue_inv.
    - rewrite (hook_closed _ _ _ I). now apply hook_queue_inv.
  Qed.

  Lemma run_inv chs ops : q_inv chs (queue (run chs ops)).
  Proof.
    rewrite <- (run_chains chs ops) at 1. unfold Jobs.run.
    induction ops as [|o ops IH] using rev_ind.
    - split; [intros m [] | intros c; cbn; lia].
    - rewrite run_from_snoc. now apply step_inv.
  Qed.

  Theorem queue_invariants chs ops :
    (forall m, In m (queue (run chs ops)) -> chain_info chs (q_chain m) = Some (q_ts m)) /\
    (forall c, count_valsets c (queue (run chs ops)) <= 1)%nat.
  Proof. exact (run_inv chs ops). Qed.

  (** ** job ids are unique *)

  Lemma find_job_none_notin js id :
    find_job js id = None -> ~ In id (map j_id js).
  Proof.
    intros F Hin. apply in_map_iff in Hin as (k & <- & Hk).
    unfold find_job in F. eapply find_none in F; [|exact Hk].
    cbn in F. now rewrite bytes_eqb_refl in F.
  Qed.

  Lemma step_nodup s o : NoDup (map j_id (jobs s)) -> NoDup (map j_id (jobs (step s o))).
  Proof.
    intros N. unfold Jobs.step.
    destruct (step_res_shape s o) as [e | j vb _ _ F _ _ _ | x j c _ _ | x j e _ _ _ | c pre _ | _ | _]; cbn;
      rewrite ?pre_state_jobs, ?hook_jobs; auto; [|constructor].
    rewrite map_app. cbn. apply NoDup_snoc; auto. now apply find_job_none_notin.
  Qed.

  Lemma job_ids_unique_from s ops :
    NoDup (map j_id (jobs s)) -> NoDup (map j_id (jobs (run_from s ops))).
  Proof.
    intros N. induction ops as [|o ops IH] using rev_ind; [exact N|].
    rewrite run_from_snoc. now apply step_nodup.
  Qed.

  Theorem job_ids_unique chs ops : NoDup (map j_id (jobs (run chs ops))).
  Proof. apply job_ids_unique_from. constructor. Qed.

  (** ** jobs are immutable *)

  Lemma find_job_app_some js id j k : find_job js id = Some j -> find_job (js ++ [k]) id = Some j.
  Proof.
    unfold find_job. induction js as [|h js IH]; [discriminate|]. cbn.
    destruct (bytes_eqb (j_id h) id); auto.
  Qed.

  Lemma step_job_at s o id j :
    o <> OGenesisRoundTrip -> job_at s id = Some j -> job_at (step s o) id = Some j.
  Proof.
    unfold job_at, Jobs.step. intros NG H.
    destruct (step_res_shape s o); cbn; rewrite ?pre_state_jobs, ?hook_jobs; auto; [|contradiction].
    now apply find_job_app_some.
  Qed.

  Lemma job_immutable_from s ops id j :
    ~ In OGenesisRoundTrip ops ->
    job_at s id = Some j -> job_at (run_from s ops) id = Some j.
  Proof.
    intros NG H. induction ops as [|o ops IH] using rev_ind; [exact H|].
    rewrite run_from_snoc. apply step_job_at.
    - intros ->. apply NG. apply in_or_app. right. now left.
    - apply IH. intros I. apply NG. apply in_or_app. now left.
  Qed.

  (** No sequence of requests of any entry point, snapshot publications and block hooks changes a
      stored job.  (The one operation that is excluded is not a request: a genesis export/import of
      the module, which drops every job -- see [genesis_round_trip_drops_jobs].) *)
  Theorem job_immutable chs ops ops' id j :
    ~ In OGenesisRoundTrip ops' ->
    job_at (run chs ops) id = Some j -> job_at (run chs (ops ++ ops')) id = Some j.
  Proof.
    unfold Jobs.run. rewrite run_from_app. apply job_immutable_from.
  Qed.

  (** the job list itself only grows at the end: no entry is rewritten or removed *)
  Lemma step_jobs_prefix s o : o <> OGenesisRoundTrip -> exists l, jobs (step s o) = jobs s ++ l.
  Proof.
    intros NG. unfold Jobs.step. destruct (step_res_shape s o); cbn; rewrite ?pre_state_jobs, ?hook_jobs;
      try contradiction; try (exists []; now rewrite app_nil_r). now eexists.
  Qed.

  Theorem jobs_only_appended chs ops ops' :
    ~ In OGenesisRoundTrip ops' ->
    exists l, jobs (run chs (ops ++ ops')) = jobs (run chs ops) ++ l.
  Proof.
    unfold Jobs.run. rewrite run_from_app. generalize (run_from (init chs) ops) as s. intros s NG.
    induction ops' as [|o ops' IH] using rev_ind; [exists []; now rewrite app_nil_r|].
    rewrite run_from_snoc.
    destruct IH as [l IH]. { intros I. apply NG. apply in_or_app. now left. }
    destruct (step_jobs_prefix (run_from s ops') o) as [l' E].
    { intros ->. apply NG. apply in_or_app. right. now left. }
    exists (l ++ l'). now rewrite E, IH, app_assoc.
  Qed.

  (** Across a genesis export / import of the scheduler module: the exported state carries no jobs
      and the import writes none, so the store is empty afterwards -- nothing is created or altered
      by the import, everything is lost.  The turnstone queues are not the module's. *)
  Theorem genesis_round_trip_drops_jobs s :
    jobs (step s OGenesisRoundTrip) = [] /\ queue (step s OGenesisRoundTrip) = queue s /\
    chains (step s OGenesisRoundTrip) = chains s /\ snd (step_res s OGenesisRoundTrip) = Ok.
  Proof. now repeat split. Qed.

  (** every stored job is, field for field, the job of an accepted create request of the history
      (in particular its owner is that request's creator) *)
  Lemma step_job_origin s o j :
    In j (jobs (step s o)) -> In j (jobs s) \/ o = OCreate j true.
  Proof.
    unfold Jobs.step.
    destruct (step_res_shape s o) as [e | k vb -> -> _ _ _ _ | x k c _ _ | x k e _ _ _ | c pre _ | _ | _];
      cbn; rewrite ?pre_state_jobs, ?hook_jobs; auto; [|intros []].
    intros H. apply in_app_or in H as [H|[<-|[]]]; auto.
  Qed.

  Theorem stored_job_is_created_job chs ops j :
    In j (jobs (run chs ops)) -> In (OCreate j true) ops.
  Proof.
    unfold Jobs.run. induction ops as [|o ops IH] using rev_ind; [intros []|].
    rewrite run_from_snoc. intros H. apply in_or_app.
    apply step_job_origin in H as [H | ->]; [left; auto | right; now left].
  Qed.

  (** stronger: the create request that stored the job came after the last genesis round trip *)
  Theorem stored_job_created_since_last_round_trip chs ops ops' j :
    In j (jobs (run chs (ops ++ OGenesisRoundTrip :: ops'))) -> In (OCreate j true) ops'.
  Proof.
    unfold Jobs.run. rewrite run_from_app. cbn [Jobs.run_from fold_left].
    change (fold_left step ops' ?s) with (run_from s ops').
    generalize (run_from (init chs) ops) as s0. intros s0.
    induction ops' as [|o ops' IH] using rev_ind; [intros []|].
    rewrite run_from_snoc. intros H. apply in_or_app.
    apply step_job_origin in H as [H | ->]; [left; auto | right; now left].
  Qed.

  (** ** a successful execute enqueues exactly the stored call *)

  Theorem execute_enqueues_exactly_stored_call chs ops o x :
    let s := run chs ops in
    exec_req o = Some x ->
    snd (step_res s o) = Ok ->
    exists j c,
      (* the job exists, and is not touched *)
      job_at s (x_id x) = Some j /\ jobs (step s o) = jobs s /\
      (* exactly one call, after what the valset hook did to the queue of the job's chain: nothing,
         or every queued valset update of that chain replaced by exactly one new one *)
      queue (step s o) =
        match x_pre x with
        | Some v => if has_valset (j_cref j) v (queue s) then queue s
                    else drop_valsets (j_cref j) (queue s) ++ [QValset (j_cref j) (c_turnstone c) v]
        | None => queue s
        end ++ [QCall c] /\
      (* on the job's chain, to the job's contract, assigned as selected *)
      c_chain c = j_cref j /\ chain_info chs (j_cref j) = Some (c_turnstone c) /\
      (exists abi, dec_def (j_def j) = Some (abi, c_contract c)) /\
      x_pick x = Some (c_assignee c) /\ c_mev c = j_mev j /\
      (* payload: the supplied one iff the job is modifiable (and one was supplied), else the stored one *)
      (j_modifiable j = false -> nonempty (x_in x) = false) /\
      (exists base hx b sfx,
          base = (if j_modifiable j then match x_in x with Some p => p | None => j_payload j end
                  else j_payload j) /\
          dec_pay base = Some hx /\ from_hex hx = Some b /\
          (* ... followed by the caller's address left-padded to 32 bytes *)
          pad32 (caller_of (x_sender x) (x_contract x)) = Some sfx /\ length sfx = 32%nat /\
          c_payload c = b ++ sfx).
  Proof.
    intros s Hreq Hok. unfold Jobs.step.
    pose proof (run_inv chs ops) as I. fold s in I. rewrite <- (run_chains chs ops) in I. fold s in I.
    destruct (step_res_shape s o) as [e | k vb -> _ _ _ _ _ | x' j c Hx RF | x' j e _ _ _ | c' pre E | E | E];
      cbn in Hok; try discriminate; try (subst o; discriminate).
    rewrite Hreq in Hx. inversion Hx; subst x'; clear Hx.
    destruct RF as [J G (hx & b & sfx & P1 & P2 & P3 & P4) (abi & D1 & D2) (C1 & C2) (I1 & I2 & I3) K].
    exists j, c. cbn.
    rewrite pre_state_jobs. unfold pre_state. rewrite (hook_closed _ _ _ I). unfold hook_queue. rewrite C2.
    assert (C2' := C2). subst s. rewrite run_chains in C2'.
    repeat split; auto.
    - now exists abi.
    - intros M. destruct (nonempty (x_in x)); [|reflexivity]. rewrite G in M; [discriminate | reflexivity].
    - exists (base_payload j (x_in x)), hx, b, sfx. repeat split; auto.
      now apply pad32_some in P3 as (_ & _ & L).
  Qed.

  (** The contract path, end to end: the bytes a contract passes to the binding are the bytes of
      the call (given only that Go's JSON decoder reads back the document the binding printed), and
      the identity in the suffix is the dispatching contract's, whatever the message claims. *)
  Theorem wasm_execute_calls_with_raw_payload chs ops id raw caddr claimed pre pick atm :
    let s := run chs ops in
    let o := OWasmExec id raw caddr claimed pre pick atm in
    dec_pay (wasm_wrap raw) = Some (hex_encode raw) ->
    Forall is_byte raw ->
    snd (step_res s o) = Ok ->
    exists j c sfx,
      job_at s id = Some j /\ j_modifiable j = true /\ raw <> [] /\
      queue (step s o) = hook_queue chs (queue s) (j_cref j) pre ++ [QCall c] /\
      pad32 caddr = Some sfx /\ c_payload c = raw ++ sfx /\
      c_sender c = Some caddr /\ c_contractaddr c = Some caddr.
  Proof.
    intros s o Hdec Hbytes Hok.
    pose proof (run_inv chs ops) as I. fold s in I. rewrite <- (run_chains chs ops) in I. fold s in I.
    destruct (wasm_exec_cases s id raw caddr pre pick atm) as [[E _] | (E & Hid & Hraw)].
    { subst o. cbn [Jobs.step_res] in Hok. rewrite E in Hok. discriminate. }
    unfold Jobs.step. subst o. cbn [Jobs.step_res] in *. rewrite E in *.
    destruct (exec s _) as [s' [|e]] eqn:E2; [|discriminate].
    apply exec_ok in E2 as (j & c & RF & ->).
    destruct RF as [J G (hx & b & sfx & P1 & P2 & P3 & P4) _ _ (I1 & I2 & _) _]. cbn in *.
    assert (M : j_modifiable j = true) by (apply G; unfold wasm_wrap; reflexivity).
    unfold base_payload in P1. rewrite M, Hdec in P1. inversion P1; subst hx.
    rewrite (from_hex_encode _ Hbytes) in P2. inversion P2; subst b.
    exists j, c, sfx. unfold pre_state. rewrite (hook_closed _ _ _ I). cbn.
    subst s. rewrite run_chains. repeat split; auto.
  Qed.

  (** ** the identity in the suffix is the real caller's *)

  (** who really requested the run: the creator of an authorised MsgExecuteJob, the contract that
      dispatched the wasm message (not what the message's body says) *)
  Definition real_caller (o : op) : option bytes :=
    match o with
    | OMsgExec cr _ _ _ _ _ _ _ => Some cr
    | OWasmExec _ _ caddr _ _ _ _ => Some caddr
    | OLegacyExec _ _ caddr _ _ _ _ => Some caddr
    | _ => None
    end.

  Theorem run_suffix_is_real_caller s o a :
    real_caller o = Some a ->
    snd (step_res s o) = Ok ->
    exists q c b sfx,
      queue (step s o) = q ++ [QCall c] /\
      pad32 a = Some sfx /\ length sfx = 32%nat /\ c_payload c = b ++ sfx /\
      c_sender c = Some a /\
      match o with
      | OMsgExec _ au ac _ _ _ _ _ => au = true /\ ac = true /\ c_contractaddr c = None
      | _ => c_contractaddr c = Some a
      end.
  Proof.
    intros R Hok. unfold Jobs.step.
    assert (X : exists x, exec_req o = Some x /\ x_sender x = Some a /\
                (match o with
                 | OMsgExec _ au ac _ _ _ _ _ => au = true /\ ac = true /\ x_contract x = None
                 | _ => x_contract x = Some a end)).
    { destruct o as [j vb | x | cr au ac id inp pre pick atm | id raw caddr cl pre pick atm
                    | id raw caddr cl pre pick atm | c pre | | ]; cbn in R; try discriminate;
        inversion R; subst; eexists; (split; [reflexivity|]); cbn; repeat split.
      - cbn [Jobs.step_res] in Hok. unfold Jobs.msg_exec in Hok. now destruct au.
      - cbn [Jobs.step_res] in Hok. unfold Jobs.msg_exec in Hok. destruct au; [|discriminate]. now destruct ac. }
    destruct X as (x & Hx & Hs & Hc).
    destruct (step_res_shape s o) as [e | k vb -> _ _ _ _ _ | x' j c Hx' RF | x' j e _ _ _ | c' pre E | E | E];
      cbn in Hok; try discriminate; try (subst o; discriminate).
    rewrite Hx in Hx'. inversion Hx'; subst x'; clear Hx'.
    destruct RF as [_ _ (hx & b & sfx & _ & _ & P3 & P4) _ _ (I1 & I2 & _) _].
    unfold caller_of in P3. rewrite Hs in P3.
    exists (queue (pre_state s x j)), c, b, sfx. cbn.
    split; [reflexivity|]. split; [exact P3|].
    split; [now apply pad32_some in P3 as (_ & _ & L)|].
    split; [exact P4|]. split; [congruence|].
    destruct o; congruence.
  Qed.

  (** A job whose payload is not modifiable can never be run by a contract: both bindings always
      hand a (non-empty) payload document to the keeper, and ScheduleNow refuses it.  Such a run does
      not happen at all -- nothing is enqueued ([failed_execute_enqueues_none]) -- so this is a
      restriction of who can run a fixed job, not a run with a wrong call. *)
  Theorem contract_cannot_run_fixed_job s id raw caddr claimed pre pick atm j :
    job_at s id = Some j -> j_modifiable j = false ->
    snd (step_res s (OWasmExec id raw caddr claimed pre pick atm)) <> Ok /\
    snd (step_res s (OLegacyExec id raw caddr claimed pre pick atm)) <> Ok.
  Proof.
    intros J M.
    assert (K : forall x, x_id x = id -> x_in x = Some (wasm_wrap raw) -> snd (exec s x) <> Ok).
    { intros x Hi Hin. unfold Jobs.exec, Jobs.exec_raw. rewrite Hi, J, Hin, M. cbn.
      destruct (x_atomic x); cbn; discriminate. }
    split; cbn [Jobs.step_res].
    - destruct (wasm_exec_cases s id raw caddr pre pick atm) as [[E _] | (E & _ & _)]; rewrite E;
        [cbn; discriminate | now apply K].
    - destruct (legacy_exec_cases s id raw caddr pre pick atm) as [[E _] | (E & _)]; rewrite E;
        [cbn; discriminate | now apply K].
  Qed.

  (** ** a failed request enqueues no contract call *)

  Definition atomic_op (o : op) : bool :=
    match o with
    | OExec x => x_atomic x
    | OMsgExec _ _ _ _ _ _ _ atm => atm
    | OWasmExec _ _ _ _ _ _ atm => atm
    | OLegacyExec _ _ _ _ _ _ atm => atm
    | _ => true
    end.

  Theorem failed_execute_enqueues_none chs ops o e :
    let s := run chs ops in
    snd (step_res s o) = Err e ->
    jobs (step s o) = jobs s /\
    calls_of (queue (step s o)) = calls_of (queue s) /\
    (atomic_op o = true -> step s o = s) /\
    (step s o = s \/
     exists x j, exec_req o = Some x /\ x_atomic x = false /\ job_at s (x_id x) = Some j /\
                 queue (step s o) = hook_queue chs (queue s) (j_cref j) (x_pre x)).
  Proof.
    intros s Herr. unfold Jobs.step.
    pose proof (run_inv chs ops) as I. fold s in I. rewrite <- (run_chains chs ops) in I. fold s in I.
    destruct (step_res_shape s o) as [e' | k vb -> _ _ _ _ _ | x j c _ _ | x j e' Hx Hat J | c' pre E | E | E];
      cbn in Herr; try discriminate; cbn.
    - repeat split; auto.
    - rewrite pre_state_jobs, pre_state_calls. repeat split; auto.
      + intros A. destruct o as [? ? | x' | ? ? ? ? ? ? ? atm | ? ? ? ? ? ? atm | ? ? ? ? ? ? atm | ? ? | | ];
          cbn in *; try discriminate; inversion Hx; subst; cbn in *; congruence.
      + right. exists x, j. repeat split; auto.
        unfold pre_state. rewrite (hook_closed _ _ _ I). subst s. now rewrite run_chains.
  Qed.

  (** a create request never touches a queue *)
  Theorem create_never_enqueues s j vb : queue (step s (OCreate j vb)) = queue s.
  Proof.
    unfold Jobs.step. cbn [Jobs.step_res].
    destruct (create_spec s j vb) as [E | (E & _)]; now rewrite E.
  Qed.

  (** calls are never removed from the queue, and one request adds at most one *)
  Theorem at_most_one_call_per_request s o :
    exists l, calls_of (queue (step s o)) = calls_of (queue s) ++ l /\ (length l <= 1)%nat.
  Proof.
    unfold Jobs.step. destruct (step_res_shape s o); cbn;
      try (exists []; rewrite ?pre_state_calls, ?hook_calls, app_nil_r; auto; fail).
    rewrite calls_of_app, pre_state_calls. cbn. eexists. split; [reflexivity | cbn; lia].
  Qed.

  (** the snapshot listener's publication and the block hooks: no job, no call, no other chain's
      queue is touched *)
  Theorem environment_steps_touch_only_valset_updates chs ops c pre :
    let s := run chs ops in
    jobs (step s (OPublish c pre)) = jobs s /\
    queue (step s (OPublish c pre)) = hook_queue chs (queue s) c pre /\
    calls_of (queue (step s (OPublish c pre))) = calls_of (queue s) /\
    others c (queue (step s (OPublish c pre))) = others c (queue s) /\
    step s OBlock = s.
  Proof.
    intros s. pose proof (run_inv chs ops) as I. fold s in I. rewrite <- (run_chains chs ops) in I. fold s in I.
    unfold Jobs.step. cbn [Jobs.step_res fst].
    rewrite hook_jobs, hook_calls, (hook_closed _ _ _ I). subst s. rewrite run_chains.
    repeat split. apply hook_queue_others.
  Qed.

  (** ** every call in the queue is the call of a job that is (still, unchanged) in the store *)

  Definition call_of_job (js : list job) (c : call) : Prop :=
    exists j, In j js /\
      c_chain c = j_cref j /\ c_mev c = j_mev j /\
      (exists abi, dec_def (j_def j) = Some (abi, c_contract c)) /\
      exists base hx b caller sfx,
        dec_pay base = Some hx /\ from_hex hx = Some b /\ pad32 caller = Some sfx /\
        c_payload c = b ++ sfx /\
        caller = caller_of (c_sender c) (c_contractaddr c) /\
        (j_modifiable j = false -> base = j_payload j).

  Lemma call_of_job_mono js l c : call_of_job js c -> call_of_job (js ++ l) c.
  Proof.
    intros (j & Hin & H). exists j. split; [apply in_or_app; now left | exact H].
  Qed.

  Lemma find_job_in js id j : find_job js id = Some j -> In j js.
  Proof. unfold find_job. intros H. now apply find_some in H as [H _]. Qed.

  Lemma run_facts_call_of_job s x j c : run_facts s x j c -> call_of_job (jobs s) c.
  Proof.
    intros [J G (hx & b & sfx & P1 & P2 & P3 & P4) (abi & D1 & _) (C1 & _) (I1 & I2 & I3) _].
    exists j. split; [now apply find_job_in in J|].
    repeat split; auto.
    - now exists abi.
    - exists (base_payload j (x_in x)), hx, b, (caller_of (x_sender x) (x_contract x)), sfx.
      repeat split; auto.
      + now rewrite I1, I2.
      + intros M. unfold base_payload. now rewrite M.
  Qed.

  Lemma step_calls_inv s o :
    o <> OGenesisRoundTrip ->
    Forall (call_of_job (jobs s)) (calls_of (queue s)) ->
    Forall (call_of_job (jobs (step s o))) (calls_of (queue (step s o))).
  Proof.
    intros NG Inv. unfold Jobs.step.
    destruct (step_res_shape s o) as [e | k vb _ _ _ _ _ _ | x j c _ RF | x j e _ _ _ | c pre _ | E | _]; cbn.
    - exact Inv.
    - eapply Forall_impl; [|exact Inv]. intros c. apply call_of_job_mono.
    - rewrite pre_state_jobs, calls_of_app, pre_state_calls. apply Forall_app. split; [exact Inv|].
      cbn. constructor; [|constructor]. now apply run_facts_call_of_job in RF.
    - now rewrite pre_state_jobs, pre_state_calls.
    - now rewrite hook_jobs, hook_calls.
    - contradiction.
    - exact Inv.
  Qed.

  (** (a genesis round trip of the scheduler module alone would leave queued calls whose jobs are
      gone: the statement is for histories of requests, publications and block hooks) *)
  Theorem every_call_is_a_stored_jobs_call chs ops c :
    ~ In OGenesisRoundTrip ops ->
    In c (calls_of (queue (run chs ops))) -> call_of_job (jobs (run chs ops)) c.
  Proof.
    intros NG.
    assert (H : Forall (call_of_job (jobs (run chs ops))) (calls_of (queue (run chs ops)))).
    { unfold Jobs.run. induction ops as [|o ops IH] using rev_ind; [constructor|].
      rewrite run_from_snoc. apply step_calls_inv.
      - intros ->. apply NG. apply in_or_app. right. now left.
      - apply IH. intros I. apply NG. apply in_or_app. now left. }
    intros Hin. rewrite Forall_forall in H. now apply H.
  Qed.
End Proofs.

(** * Non-vacuity: a concrete history (the JSON decoders of the examples: the definition is the
    contract address itself with an empty ABI, the payload document is the hex string itself) *)

Definition ex_dec_def (d : bytes) : option (bytes * bytes) := match d with [] => None | _ => Some ([], d) end.
Definition ex_dec_pay (p : bytes) : option bytes :=
  match p with
  | 123 :: _ => (* a wrapped document: strip {"hexPayload":" and "} *)
      Some (firstn (length p - 17) (skipn 15 p))
  | _ => Some p
  end.

Definition ex_chs : list (bytes * bytes) := [([1], [91]); ([2], [92])].
Definition ex_acct : bytes := repeat 7 20.
Definition ex_contract : bytes := repeat 9 32.
(* "a9059c" / "ff" *)
Definition ex_job1 : job := mkJob [106; 49] ex_acct evm_type [1] [200] [97; 57; 48; 53; 57; 99] false false.
Definition ex_job2 : job := mkJob [106; 50] ex_contract evm_type [2] [201] [102; 102] true true.
Definition ex_other : bytes := repeat 5 20.
Definition ex_ops : list op :=
  [ OPublish [1] (Some 1);                                                                  (* first snapshot announced on chain 1 *)
    OCreate ex_job1 true;
    OCreate ex_job2 true;
    OCreate (mkJob [106; 49] ex_contract evm_type [2] [202] [102; 102] true false) true;   (* duplicate id *)
    OMsgExec ex_acct true true [106; 49] None (Some 2) (Some 3) true;                       (* account caller, stored payload; hook replaces update 1 by 2 *)
    OExec (mkExec [106; 49] (Some [102; 102]) (Some ex_acct) None None (Some 3) true);      (* fixed job, supplied payload: refused *)
    OWasmExec [106; 50] [1; 2; 255] ex_contract ex_other None (Some 4) true;                (* contract caller naming another sender, supplied payload *)
    OExec (mkExec [106; 50] None None (Some ex_contract) (Some 2) None false);              (* selection fails after the hook *)
    OExec (mkExec [106; 50] None (Some (repeat 1 33)) None None (Some 1) true);             (* 33-byte sender *)
    OMsgExec ex_other false true [106; 49] None None (Some 3) true;                         (* creator not authorised by the signers *)
    OMsgExec ex_other true false [106; 49] None None (Some 3) true;                         (* creator without account: panic *)
    OMsgExec ex_acct true true [106; 49] None (Some 2) (Some 3) true;                       (* hook: update 2 already queued, nothing to do *)
    OLegacyExec [106; 49] [1] ex_contract ex_other None (Some 4) true;                      (* a contract cannot run a fixed job *)
    OBlock;
    OGenesisRoundTrip;
    OCreate (mkJob [106; 49] ex_other evm_type [2] [202] [102; 102] true false) true ].     (* the id is free again *)

Example ex_history :
  let s := run ex_dec_def ex_dec_pay ex_chs (firstn 14 ex_ops) in
  jobs s = [ex_job1; ex_job2] /\
  queue s =
    [ QValset [1] [91] 2;
      QCall (mkCall [1] [91] [200] [] ([169; 5; 156] ++ repeat 0 12 ++ ex_acct) (Some ex_acct) None false 3);
      QCall (mkCall [2] [92] [201] [] ([1; 2; 255] ++ ex_contract) (Some ex_contract) (Some ex_contract) true 4);
      QValset [2] [92] 2;
      QCall (mkCall [1] [91] [200] [] ([169; 5; 156] ++ repeat 0 12 ++ ex_acct) (Some ex_acct) None false 3) ] /\
  queue (run ex_dec_def ex_dec_pay ex_chs (firstn 5 ex_ops)) =
    [ QValset [1] [91] 2;
      QCall (mkCall [1] [91] [200] [] ([169; 5; 156] ++ repeat 0 12 ++ ex_acct) (Some ex_acct) None false 3) ] /\
  map (fun k => snd (step_res ex_dec_def ex_dec_pay (run ex_dec_def ex_dec_pay ex_chs (firstn k ex_ops)) (nth k ex_ops OBlock)))
      [0; 1; 2; 3; 4; 5; 6; 7; 8; 9; 10; 11; 12; 13; 14; 15]%nat
  = [Ok; Ok; Ok; Err ERejected; Ok; Err ECannotModify; Ok; Err EPick; Err EPad; Err EUnauthorised; Err EPanic; Ok;
     Err ECannotModify; Ok; Ok; Ok].
Proof. vm_compute. repeat split. Qed.

(** Across a genesis export / import the job under an id is NOT preserved: the store is emptied,
    and the id can be taken by another owner with another contract.  (Replayed on the real keeper:
    harness/corpus/C17/genesis_round_trip_drops_jobs.json.)  This is why [job_immutable] excludes
    that one operation, which is not a request. *)
Example job_immutable_across_genesis_round_trip_refuted :
  job_at (run ex_dec_def ex_dec_pay ex_chs (firstn 14 ex_ops)) [106; 49] = Some ex_job1 /\
  job_at (run ex_dec_def ex_dec_pay ex_chs (firstn 15 ex_ops)) [106; 49] = None /\
  job_at (run ex_dec_def ex_dec_pay ex_chs ex_ops) [106; 49] =
    Some (mkJob [106; 49] ex_other evm_type [2] [202] [102; 102] true false).
Proof. vm_compute. repeat split. Qed.

(** SendValsetMsgForChain on queues outside the invariant (they do not arise from histories, the
    model function is nevertheless the code's): a message with another turnstone id stops the scan
    -- the update deleted before it stays deleted and nothing is appended; an update with the same
    id stops it as well. *)
Example ex_send_valset_foreign_turnstone :
  send_valset [1] [91] 3 [QValset [1] [91] 1; QValset [1] [90] 2; QValset [1] [91] 2] =
    [QValset [1] [90] 2; QValset [1] [91] 2] /\
  send_valset [1] [91] 3 [QValset [1] [91] 1; QValset [1] [91] 3; QValset [1] [91] 2] =
    [QValset [1] [91] 3; QValset [1] [91] 2] /\
  send_valset [1] [91] 3 [QValset [1] [91] 1; QValset [2] [92] 1; QValset [1] [91] 2] =
    [QValset [2] [92] 1; QValset [1] [91] 3].
Proof. vm_compute. repeat split. Qed.

(** the hypotheses of the contract-path theorem are satisfiable *)
Example ex_wasm_hyp : ex_dec_pay (wasm_wrap [1; 2; 255]) = Some (hex_encode [1; 2; 255]) /\ Forall is_byte [1; 2; 255].
Proof. split; [reflexivity | repeat constructor; unfold is_byte; lia]. Qed.

(** what the lenient decoder alone would do with a payload that is not hex: truncate.  This is the
    behaviour the validation in unmarshalJob rules out ("12zz34"). *)
Example ex_lenient_truncates :
  from_hex_lenient [49; 50; 122; 122; 51; 52] = [18] /\ from_hex [49; 50; 122; 122; 51; 52] = None.
Proof. split; reflexivity. Qed.

(** odd length and 0x prefix: "0xabc" = 0x0a 0xbc *)
Example ex_odd : from_hex [48; 120; 97; 98; 99] = Some [10; 188].
Proof. reflexivity. Qed.
