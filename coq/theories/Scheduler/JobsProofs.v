(** C17 — proofs about the scheduler model (Scheduler/Jobs.v). *)
From Coq Require Import List ZArith Bool Lia.
From Paloma Require Import Base.Corr Scheduler.Jobs.
From Paloma Require Gen.C17.
Import ListNotations.
Open Scope Z_scope.

(** * Byte strings *)

Lemma bytes_eqb_eq a b : bytes_eqb a b = true <-> a = b.
Proof. apply list_eqb_eq. intros; apply Z.eqb_eq. Qed.

Lemma bytes_eqb_refl a : bytes_eqb a a = true.
Proof. now apply bytes_eqb_eq. Qed.

Lemma bytes_eqb_neq a b : bytes_eqb a b = false <-> a <> b.
Proof.
  split; intros H.
  - intros E. apply bytes_eqb_eq in E. congruence.
  - destruct (bytes_eqb a b) eqn:E; [apply bytes_eqb_eq in E; contradiction | reflexivity].
Qed.

(** * Hex *)

Lemma pairs_ind (P : bytes -> Prop) :
  P [] -> (forall a, P [a]) -> (forall a b r, P r -> P (a :: b :: r)) -> forall s, P s.
Proof.
  intros H0 H1 H2. fix IH 1. intros s. destruct s as [|a [|b r]].
  - exact H0.
  - apply H1.
  - apply H2. apply IH.
Qed.

(** When the strict decoder accepts, the lenient one (what common.FromHex computes) returns the
    same bytes: after validation nothing is truncated. *)
Lemma hex_pairs_lenient_of_strict s b : hex_pairs s = Some b -> hex_pairs_lenient s = b.
Proof.
  revert b. induction s as [| a | a c r IH] using pairs_ind; intros b H.
  - inversion H. reflexivity.
  - discriminate.
  - cbn [hex_pairs] in H. cbn [hex_pairs_lenient].
    destruct (hexval a) as [x|]; [|discriminate].
    destruct (hexval c) as [y|]; [|discriminate].
    destruct (hex_pairs r) as [t|] eqn:E; [|discriminate].
    inversion H. f_equal. now apply IH.
Qed.

Lemma from_hex_lenient_of_strict s b : from_hex s = Some b -> from_hex_lenient s = b.
Proof. unfold from_hex, from_hex_lenient. apply hex_pairs_lenient_of_strict. Qed.

Lemma hexval_hexdigit d : 0 <= d < 16 -> hexval (hexdigit d) = Some d.
Proof.
  intros H.
  assert (I : In d [0;1;2;3;4;5;6;7;8;9;10;11;12;13;14;15]) by (simpl; lia).
  simpl in I.
  repeat (destruct I as [<-|I]; [reflexivity|]). contradiction.
Qed.

Lemma hexdigit_not_x d : 0 <= d < 16 -> ((hexdigit d =? 120) || (hexdigit d =? 88)) = false.
Proof.
  intros H. unfold hexdigit. destruct (d <? 10) eqn:E.
  - apply Z.ltb_lt in E. apply orb_false_iff; split; apply Z.eqb_neq; lia.
  - apply Z.ltb_ge in E. apply orb_false_iff; split; apply Z.eqb_neq; lia.
Qed.

Definition is_byte (x : Z) : Prop := 0 <= x < 256.

Lemma hex_encode_cons x r :
  hex_encode (x :: r) = hexdigit (x / 16) :: hexdigit (x mod 16) :: hex_encode r.
Proof. reflexivity. Qed.

Lemma hex_encode_even r : Nat.even (length (hex_encode r)) = true.
Proof. induction r as [|x r IH]; [reflexivity|]. rewrite hex_encode_cons. exact IH. Qed.

Lemma hex_pairs_encode r : Forall is_byte r -> hex_pairs (hex_encode r) = Some r.
Proof.
  induction 1 as [|x r Hx Hr IH]; [reflexivity|].
  rewrite hex_encode_cons. cbn [hex_pairs].
  unfold is_byte in Hx.
  assert (H1 : 0 <= x / 16 < 16) by (split; [apply Z.div_pos; lia | apply Z.div_lt_upper_bound; lia]).
  assert (H2 : 0 <= x mod 16 < 16) by (apply Z.mod_pos_bound; lia).
  rewrite (hexval_hexdigit _ H1), (hexval_hexdigit _ H2), IH.
  f_equal. f_equal. symmetry. apply Z.div_mod. lia.
Qed.

(** hex.EncodeToString followed by FromHex (+ validation) is the identity on byte strings: what a
    contract hands to the binding is what is decoded again. *)
Lemma from_hex_encode r : Forall is_byte r -> from_hex (hex_encode r) = Some r.
Proof.
  intros H. unfold from_hex.
  assert (S : strip0x (hex_encode r) = hex_encode r).
  { destruct H as [|x r Hx Hr]; [reflexivity|].
    rewrite hex_encode_cons. unfold strip0x.
    unfold is_byte in Hx.
    assert (H2 : 0 <= x mod 16 < 16) by (apply Z.mod_pos_bound; lia).
    rewrite (hexdigit_not_x _ H2), andb_false_r. reflexivity. }
  rewrite S. unfold even_pad. rewrite hex_encode_even. now apply hex_pairs_encode.
Qed.

(** * The 32-byte suffix *)

Lemma some_inj {A} (a b : A) : Some a = Some b -> a = b.
Proof. now intros [= ->]. Qed.

Lemma NoDup_snoc {A} (l : list A) (x : A) : NoDup l -> ~ In x l -> NoDup (l ++ [x]).
Proof.
  intros N. induction N as [|y l Hy N IH]; intros H; cbn.
  - constructor; [intros [] | constructor].
  - constructor.
    + intros I. apply in_app_or in I as [I|[<-|[]]]; [contradiction | apply H; now left].
    + apply IH. intros I. apply H. now right.
Qed.

Lemma pad_size_32 : pad_size = 32.
Proof. reflexivity. Qed.

Lemma pad32_some b sfx :
  pad32 b = Some sfx ->
  (length b <= 32)%nat /\ sfx = repeat 0 (32 - length b) ++ b /\ length sfx = 32%nat.
Proof.
  unfold pad32. rewrite pad_size_32.
  destruct (Z.of_nat (length b) <=? 32) eqn:E; [|discriminate].
  apply Z.leb_le in E. change (Z.to_nat 32) with 32%nat. intros H. apply some_inj in H. subst sfx.
  split; [lia|]. split; [reflexivity|]. rewrite app_length, repeat_length. lia.
Qed.

Lemma pad32_none b : pad32 b = None <-> (32 < length b)%nat.
Proof.
  unfold pad32. rewrite pad_size_32.
  destruct (Z.of_nat (length b) <=? 32) eqn:E.
  - apply Z.leb_le in E. split; [discriminate | lia].
  - apply Z.leb_gt in E. split; [lia | reflexivity].
Qed.

Lemma pad32_20 a : length a = 20%nat -> pad32 a = Some (repeat 0 12 ++ a).
Proof.
  intros H. unfold pad32. rewrite pad_size_32, H. reflexivity.
Qed.

(** the suffix identifies the caller among addresses of the same length *)
Lemma pad32_injective a b sfx :
  pad32 a = Some sfx -> pad32 b = Some sfx -> length a = length b -> a = b.
Proof.
  intros Ha Hb L.
  apply pad32_some in Ha as (_ & Ea & _). apply pad32_some in Hb as (_ & Eb & _).
  rewrite Ea, L in Eb. now apply app_inv_head in Eb.
Qed.

(** the caller's bytes are the tail of the suffix *)
Lemma pad32_tail a sfx : pad32 a = Some sfx -> skipn (32 - length a) sfx = a.
Proof.
  intros H. apply pad32_some in H as (_ & E & _). subst sfx.
  rewrite skipn_app, repeat_length, Nat.sub_diag. cbn [skipn].
  rewrite skipn_all2; [reflexivity | rewrite repeat_length; lia].
Qed.

(** * The machine *)

Section Proofs.
  Variable dec_def : bytes -> option (bytes * bytes).
  Variable dec_pay : bytes -> option bytes.

  Notation create := (create dec_def dec_pay).
  Notation exec_raw := (exec_raw dec_def dec_pay).
  Notation exec := (exec dec_def dec_pay).
  Notation wasm_exec := (wasm_exec dec_def dec_pay).
  Notation legacy_exec := (legacy_exec dec_def dec_pay).
  Notation step_res := (step_res dec_def dec_pay).
  Notation step := (step dec_def dec_pay).
  Notation run_from := (run_from dec_def dec_pay).
  Notation run := (run dec_def dec_pay).

  (** ** create *)

  Lemma create_spec s j vb :
    (create s j vb = (s, Err ERejected)) \/
    (create s j vb = (mkState (chains s) (jobs s ++ [j]) (queue s), Ok) /\
     find_job (jobs s) (j_id j) = None /\ j_owner j <> [] /\ vb = true /\ j_ctype j = evm_type /\
     verify_job dec_def dec_pay (j_def j) (j_payload j) = true).
  Proof.
    unfold create.
    destruct (existsb (fun k => bytes_eqb (j_id k) (j_id j)) (jobs s)) eqn:Ex; [now left|].
    destruct (j_owner j) as [|o ow] eqn:Ow; [now left|].
    destruct vb; [|now left]. cbn [negb].
    destruct (bytes_eqb (j_ctype j) evm_type) eqn:Ct; [|now left]. cbn [negb].
    destruct (verify_job dec_def dec_pay (j_def j) (j_payload j)) eqn:Vj; [|now left]. cbn [negb].
    right. repeat split; try reflexivity.
    - unfold find_job. destruct (find _ (jobs s)) as [k|] eqn:F; [|reflexivity].
      apply find_some in F as [Hin Hk].
      assert (existsb (fun k => bytes_eqb (j_id k) (j_id j)) (jobs s) = true)
        by (apply existsb_exists; eauto). congruence.
    - discriminate.
    - now apply bytes_eqb_eq.
  Qed.

  (** ** execute *)

  Definition pre_state (s : state) (x : exec_in) (j : job) : state :=
    if x_pre x then enqueue s (QValset (j_cref j)) else s.

  (** everything a successful run establishes *)
  Record run_facts (s : state) (x : exec_in) (j : job) (c : call) : Prop := {
    rf_job : job_at s (x_id x) = Some j;
    rf_guard : nonempty (x_in x) = true -> j_modifiable j = true;
    rf_payload : exists hx b sfx,
        dec_pay (base_payload j (x_in x)) = Some hx /\ from_hex hx = Some b /\
        pad32 (caller_of (x_sender x) (x_contract x)) = Some sfx /\
        c_payload c = b ++ sfx;
    rf_contract : exists abi, dec_def (j_def j) = Some (abi, c_contract c) /\ c_abi c = from_hex_lenient abi;
    rf_chain : c_chain c = j_cref j /\ chain_info (chains s) (j_cref j) = Some (c_turnstone c);
    rf_ids : c_sender c = x_sender x /\ c_contractaddr c = x_contract x /\ c_mev c = j_mev j;
    rf_pick : x_pick x = Some (c_assignee c)
  }.

  Lemma exec_raw_ok s x s' :
    exec_raw s x = (s', Ok) ->
    exists j c, run_facts s x j c /\ s' = enqueue (pre_state s x j) (QCall c).
  Proof.
    unfold exec_raw. cbv zeta.
    destruct (job_at s (x_id x)) as [j|] eqn:Hj; [|discriminate].
    destruct (nonempty (x_in x) && negb (j_modifiable j)) eqn:Hg; [discriminate|].
    destruct (dec_def (j_def j)) as [[abi addr]|] eqn:Hd; [|discriminate].
    destruct (dec_pay (base_payload j (x_in x))) as [hx|] eqn:Hp; [|discriminate].
    destruct (from_hex hx) as [b|] eqn:Hh; [|discriminate].
    destruct (chain_info (chains s) (j_cref j)) as [ts|] eqn:Hc; [|discriminate].
    destruct (pad32 (caller_of (x_sender x) (x_contract x))) as [sfx|] eqn:Hs; [|discriminate].
    destruct (x_pick x) as [a|] eqn:Hk; [|discriminate].
    intros H. inversion H; subst s'; clear H.
    eexists j, _. split; [|reflexivity].
    constructor; cbn.
    - exact Hj.
    - intros N. rewrite N in Hg. cbn in Hg. now destruct (j_modifiable j).
    - exists hx, b, sfx. repeat split; auto. now rewrite (from_hex_lenient_of_strict _ _ Hh).
    - exists abi. now split.
    - now split.
    - now repeat split.
    - exact Hk.
  Qed.

  Lemma exec_raw_err s x s' e :
    exec_raw s x = (s', Err e) ->
    s' = s \/ exists j, job_at s (x_id x) = Some j /\ s' = pre_state s x j.
  Proof.
    unfold exec_raw. cbv zeta.
    destruct (job_at s (x_id x)) as [j|] eqn:Hj; [|intros H; inversion H; now left].
    intros H. right. exists j. split; [reflexivity|]. unfold pre_state.
    destruct (nonempty (x_in x) && negb (j_modifiable j)); [now inversion H|].
    destruct (dec_def (j_def j)) as [[abi addr]|]; [|now inversion H].
    destruct (dec_pay (base_payload j (x_in x))) as [hx|]; [|now inversion H].
    destruct (from_hex hx) as [b|]; [|now inversion H].
    destruct (chain_info (chains s) (j_cref j)) as [ts|]; [|now inversion H].
    destruct (pad32 (caller_of (x_sender x) (x_contract x))) as [sfx|]; [|now inversion H].
    destruct (x_pick x) as [a|]; [discriminate | now inversion H].
  Qed.

  Lemma exec_ok s x s' :
    exec s x = (s', Ok) ->
    exists j c, run_facts s x j c /\ s' = enqueue (pre_state s x j) (QCall c).
  Proof.
    unfold exec. destruct (exec_raw s x) as [s1 [|e]] eqn:E; [|discriminate].
    intros H; inversion H; subst. now apply exec_raw_ok.
  Qed.

  Lemma exec_err s x s' e :
    exec s x = (s', Err e) ->
    s' = s \/ (x_atomic x = false /\ exists j, job_at s (x_id x) = Some j /\ s' = pre_state s x j).
  Proof.
    unfold exec. destruct (exec_raw s x) as [s1 [|e1]] eqn:E; [discriminate|].
    intros H; inversion H; subst; clear H.
    destruct (x_atomic x); [now left|].
    apply exec_raw_err in E as [->|E]; [now left | right; now split].
  Qed.

  Lemma pre_state_jobs s x j : jobs (pre_state s x j) = jobs s.
  Proof. unfold pre_state. now destruct (x_pre x). Qed.
  Lemma pre_state_chains s x j : chains (pre_state s x j) = chains s.
  Proof. unfold pre_state. now destruct (x_pre x). Qed.
  Lemma pre_state_queue s x j :
    queue (pre_state s x j) = queue s ++ (if x_pre x then [QValset (j_cref j)] else []).
  Proof. unfold pre_state. destruct (x_pre x); cbn; [reflexivity | now rewrite app_nil_r]. Qed.

  Lemma calls_of_app q1 q2 : calls_of (q1 ++ q2) = calls_of q1 ++ calls_of q2.
  Proof.
    induction q1 as [|[c|c] q1 IH]; cbn; [reflexivity | exact IH | now rewrite IH].
  Qed.

  Lemma pre_state_calls s x j : calls_of (queue (pre_state s x j)) = calls_of (queue s).
  Proof.
    rewrite pre_state_queue, calls_of_app. destruct (x_pre x); cbn; now rewrite app_nil_r.
  Qed.

  (** the bindings' request as a keeper request *)
  Definition wasm_req (id raw caddr : bytes) (pre : bool) (pick : option Z) (atm : bool) : exec_in :=
    mkExec id (Some (wasm_wrap raw)) (Some caddr) (Some caddr) pre pick atm.

  Lemma wasm_exec_cases s id raw caddr pre pick atm :
    (wasm_exec s id raw caddr pre pick atm = (s, Err EWasmInvalid) /\ (id = [] \/ raw = [])) \/
    (wasm_exec s id raw caddr pre pick atm = exec s (wasm_req id raw caddr pre pick atm) /\ id <> [] /\ raw <> []).
  Proof.
    unfold wasm_exec, wasm_req. destruct id as [|i id]; [left; split; [now destruct raw | now left]|].
    destruct raw as [|r raw]; [left; split; [reflexivity | now right]|].
    right. repeat split; discriminate.
  Qed.

  Lemma legacy_exec_cases s id raw caddr pre pick atm :
    (legacy_exec s id raw caddr pre pick atm = (s, Err EWasmInvalid) /\ id = []) \/
    (legacy_exec s id raw caddr pre pick atm = exec s (wasm_req id raw caddr pre pick atm) /\ id <> []).
  Proof.
    unfold legacy_exec, wasm_req. destruct id as [|i id]; [left; now split|].
    right. split; [reflexivity | discriminate].
  Qed.

  (** ** one step: what can happen to the three components *)

  (** the request as seen by the keeper, for execute operations *)
  Definition exec_req (o : op) : option exec_in :=
    match o with
    | OCreate _ _ => None
    | OExec x => Some x
    | OWasmExec id raw caddr pre pick atm => Some (wasm_req id raw caddr pre pick atm)
    | OLegacyExec id raw caddr pre pick atm => Some (wasm_req id raw caddr pre pick atm)
    end.

  Inductive step_shape (s : state) (o : op) : state * result -> Prop :=
  | SNoop e : step_shape s o (s, Err e)
  | SCreated j vb :
      o = OCreate j vb -> vb = true -> find_job (jobs s) (j_id j) = None -> j_owner j <> [] ->
      j_ctype j = evm_type -> verify_job dec_def dec_pay (j_def j) (j_payload j) = true ->
      step_shape s o (mkState (chains s) (jobs s ++ [j]) (queue s), Ok)
  | SRan x j c :
      exec_req o = Some x -> run_facts s x j c ->
      step_shape s o (enqueue (pre_state s x j) (QCall c), Ok)
  | SFailedAfterHook x j e :
      exec_req o = Some x -> x_atomic x = false -> job_at s (x_id x) = Some j ->
      step_shape s o (pre_state s x j, Err e).

  Lemma step_res_shape s o : step_shape s o (step_res s o).
  Proof.
    destruct o as [j vb | x | id raw caddr pre pick atm | id raw caddr pre pick atm]; cbn [Jobs.step_res].
    - destruct (create_spec s j vb) as [E | (E & F & O & V & C & VJ)]; rewrite E.
      + constructor.
      + now apply (SCreated s _ j vb).
    - destruct (exec s x) as [s' [|e]] eqn:E.
      + apply exec_ok in E as (j & c & RF & ->). now apply (SRan s _ x j c).
      + apply exec_err in E as [-> | (A & j & J & ->)]; [constructor|].
        now apply (SFailedAfterHook s _ x j e).
    - destruct (wasm_exec_cases s id raw caddr pre pick atm) as [[E _] | (E & _ & _)]; rewrite E.
      + constructor.
      + destruct (exec s _) as [s' [|e]] eqn:E2.
        * apply exec_ok in E2 as (j & c & RF & ->). now apply (SRan s _ _ j c).
        * apply exec_err in E2 as [-> | (A & j & J & ->)]; [constructor|].
          now apply (SFailedAfterHook s _ _ j e).
    - destruct (legacy_exec_cases s id raw caddr pre pick atm) as [[E _] | (E & _)]; rewrite E.
      + constructor.
      + destruct (exec s _) as [s' [|e]] eqn:E2.
        * apply exec_ok in E2 as (j & c & RF & ->). now apply (SRan s _ _ j c).
        * apply exec_err in E2 as [-> | (A & j & J & ->)]; [constructor|].
          now apply (SFailedAfterHook s _ _ j e).
  Qed.

  Lemma step_chains s o : chains (step s o) = chains s.
  Proof.
    unfold Jobs.step. destruct (step_res_shape s o); cbn; auto using pre_state_chains.
  Qed.

  Lemma run_from_app s ops ops' : run_from s (ops ++ ops') = run_from (run_from s ops) ops'.
  Proof. unfold Jobs.run_from. apply fold_left_app. Qed.

  Lemma run_from_snoc s ops o : run_from s (ops ++ [o]) = step (run_from s ops) o.
  Proof. now rewrite run_from_app. Qed.

  Lemma run_chains chs ops : chains (run chs ops) = chs.
  Proof.
    unfold Jobs.run. induction ops as [|o ops IH] using rev_ind; [reflexivity|].
    now rewrite run_from_snoc, step_chains.
  Qed.

  (** ** job ids are unique *)

  Lemma find_job_none_notin js id :
    find_job js id = None -> ~ In id (map j_id js).
  Proof.
    intros F Hin. apply in_map_iff in Hin as (k & <- & Hk).
    unfold find_job in F. eapply find_none in F; [|exact Hk].
    cbn in F. now rewrite bytes_eqb_refl in F.
  Qed.

  Lemma step_nodup s o : NoDup (map j_id (jobs s)) -> NoDup (map j_id (jobs (step s o))).
  Proof.
    intros N. unfold Jobs.step.
    destruct (step_res_shape s o) as [e | j vb _ _ F _ _ _ | x j c _ _ | x j e _ _ _]; cbn;
      rewrite ?pre_state_jobs; auto.
    rewrite map_app. cbn. apply NoDup_snoc; auto. now apply find_job_none_notin.
  Qed.

  Lemma job_ids_unique_from s ops :
    NoDup (map j_id (jobs s)) -> NoDup (map j_id (jobs (run_from s ops))).
  Proof.
    intros N. induction ops as [|o ops IH] using rev_ind; [exact N|].
    rewrite run_from_snoc. now apply step_nodup.
  Qed.

  Theorem job_ids_unique chs ops : NoDup (map j_id (jobs (run chs ops))).
  Proof. apply job_ids_unique_from. constructor. Qed.

  (** ** jobs are immutable *)

  Lemma find_job_app_some js id j k : find_job js id = Some j -> find_job (js ++ [k]) id = Some j.
  Proof.
    unfold find_job. induction js as [|h js IH]; [discriminate|]. cbn.
    destruct (bytes_eqb (j_id h) id); auto.
  Qed.

  Lemma step_job_at s o id j : job_at s id = Some j -> job_at (step s o) id = Some j.
  Proof.
    unfold job_at, Jobs.step. intros H.
    destruct (step_res_shape s o); cbn; rewrite ?pre_state_jobs; auto.
    now apply find_job_app_some.
  Qed.

  Lemma job_immutable_from s ops id j :
    job_at s id = Some j -> job_at (run_from s ops) id = Some j.
  Proof.
    intros H. induction ops as [|o ops IH] using rev_ind; [exact H|].
    rewrite run_from_snoc. now apply step_job_at.
  Qed.

  Theorem job_immutable chs ops ops' id j :
    job_at (run chs ops) id = Some j -> job_at (run chs (ops ++ ops')) id = Some j.
  Proof.
    unfold Jobs.run. rewrite run_from_app. apply job_immutable_from.
  Qed.

  (** the job list itself only grows at the end: no entry is rewritten or removed *)
  Lemma step_jobs_prefix s o : exists l, jobs (step s o) = jobs s ++ l.
  Proof.
    unfold Jobs.step. destruct (step_res_shape s o); cbn; rewrite ?pre_state_jobs;
      try (exists []; now rewrite app_nil_r). now eexists.
  Qed.

  Theorem jobs_only_appended chs ops ops' :
    exists l, jobs (run chs (ops ++ ops')) = jobs (run chs ops) ++ l.
  Proof.
    unfold Jobs.run. rewrite run_from_app. generalize (run_from (init chs) ops) as s. intros s.
    induction ops' as [|o ops' IH] using rev_ind; [exists []; now rewrite app_nil_r|].
    rewrite run_from_snoc. destruct IH as [l IH]. destruct (step_jobs_prefix (run_from s ops') o) as [l' E].
    exists (l ++ l'). now rewrite E, IH, app_assoc.
  Qed.

  (** every stored job is, field for field, the job of an accepted create request of the history
      (in particular its owner is that request's creator) *)
  Lemma step_job_origin s o j :
    In j (jobs (step s o)) -> In j (jobs s) \/ o = OCreate j true.
  Proof.
    unfold Jobs.step. destruct (step_res_shape s o) as [e | k vb -> -> _ _ _ _ | x k c _ _ | x k e _ _ _];
      cbn; rewrite ?pre_state_jobs; auto.
    intros H. apply in_app_or in H as [H|[<-|[]]]; auto.
  Qed.

  Theorem stored_job_is_created_job chs ops j :
    In j (jobs (run chs ops)) -> In (OCreate j true) ops.
  Proof.
    unfold Jobs.run. induction ops as [|o ops IH] using rev_ind; [intros []|].
    rewrite run_from_snoc. intros H. apply in_or_app.
    apply step_job_origin in H as [H | ->]; [left; auto | right; now left].
  Qed.

  (** ** a successful execute enqueues exactly the stored call *)

  Theorem execute_enqueues_exactly_stored_call chs ops o x :
    let s := run chs ops in
    exec_req o = Some x ->
    snd (step_res s o) = Ok ->
    exists j c,
      (* the job exists, and is not touched *)
      job_at s (x_id x) = Some j /\ jobs (step s o) = jobs s /\
      (* exactly one call, after at most one valset update for the job's chain *)
      queue (step s o) = queue s ++ (if x_pre x then [QValset (j_cref j)] else []) ++ [QCall c] /\
      (* on the job's chain, to the job's contract, assigned as selected *)
      c_chain c = j_cref j /\ chain_info chs (j_cref j) = Some (c_turnstone c) /\
      (exists abi, dec_def (j_def j) = Some (abi, c_contract c)) /\
      x_pick x = Some (c_assignee c) /\ c_mev c = j_mev j /\
      (* payload: the supplied one iff the job is modifiable (and one was supplied), else the stored one *)
      (j_modifiable j = false -> nonempty (x_in x) = false) /\
      (exists base hx b sfx,
          base = (if j_modifiable j then match x_in x with Some p => p | None => j_payload j end
                  else j_payload j) /\
          dec_pay base = Some hx /\ from_hex hx = Some b /\
          (* ... followed by the caller's address left-padded to 32 bytes *)
          pad32 (caller_of (x_sender x) (x_contract x)) = Some sfx /\ length sfx = 32%nat /\
          c_payload c = b ++ sfx).
  Proof.
    intros s Hreq Hok. unfold Jobs.step.
    destruct (step_res_shape s o) as [e | k vb -> _ _ _ _ _ | x' j c Hx RF | x' j e _ _ _]; cbn in Hok;
      try discriminate.
    rewrite Hreq in Hx. inversion Hx; subst x'; clear Hx.
    destruct RF as [J G (hx & b & sfx & P1 & P2 & P3 & P4) (abi & D1 & D2) (C1 & C2) (I1 & I2 & I3) K].
    exists j, c. cbn.
    rewrite pre_state_jobs, pre_state_queue, <- app_assoc.
    subst s. rewrite run_chains in C2.
    repeat split; auto.
    - now exists abi.
    - intros M. destruct (nonempty (x_in x)); [|reflexivity]. rewrite G in M; [discriminate | reflexivity].
    - exists (base_payload j (x_in x)), hx, b, sfx. repeat split; auto.
      now apply pad32_some in P3 as (_ & _ & L).
  Qed.

  (** The contract path, end to end: the bytes a contract passes to the binding are the bytes of
      the call (given only that Go's JSON decoder reads back the document the binding printed). *)
  Theorem wasm_execute_calls_with_raw_payload chs ops id raw caddr pre pick atm :
    let s := run chs ops in
    let o := OWasmExec id raw caddr pre pick atm in
    dec_pay (wasm_wrap raw) = Some (hex_encode raw) ->
    Forall is_byte raw ->
    snd (step_res s o) = Ok ->
    exists j c sfx,
      job_at s id = Some j /\ j_modifiable j = true /\ raw <> [] /\
      queue (step s o) = queue s ++ (if pre then [QValset (j_cref j)] else []) ++ [QCall c] /\
      pad32 caddr = Some sfx /\ c_payload c = raw ++ sfx /\
      c_sender c = Some caddr /\ c_contractaddr c = Some caddr.
  Proof.
    intros s o Hdec Hbytes Hok.
    destruct (wasm_exec_cases s id raw caddr pre pick atm) as [[E _] | (E & Hid & Hraw)].
    { subst o. cbn [Jobs.step_res] in Hok. rewrite E in Hok. discriminate. }
    unfold Jobs.step. subst o. cbn [Jobs.step_res] in *. rewrite E in *.
    destruct (exec s _) as [s' [|e]] eqn:E2; [|discriminate].
    apply exec_ok in E2 as (j & c & RF & ->).
    destruct RF as [J G (hx & b & sfx & P1 & P2 & P3 & P4) _ _ (I1 & I2 & _) _]. cbn in *.
    assert (M : j_modifiable j = true) by (apply G; unfold wasm_wrap; reflexivity).
    unfold base_payload in P1. rewrite M, Hdec in P1. inversion P1; subst hx.
    rewrite (from_hex_encode _ Hbytes) in P2. inversion P2; subst b.
    exists j, c, sfx. rewrite pre_state_queue, <- app_assoc. cbn. repeat split; auto.
  Qed.

  (** ** a failed request enqueues no contract call *)

  Definition atomic_op (o : op) : bool :=
    match o with
    | OCreate _ _ => true
    | OExec x => x_atomic x
    | OWasmExec _ _ _ _ _ atm => atm
    | OLegacyExec _ _ _ _ _ atm => atm
    end.

  Theorem failed_execute_enqueues_none chs ops o e :
    let s := run chs ops in
    snd (step_res s o) = Err e ->
    jobs (step s o) = jobs s /\
    calls_of (queue (step s o)) = calls_of (queue s) /\
    (atomic_op o = true -> step s o = s) /\
    (step s o = s \/
     exists x j, exec_req o = Some x /\ job_at s (x_id x) = Some j /\ x_pre x = true /\
                 queue (step s o) = queue s ++ [QValset (j_cref j)]).
  Proof.
    intros s Herr. unfold Jobs.step.
    destruct (step_res_shape s o) as [e' | k vb -> _ _ _ _ _ | x j c _ _ | x j e' Hx Hat J]; cbn in Herr;
      try discriminate; cbn.
    - repeat split; auto.
    - rewrite pre_state_jobs, pre_state_calls. repeat split; auto.
      + intros A. destruct o as [? ? | x' | ? ? ? ? ? atm | ? ? ? ? ? atm]; cbn in *; try discriminate;
          inversion Hx; subst; cbn in *; congruence.
      + unfold pre_state. destruct (x_pre x) eqn:P; [right | now left].
        exists x, j. repeat split; auto.
  Qed.

  (** a create request never touches a queue *)
  Theorem create_never_enqueues s j vb : queue (step s (OCreate j vb)) = queue s.
  Proof.
    unfold Jobs.step. cbn [Jobs.step_res].
    destruct (create_spec s j vb) as [E | (E & _)]; now rewrite E.
  Qed.

  (** calls are never removed from the model queue, and one request adds at most one *)
  Theorem at_most_one_call_per_request s o :
    exists l, calls_of (queue (step s o)) = calls_of (queue s) ++ l /\ (length l <= 1)%nat.
  Proof.
    unfold Jobs.step. destruct (step_res_shape s o); cbn.
    - exists []. rewrite app_nil_r. auto.
    - exists []. rewrite app_nil_r. auto.
    - rewrite calls_of_app, pre_state_calls. cbn. eexists. split; [reflexivity | cbn; lia].
    - rewrite pre_state_calls. exists []. rewrite app_nil_r. auto.
  Qed.

  (** ** every call in the queue is the call of a job that is (still, unchanged) in the store *)

  Definition call_of_job (js : list job) (c : call) : Prop :=
    exists j, In j js /\
      c_chain c = j_cref j /\ c_mev c = j_mev j /\
      (exists abi, dec_def (j_def j) = Some (abi, c_contract c)) /\
      exists base hx b caller sfx,
        dec_pay base = Some hx /\ from_hex hx = Some b /\ pad32 caller = Some sfx /\
        c_payload c = b ++ sfx /\
        caller = caller_of (c_sender c) (c_contractaddr c) /\
        (j_modifiable j = false -> base = j_payload j).

  Lemma call_of_job_mono js l c : call_of_job js c -> call_of_job (js ++ l) c.
  Proof.
    intros (j & Hin & H). exists j. split; [apply in_or_app; now left | exact H].
  Qed.

  Lemma find_job_in js id j : find_job js id = Some j -> In j js.
  Proof. unfold find_job. intros H. now apply find_some in H as [H _]. Qed.

  Lemma run_facts_call_of_job s x j c : run_facts s x j c -> call_of_job (jobs s) c.
  Proof.
    intros [J G (hx & b & sfx & P1 & P2 & P3 & P4) (abi & D1 & _) (C1 & _) (I1 & I2 & I3) _].
    exists j. split; [now apply find_job_in in J|].
    repeat split; auto.
    - now exists abi.
    - exists (base_payload j (x_in x)), hx, b, (caller_of (x_sender x) (x_contract x)), sfx.
      repeat split; auto.
      + now rewrite I1, I2.
      + intros M. unfold base_payload. now rewrite M.
  Qed.

  Lemma step_calls_inv s o :
    Forall (call_of_job (jobs s)) (calls_of (queue s)) ->
    Forall (call_of_job (jobs (step s o))) (calls_of (queue (step s o))).
  Proof.
    intros Inv. unfold Jobs.step.
    destruct (step_res_shape s o) as [e | k vb _ _ _ _ _ _ | x j c _ RF | x j e _ _ _]; cbn.
    - exact Inv.
    - eapply Forall_impl; [|exact Inv]. intros c. apply call_of_job_mono.
    - rewrite pre_state_jobs, calls_of_app, pre_state_calls. apply Forall_app. split; [exact Inv|].
      cbn. constructor; [|constructor]. now apply run_facts_call_of_job in RF.
    - now rewrite pre_state_jobs, pre_state_calls.
  Qed.

  Theorem every_call_is_a_stored_jobs_call chs ops c :
    In c (calls_of (queue (run chs ops))) -> call_of_job (jobs (run chs ops)) c.
  Proof.
    assert (H : Forall (call_of_job (jobs (run chs ops))) (calls_of (queue (run chs ops)))).
    { unfold Jobs.run. induction ops as [|o ops IH] using rev_ind; [constructor|].
      rewrite run_from_snoc. now apply step_calls_inv. }
    intros Hin. rewrite Forall_forall in H. now apply H.
  Qed.
End Proofs.

(** * Non-vacuity: a concrete history (the JSON decoders of the examples: the definition is the
    contract address itself with an empty ABI, the payload document is the hex string itself) *)

Definition ex_dec_def (d : bytes) : option (bytes * bytes) := match d with [] => None | _ => Some ([], d) end.
Definition ex_dec_pay (p : bytes) : option bytes :=
  match p with
  | 123 :: _ => (* a wrapped document: strip {"hexPayload":" and "} *)
      Some (firstn (length p - 17) (skipn 15 p))
  | _ => Some p
  end.

Definition ex_chs : list (bytes * bytes) := [([1], [91]); ([2], [92])].
Definition ex_acct : bytes := repeat 7 20.
Definition ex_contract : bytes := repeat 9 32.
(* "a9059c" / "ff" *)
Definition ex_job1 : job := mkJob [106; 49] ex_acct evm_type [1] [200] [97; 57; 48; 53; 57; 99] false false.
Definition ex_job2 : job := mkJob [106; 50] ex_contract evm_type [2] [201] [102; 102] true true.
Definition ex_ops : list op :=
  [ OCreate ex_job1 true;
    OCreate ex_job2 true;
    OCreate (mkJob [106; 49] ex_contract evm_type [2] [202] [102; 102] true false) true;   (* duplicate id *)
    OExec (mkExec [106; 49] None (Some ex_acct) None true (Some 3) true);                   (* account caller, stored payload *)
    OExec (mkExec [106; 49] (Some [102; 102]) (Some ex_acct) None false (Some 3) true);     (* fixed job, supplied payload: refused *)
    OWasmExec [106; 50] [1; 2; 255] ex_contract false (Some 4) true;                        (* contract caller, supplied payload *)
    OExec (mkExec [106; 50] None None (Some ex_contract) true None false);                  (* selection fails after the hook *)
    OExec (mkExec [106; 50] None (Some (repeat 1 33)) None false (Some 1) true) ].          (* 33-byte sender *)

Example ex_history :
  let s := run ex_dec_def ex_dec_pay ex_chs ex_ops in
  jobs s = [ex_job1; ex_job2] /\
  queue s =
    [ QValset [1];
      QCall (mkCall [1] [91] [200] [] ([169; 5; 156] ++ repeat 0 12 ++ ex_acct) (Some ex_acct) None false 3);
      QCall (mkCall [2] [92] [201] [] ([1; 2; 255] ++ ex_contract) (Some ex_contract) (Some ex_contract) true 4);
      QValset [2] ] /\
  map (fun k => snd (step_res ex_dec_def ex_dec_pay (run ex_dec_def ex_dec_pay ex_chs (firstn k ex_ops)) (nth k ex_ops (OCreate ex_job1 false))))
      [0; 1; 2; 3; 4; 5; 6; 7]%nat
  = [Ok; Ok; Err ERejected; Ok; Err ECannotModify; Ok; Err EPick; Err EPad].
Proof. vm_compute. repeat split. Qed.

(** the hypotheses of the contract-path theorem are satisfiable *)
Example ex_wasm_hyp : ex_dec_pay (wasm_wrap [1; 2; 255]) = Some (hex_encode [1; 2; 255]) /\ Forall is_byte [1; 2; 255].
Proof. split; [reflexivity | repeat constructor; unfold is_byte; lia]. Qed.

(** what the lenient decoder alone would do with a payload that is not hex: truncate.  This is the
    behaviour the validation in unmarshalJob rules out ("12zz34"). *)
Example ex_lenient_truncates :
  from_hex_lenient [49; 50; 122; 122; 51; 52] = [18] /\ from_hex [49; 50; 122; 122; 51; 52] = None.
Proof. split; reflexivity. Qed.

(** odd length and 0x prefix: "0xabc" = 0x0a 0xbc *)
Example ex_odd : from_hex [48; 120; 97; 98; 99] = Some [10; 188].
Proof. reflexivity. Qed.
