(** C09 — begin- and end-of-block processing never aborts (PARTIAL, see design/C09.md).

    Full statement (properties.jsonl): for every state reachable through accepted transactions and
    governance actions, the begin-block and end-block logic of every Paloma module completes without
    panicking and without returning an error; the only deliberate stop is the version gate; values
    that cannot be processed are rejected when submitted or skipped with the rest of the block
    unaffected.

    What is proved here is that statement over the model Sys/EndBlock.v, in which every Go primitive
    that is partial on a sender- or governance-controlled value on the treasury -> consensus fee path
    is an explicit Panic, plus the closure of the generated inventory of all other panic-capable
    sites reachable from any Begin/EndBlock (Gen/C09.v, classes reviewed in tables/c09_sites.json).
    Not exhibited by a Gallina model: panics inside un-modelled SDK / store / codec / go-ethereum
    code, nil-pointer and slice-bounds faults that are not one of the inventoried patterns,
    out-of-memory, stack overflow; the attestation and pruning steps of the consensus end-blocker
    and the evm / valset / metrix / skyway steps are covered by the inventory and by the harness
    (real BeginBlock/EndBlock of every module under recover), not by a Gallina model. *)
From Coq Require Import List ZArith Bool String.
From Paloma Require Import Base.Dec Gen.C09 Sys.EndBlock Sys.EndBlockProofs.
From Paloma Require Import Sys.EndBlockAttest Sys.EndBlockAttestProofs Sys.EndBlockMods Sys.EndBlockModsProofs.
Import ListNotations.
Open Scope Z_scope.

Theorem endblock_total : forall ops : list op,
  exists s, run ops init = Ok s /\ exists s', consensus_end_block s = Ok s'.
Proof. exact endblock_total_proof. Qed.
Print Assumptions endblock_total.

Theorem hostile_values_rejected_or_skipped : forall (ops : list op) (o : op) (s : state),
  run ops init = Ok s ->
  (accept o s = false /\ step s o = Ok s) \/
  (exists s1 s2, consensus_end_block (apply o s) = Ok s1 /\ consensus_end_block s = Ok s2 /\
     forall m, In m (st_msgs s) -> untouched o m ->
       In m (st_msgs (apply o s)) /\ outcome calc_fees (apply o s) m = outcome calc_fees s m).
Proof. exact hostile_values_rejected_or_skipped_proof. Qed.
Print Assumptions hostile_values_rejected_or_skipped.

Theorem stored_multipliers_usable : forall ops s,
  run ops init = Ok s -> forall v l c x, lookup v (st_fees s) = Some l -> In (c, x) l -> 0 < x <= max_mult.
Proof. exact stored_multipliers_usable_proof. Qed.
Print Assumptions stored_multipliers_usable.

Theorem fees_are_ceilings_or_error : forall d n r,
  0 <= n -> mul_ceil_u64 d n = Ok r -> Paloma.Base.DecProofs.is_ceiling (d * n) r /\ 0 <= r < Paloma.Base.Num.two64.
Proof. exact mul_ceil_u64_spec. Qed.
Print Assumptions fees_are_ceilings_or_error.

Theorem skyway_never_aborts : forall (A : Type) (inner : A -> result A) (keep : A -> A) (s : A),
  Gen.C09.skyway_endblock_recovers = true -> exists s', recovering inner keep s = Ok s'.
Proof. exact skyway_never_aborts_proof. Qed.
Print Assumptions skyway_never_aborts.

Theorem version_gate_only_deliberate_stop : forall (A : Type) running required (s : A),
  (paloma_begin_block running required s = Ok s \/ paloma_begin_block running required s = Panic SVersionGate) /\
  (required = None -> paloma_begin_block running required s = Ok s) /\
  (required = Some running -> paloma_begin_block running required s = Ok s).
Proof. exact version_gate_only_deliberate_stop_proof. Qed.
Print Assumptions version_gate_only_deliberate_stop.

Theorem structure_facts_hold : structure_facts = true.
Proof. exact structure_facts_hold_proof. Qed.
Print Assumptions structure_facts_hold.

Theorem panic_sites_closed : forallb classified Gen.C09.sites = true.
Proof. exact panic_sites_closed_proof. Qed.
Print Assumptions panic_sites_closed.


(** ** Second round: the attestation and pruning steps of the consensus end-blocker
    (Sys/EndBlockAttest.v), the skyway end-blocker under its recover and the valset division
    (Sys/EndBlockMods.v). *)

(* every history of puts, elections, evidence of any shape by anybody, public access / error data,
   snapshots (any shares) and end-blocks at any heights: no end-block panics, one more completes *)
Theorem attest_prune_total : forall (ops : list aop) (h : Z),
  exists s, arun fixed ops ainit = AOk s /\ exists s', aend_block fixed h s = AOk s'.
Proof. exact attest_prune_total_proof. Qed.
Print Assumptions attest_prune_total.

(* ... and on ANY stored state with a snapshot (evidence without proof, fee-less messages with a
   transaction proof, short balance lists written before the guards existed) *)
Theorem attest_prune_any_state : forall (h : Z) (s : astate),
  as_snap s <> None -> exists s', aend_block fixed h s = AOk s'.
Proof. intros h s. exact (aend_block_any_state_proof fixed h s fixed_guarded). Qed.
Print Assumptions attest_prune_any_state.

(* evidence that cannot be processed is rejected when submitted: no reachable queue holds any *)
Theorem stored_evidence_usable : forall ops s, arun fixed ops ainit = AOk s -> all_usable s.
Proof. exact stored_evidence_usable_proof. Qed.
Print Assumptions stored_evidence_usable.

(* a message whose attestation fails or cannot happen is skipped, every other message of the loop
   comes out exactly as without it *)
Theorem unattestable_message_skipped : forall v snap proc a m b ka pa fa kb pb fb failed proc',
  v_continue v = true ->
  attest_loop v snap proc a = AOk (ka, pa, fa) ->
  attest_one v snap pa m = AOk (FStay, proc', failed) ->
  attest_loop v snap pa b = AOk (kb, pb, fb) ->
  attest_loop v snap proc (a ++ m :: b)%list = AOk ((ka ++ m :: kb)%list, pb, true) /\
  attest_loop v snap proc (a ++ b)%list = AOk ((ka ++ kb)%list, pb, true).
Proof. exact unattestable_message_skipped_proof. Qed.
Print Assumptions unattestable_message_skipped.

Theorem prune_removes_old : forall v h s s',
  aend_block v h s = AOk s' -> h mod prune_period = 0 -> forall m, In m (as_queue s') -> is_old h m = false.
Proof. exact prune_removes_old_proof. Qed.
Print Assumptions prune_removes_old.

(* the tree that is checked has every guard the theorems above are stated for *)
Theorem attest_variant_is_fixed : current = fixed.
Proof. exact attest_variant_known_proof. Qed.
Print Assumptions attest_variant_is_fixed.

Theorem skyway_recovered_panic_costs_one_block : forall s,
  Forall2 Z.le (k_cursor s) (k_cursor (sky_end_block s)) /\
  (k_swept (sky_end_block s) = k_swept s + 1 \/
   (k_swept (sky_end_block s) = k_swept s /\ csum (k_cursor s) < csum (k_cursor (sky_end_block s)))).
Proof. exact skyway_recovered_panic_costs_one_block_proof. Qed.
Print Assumptions skyway_recovered_panic_costs_one_block.

Theorem worthy_powers_total : forall cur new tcur tnew,
  tcur <> 0 -> tnew <> 0 -> exists b, worthy_powers cur new tcur tnew = WOk b.
Proof. exact worthy_powers_total_proof. Qed.
Print Assumptions worthy_powers_total.

Theorem second_round_facts_hold : second_round_facts = true.
Proof. exact second_round_facts_hold_proof. Qed.
Print Assumptions second_round_facts_hold.

(* the version gate with the comparison it makes (semantic-version order, multi-digit components,
   pre-releases; build metadata is not part of a version): a node is stopped exactly when it is off
   the governed major.minor line or OLDER than the completed upgrade *)
Theorem version_gate_semver : forall a b,
  gate_open (Some a) (Some (Some b)) = false <->
  (sv_major a <> sv_major b \/ sv_minor a <> sv_minor b \/ sem_cmp a b = Lt).
Proof. exact version_gate_semver_proof. Qed.
Print Assumptions version_gate_semver.

Theorem version_gate_newer_patch_open : forall a b,
  sv_major a = sv_major b -> sv_minor a = sv_minor b -> sv_pre a = nil -> sv_patch b <= sv_patch a ->
  gate_open (Some a) (Some (Some b)) = true.
Proof. exact version_gate_newer_patch_open_proof. Qed.
Print Assumptions version_gate_newer_patch_open.

Theorem version_gate_no_upgrade_or_same : forall a, gate_open a None = true /\ gate_open a (Some a) = true.
Proof. exact version_gate_no_upgrade_or_same_proof. Qed.
Print Assumptions version_gate_no_upgrade_or_same.

(* --- source translation tie (GenFn) --- *)
(* The Go function bodies named below are re-translated from the source on every check
   (harness/cmd/extract/gotrans*.go -> GenFn/*.v, semantics of the Go subset: Trans/GoSem.v).
   Each theorem states that the hand-written model function equals the translated body for all
   inputs (hypotheses are Go type ranges / the 256-bit range of math.Int only); the proofs are in
   Trans/C09Fn.v.  A readable change of the Go body breaks the proof, an unreadable one breaks the
   translator.  See design/GoTrans.md. *)
From Paloma Require Trans.GoSem Trans.GoSemFacts Trans.C09Fn.

Theorem mul_ceil_u64_model_is_translation_of_source :
  forall d n : Z, 0 <= n ->
  GenFn.MulCeilUint64.mulCeilUint64 (Some d) n = Trans.C09Fn.of_result (EndBlock.mul_ceil_u64 d n).
Proof. exact Trans.C09Fn.mul_ceil_eq. Qed.
Print Assumptions mul_ceil_u64_model_is_translation_of_source.

Theorem mul_ceil_u64_source_never_panics :
  forall (d : option Z) (n : Z), 0 <= n ->
  GenFn.MulCeilUint64.mulCeilUint64 d n <> GoSem.Panic.
Proof. exact Trans.C09Fn.mul_ceil_never_panics. Qed.
Print Assumptions mul_ceil_u64_source_never_panics.

Theorem valid_mult_model_is_translation_of_source :
  forall m : option Z,
  GenFn.ValidateMultiplicator.validateMultiplicator m = if EndBlock.valid_mult m then GoSem.Val tt else GoSem.Fail.
Proof. exact Trans.C09Fn.valid_mult_eq. Qed.
Print Assumptions valid_mult_model_is_translation_of_source.
