(** C04 — message consensus needs 2/3 of snapshot power on identical evidence; the elected gas
    estimate is the median.  Only statements closed by [exact]; proofs live in Cons/*Proofs.v. *)
From Coq Require Import List ZArith.
From Paloma Require Import Base.Num Cons.Median Cons.MedianProofs Cons.Quorum.
Import ListNotations.
Open Scope Z_scope.

Theorem median_between_min_max : forall (s : list Z) (d : Z),
  s <> [] -> Forall in_u64 s ->
  (exists a b, In a s /\ In b s /\ a <= median64 s <= b) /\
  list_min d s <= median64 s <= list_max d s.
Proof. exact median64_between. Qed.
Print Assumptions median_between_min_max.
