(** C04 — message consensus needs 2/3 of snapshot power on identical evidence; the elected gas
    estimate is the median.  Only statements closed by [exact]; proofs live in Cons/*Proofs.v.

    Reading aid.  [verify_evidence keqb gk ord sn evs] is libcons.VerifyEvidence: [sn] the snapshot
    (validators with shares, first match wins, and the recorded total), [evs] the evidence list of
    the message, [gk tag bytes] the group key (an ARBITRARY function: nothing is assumed about
    sha256), [keqb] equality of keys (Go string ==), [ord] the order in which Go's map iteration
    visits the groups (any permutation).  [power sn vs] is the sum of the snapshot shares of the
    addresses [vs] (0 for outsiders); [backers keqb gk evs k] the validators whose evidence has key
    [k]; [identical w e] = same proof type and same proof bytes.  The quorum inequality in the model
    uses the constants translated from the source (Gen.C04.quorum_*_factor); the statements below
    say 3 and 2, so they stop checking when the source says anything else. *)
From Coq Require Import List ZArith Bool Permutation String.
From Paloma Require Import Base.Num Cons.Median Cons.MedianProofs Cons.Quorum Cons.QuorumProofs.
From Paloma Require Cons.EvidenceBytes Cons.EvidenceBytesProofs Cons.EvidenceHistory Cons.EvidenceHistoryProofs Cons.QuorumMembers.
From Paloma Require Gen.C04.
Import ListNotations.
Open Scope Z_scope.

Theorem median_between_min_max : forall (s : list Z) (d : Z),
  s <> [] -> Forall in_u64 s ->
  (exists a b, In a s /\ In b s /\ a <= median64 s <= b) /\
  list_min d s <= median64 s <= list_max d s.
Proof. exact median64_between. Qed.
Print Assumptions median_between_min_max.

(** The even-count expression of palomath.Median that [median64] models (w[c-1] + (w[c]-w[c-1])/2
    with every operation mod 2^64) is the one the source has now.  Any edit of that expression
    makes this fail until the model has been looked at again. *)
Theorem median_model_is_of_current_source :
  Gen.C04.median_even_expr = "w[c-1] + (w[c]-w[c-1])/2.0"%string /\
  median64 [9223372036854775808; 9223372036854775810] = 9223372036854775809.
Proof. exact (conj eq_refl eq_refl). Qed.
Print Assumptions median_model_is_of_current_source.

(** The threshold, tied to the translated constants: the code's test is exactly
    3*sum >= 2*total, i.e. sum >= ceil(2*total/3). *)
Theorem quorum_is_two_thirds : forall (sn : snapshot) (s : Z),
  consensus sn (Some s) = (Gen.C04.quorum_total_factor * sn_total sn <=? Gen.C04.quorum_sum_factor * s) /\
  (Gen.C04.quorum_sum_factor = 3 /\ Gen.C04.quorum_total_factor = 2) /\
  (consensus sn (Some s) = true <-> 2 * sn_total sn <= 3 * s) /\
  (consensus sn (Some s) = true <-> (2 * sn_total sn + 2) / 3 <= s) /\
  consensus sn None = false.
Proof.
  exact (fun sn s => conj eq_refl (conj (conj eq_refl eq_refl)
           (conj (consensus_some_iff sn s) (conj (quorum_threshold_exact sn s) eq_refl)))).
Qed.
Print Assumptions quorum_is_two_thirds.

(** A winner is one of the submitted proofs, and the validators whose evidence has the SAME KEY
    as the winner hold at least 2/3 of the snapshot's total — for every key function, every
    snapshot, every evidence list and every iteration order. *)
Theorem winner_has_two_thirds_same_key :
  forall (K : Type) (keqb : K -> K -> bool) (gk : Z -> Z -> K),
  (forall a b, keqb a b = true <-> a = b) ->
  forall (ord : list group -> list group) (sn : snapshot) (evs : list evidence) (w : evidence),
  (forall gs, Permutation (ord gs) gs) ->
  verify_evidence keqb gk ord sn evs = Winner w ->
  In w evs /\ ev_bad w = false /\ existsb ev_bad evs = false /\
  3 * power sn (backers keqb gk evs (ev_key gk w)) >= 2 * sn_total sn.
Proof.
  exact (fun K keqb gk Hk ord sn evs w Ho H =>
    match @winner_same_key K keqb gk Hk ord sn evs w Ho H with
    | conj a (conj b (conj c d)) => conj a (conj b (conj c (Z.le_ge _ _ d)))
    end).
Qed.
Print Assumptions winner_has_two_thirds_same_key.

(** With the key the code builds (type URL and hash [h] of the bytes, [h] arbitrary): the
    validators that submitted evidence of the same type AND the same bytes as the winner hold 2/3,
    or [h] has an explicit collision. *)
Theorem winner_has_two_thirds_identical :
  forall (K : Type) (keqb : K -> K -> bool) (h : Z -> Z -> K),
  (forall a b, keqb a b = true <-> a = b) ->
  forall (ord : list group -> list group) (sn : snapshot) (evs : list evidence) (w : evidence),
  (forall gs, Permutation (ord gs) gs) ->
  verify_evidence keqb (code_key h) ord sn evs = Winner w ->
  (exists t d t' d', (t, d) <> (t', d') /\ h t d = h t' d') \/
  2 * sn_total sn <= 3 * power sn (map ev_val (filter (identical w) evs)).
Proof. exact @winner_two_thirds_identical_code_key. Qed.
Print Assumptions winner_has_two_thirds_identical.

(** With one entry per validator (what AddEvidence maintains, see latest_submission_counts) no
    validator is counted twice in that sum. *)
Theorem winner_backers_counted_once :
  forall (K : Type) (keqb : K -> K -> bool) (gk : Z -> Z -> K) (evs : list evidence) (k : K),
  NoDup (map ev_val evs) -> NoDup (backers keqb gk evs k).
Proof. exact @backers_nodup. Qed.
Print Assumptions winner_backers_counted_once.

(** The result does not depend on the order in which the groups are visited: two disjoint sets
    of validators cannot both hold 2/3 of a positive total. *)
Theorem winner_unique :
  forall (K : Type) (keqb : K -> K -> bool) (gk : Z -> Z -> K)
         (ord ord' : list group -> list group) (sn : snapshot) (evs : list evidence),
  (forall gs, Permutation (ord gs) gs) -> (forall gs, Permutation (ord' gs) gs) ->
  0 < sn_total sn /\ sn_total sn = zsum (map snd (sn_vals sn)) /\ Forall (fun p => 0 <= snd p) (sn_vals sn) ->
  NoDup (map ev_val evs) ->
  verify_evidence keqb gk ord sn evs = verify_evidence keqb gk ord' sn evs.
Proof. exact @verify_evidence_order_independent. Qed.
Print Assumptions winner_unique.

(** Completeness (so the statements above are not vacuous): evidence whose key is backed by 2/3 wins. *)
Theorem two_thirds_on_one_key_wins :
  forall (K : Type) (keqb : K -> K -> bool) (gk : Z -> Z -> K),
  (forall a b, keqb a b = true <-> a = b) ->
  forall (ord : list group -> list group) (sn : snapshot) (evs : list evidence) (e : evidence),
  (forall gs, Permutation (ord gs) gs) ->
  0 < sn_total sn /\ sn_total sn = zsum (map snd (sn_vals sn)) /\ Forall (fun p => 0 <= snd p) (sn_vals sn) ->
  NoDup (map ev_val evs) -> existsb ev_bad evs = false -> In e evs ->
  2 * sn_total sn <= 3 * power sn (backers keqb gk evs (ev_key gk e)) ->
  exists w, verify_evidence keqb gk ord sn evs = Winner w /\ ev_key gk w = ev_key gk e.
Proof. exact @two_thirds_identical_wins. Qed.
Print Assumptions two_thirds_on_one_key_wins.

(** Evidence from addresses that are not in the snapshot changes nothing (wherever it sits in the
    list): same outcome class, and the same winning key, as without it.  The side condition is
    what the code does: an outsider's proof that cannot be unpacked still aborts the call. *)
Theorem outsiders_ignored :
  forall (K : Type) (keqb : K -> K -> bool) (gk : Z -> Z -> K),
  (forall a b, keqb a b = true <-> a = b) ->
  forall (ord ord' : list group -> list group) (sn : snapshot) (evs : list evidence),
  (forall gs, Permutation (ord gs) gs) -> (forall gs, Permutation (ord' gs) gs) ->
  0 < sn_total sn /\ sn_total sn = zsum (map snd (sn_vals sn)) /\ Forall (fun p => 0 <= snd p) (sn_vals sn) ->
  NoDup (map ev_val evs) ->
  (forall e, In e evs -> insider (sn_vals sn) (ev_val e) = false -> ev_bad e = false) ->
  match verify_evidence keqb gk ord sn evs,
        verify_evidence keqb gk ord' sn (filter (fun e => insider (sn_vals sn) (ev_val e)) evs) with
  | Winner x, Winner y => ev_key gk x = ev_key gk y
  | NotAchieved, NotAchieved => True
  | Failed, Failed => True
  | _, _ => False
  end.
Proof. exact @outsiders_ignored_gen. Qed.
Print Assumptions outsiders_ignored.

(** AddEvidence, over every sequence of submissions: one entry per validator, and the entry is
    the validator's LAST submission (type, bytes, unpackability). *)
Theorem latest_submission_counts : forall (subs init : list evidence),
  NoDup (map ev_val init) ->
  NoDup (map ev_val (fold_left add_evidence subs init)) /\
  forall v, lookup_ev (fold_left add_evidence subs init) v
            = match lookup_ev (rev subs) v with Some p => Some p | None => lookup_ev init v end.
Proof. exact add_evidence_latest. Qed.
Print Assumptions latest_submission_counts.

(** VerifyGasEstimates elects only with 2/3 of the snapshot behind the submitted estimates, and
    what it elects is the (non-zero) median, which lies between two submitted values. *)
Theorem estimate_needs_two_thirds : forall (sn : snapshot) (es : list estimate) (w : Z),
  verify_gas_estimates sn es = Elected w ->
  (3 * power sn (map es_val es) >= 2 * sn_total sn /\ w = median64 (map es_value es) /\ w <> 0 /\ es <> []) /\
  (Forall (fun e => in_u64 (es_value e)) es ->
   exists a b, In a es /\ In b es /\ es_value a <= w <= es_value b).
Proof.
  exact (fun sn es w H =>
    conj (match estimate_two_thirds sn es w H with conj a b => conj (Z.le_ge _ _ a) b end)
         (fun Hr => proj2 (estimate_two_thirds_median sn es w Hr H))).
Qed.
Print Assumptions estimate_needs_two_thirds.

(** Over all histories of one queued message (estimates added, SetElectedGasEstimate called with
    any value, end-blocks under any snapshots, in any order): once an estimate is elected it never
    changes; the requires-estimation flag never changes; estimates are only appended, one per
    validator. *)
Theorem elected_never_changes : forall (ops : list qm_op) (m : qmsg),
  (q_elected m <> 0 -> q_elected (fold_left qm_step ops m) = q_elected m) /\
  q_requires (fold_left qm_step ops m) = q_requires m /\
  exists r, q_estimates (fold_left qm_step ops m) = q_estimates m ++ r /\
            (NoDup (map es_val (q_estimates m)) -> NoDup (map es_val (q_estimates (fold_left qm_step ops m)))).
Proof. exact (fun ops m => conj (elected_stays ops m) (conj (requires_stays ops m) (estimates_append_only ops m))). Qed.
Print Assumptions elected_never_changes.

(** When only the chain's own operations act on the message, a non-zero elected estimate is the
    result of VerifyGasEstimates at some end-block on the estimates present then (hence, by
    estimate_needs_two_thirds, a median backed by 2/3 of that block's snapshot). *)
Theorem elected_estimate_came_from_quorum : forall (ops : list qm_op) (m0 : qmsg),
  q_elected m0 = 0 -> Forall system_op ops -> q_elected (fold_left qm_step ops m0) <> 0 ->
  exists sn pre rest,
    In (OpEndBlock sn) ops /\
    q_estimates (fold_left qm_step ops m0) = (q_estimates m0 ++ pre) ++ rest /\
    verify_gas_estimates sn (q_estimates m0 ++ pre) = Elected (q_elected (fold_left qm_step ops m0)).
Proof. exact elected_came_from_quorum. Qed.
Print Assumptions elected_estimate_came_from_quorum.

(** ---- second round: the bytes of every proof type are inside the model (Cons/EvidenceBytes.v) ---- *)

(** The proof types that can be evidence: exactly the four that have a model of their BytesToHash.
    (The translator additionally refuses a tree that registers a fifth one.) *)
Theorem evidence_proof_types_are_modelled :
  Gen.C04.hashable_registered =
    ["ReferenceBlockAttestationRes"; "SmartContractExecutionErrorProof"; "TxExecutedProof"; "ValidatorBalancesAttestationRes"]%string /\
  Gen.C04.hashable_methods = Gen.C04.hashable_registered.
Proof. exact EvidenceBytesProofs.proof_types_of_current_source. Qed.
Print Assumptions evidence_proof_types_are_modelled.

(** TxExecutedProof.BytesToHash as [bytes_to_hash (PTx tx receipt)] models it: the re-encoded
    transaction, followed by the re-encoded receipt unless SerializedReceipt is nil. *)
Theorem tx_proof_bytes_model_is_of_current_source :
  Gen.C04.tx_proof_shape =
    ["tx, err := h.GetTX()"; "if h.SerializedReceipt == nil { return tx.MarshalBinary() }"; "receipt, err := h.GetReceipt()";
     "serializedTX, err := tx.MarshalBinary()"; "serializedReceipt, err := receipt.MarshalBinary()";
     "return slices.Concat(serializedTX, serializedReceipt), nil";
     "GetTX: tx.UnmarshalBinary(h.SerializedTX)"; "GetReceipt: receipt.UnmarshalBinary(h.SerializedReceipt)"]%string /\
  forall t r, EvidenceBytes.bytes_to_hash (EvidenceBytes.PTx t r) = Some (t ++ match r with Some r => r | None => [] end).
Proof. exact (conj eq_refl (fun t r => eq_refl)). Qed.
Print Assumptions tx_proof_bytes_model_is_of_current_source.

(** What the three rendering proof types write, as translated from the source now: the error proof its
    message; the reference block height and hash, either separated by a newline or (weaker) run together;
    the balances answer the height and then per balance either newline+length+colon+balance or (weaker)
    newline+balance.  Any other layout — e.g. the separator moved behind the balances — is none of these
    and this theorem (and the two below) stop checking. *)
Theorem rendering_layouts_are_of_current_source :
  Gen.C04.err_layout = EvidenceBytes.err_layout_cur /\ Gen.C04.err_each = [] /\
  ((EvidenceBytes.ref_is_separated = true /\ Gen.C04.ref_layout = EvidenceBytes.ref_layout_separated /\ Gen.C04.ref_each = []) \/
   (EvidenceBytes.ref_is_separated = false /\ Gen.C04.ref_layout = EvidenceBytes.ref_layout_unseparated /\ Gen.C04.ref_each = [])) /\
  ((EvidenceBytes.bal_is_framed = true /\ Gen.C04.bal_layout = EvidenceBytes.bal_layout_cur /\ Gen.C04.bal_each = EvidenceBytes.bal_each_framed) \/
   (EvidenceBytes.bal_is_framed = false /\ Gen.C04.bal_layout = EvidenceBytes.bal_layout_cur /\ Gen.C04.bal_each = EvidenceBytes.bal_each_newline)).
Proof. exact EvidenceBytesProofs.layouts_of_current_source. Qed.
Print Assumptions rendering_layouts_are_of_current_source.

(** BytesToHash is injective on the fields: two proofs of one type with the same bytes have the same
    value in EVERY field.  [wf_proof] asks of a tx proof what go-ethereum's MarshalBinary returns (a framed
    transaction encoding, a non-empty receipt encoding; checked on every generated proof by X) and, only
    while the source has the weaker layouts, a 0x-prefixed block hash / newline-free balances. *)
Theorem bytes_to_hash_injective_on_fields : forall (p q : EvidenceBytes.proof) (b : EvidenceBytes.text),
  EvidenceBytes.wf_proof p -> EvidenceBytes.wf_proof q -> EvidenceBytes.tag_of p = EvidenceBytes.tag_of q ->
  EvidenceBytes.bytes_to_hash p = Some b -> EvidenceBytes.bytes_to_hash q = Some b -> p = q.
Proof. exact EvidenceBytesProofs.bytes_to_hash_injective. Qed.
Print Assumptions bytes_to_hash_injective_on_fields.

(** ... and the conditions of the weaker layouts are needed: while the source has them, two different
    answers with the same bytes exist (replayed on the real code: corpus refblock-digit-shift,
    balances-embedded-newline). *)
Theorem weaker_layouts_refuted :
  (EvidenceBytes.ref_is_separated = false ->
   exists p q, EvidenceBytes.tag_of p = EvidenceBytes.tag_of q /\ p <> q /\
     EvidenceBytes.bytes_to_hash p = EvidenceBytes.bytes_to_hash q /\ EvidenceBytes.bytes_to_hash p <> None) /\
  (EvidenceBytes.bal_is_framed = false ->
   exists p q, EvidenceBytes.tag_of p = EvidenceBytes.tag_of q /\ p <> q /\
     EvidenceBytes.bytes_to_hash p = EvidenceBytes.bytes_to_hash q /\ EvidenceBytes.bytes_to_hash p <> None).
Proof. exact EvidenceBytesProofs.bytes_to_hash_conditions_needed. Qed.
Print Assumptions weaker_layouts_refuted.

(** End to end, for all snapshots, all lists of (validator, proof), all iteration orders: the winner is
    one of the submitted proofs and the validators that submitted a proof equal to it IN EVERY FIELD hold
    two thirds of the snapshot — or the (arbitrary) hash [h] has an explicit collision. *)
Theorem winner_backers_agree_on_every_field :
  forall (K : Type) (keqb : K -> K -> bool) (h : Z -> Z -> K),
  (forall a b, keqb a b = true <-> a = b) ->
  forall (ord : list group -> list group) (sn : snapshot) (pevs : list EvidenceBytes.pev) (w : evidence),
  (forall gs, Permutation (ord gs) gs) ->
  Forall (fun e => EvidenceBytes.wf_proof (EvidenceBytes.pe_proof e)) pevs ->
  verify_evidence keqb (code_key h) ord sn (map EvidenceBytes.ev_of pevs) = Winner w ->
  (exists t d t' d', (t, d) <> (t', d') /\ h t d = h t' d') \/
  exists wp, In wp pevs /\ w = EvidenceBytes.ev_of wp /\ EvidenceBytes.bytes_to_hash (EvidenceBytes.pe_proof wp) <> None /\
    2 * sn_total sn <= 3 * power sn (map EvidenceBytes.pe_val (filter (EvidenceBytesProofs.same_proof wp) pevs)).
Proof. exact @EvidenceBytesProofs.winner_backers_agree_on_fields. Qed.
Print Assumptions winner_backers_agree_on_every_field.

(** Over all histories of one queued request — submissions through Keeper.AddMessageEvidence (a proof
    that is absent or not hashable is refused), attestation runs under ANY snapshots and iteration orders:
    if the request was removed with winner [w], then at the run that removed it the stored evidence had
    one entry per validator, each entry the validator's LATEST accepted submission, and the validators
    whose entry equals the winner's proof in every field held two thirds of that run's snapshot (or the
    arbitrary hash [h] has an explicit collision).  After the removal nothing changes any more. *)
Theorem request_removed_only_with_two_thirds_on_fields :
  forall (K : Type) (keqb : K -> K -> bool) (h : Z -> Z -> K),
  (forall a b, keqb a b = true <-> a = b) ->
  forall (ops : list (@EvidenceHistory.att_op K)) (w : evidence),
  Forall (@EvidenceHistory.op_ok K) ops ->
  EvidenceHistory.as_won (fold_left (EvidenceHistory.att_step keqb h) ops EvidenceHistory.att_init) = Some w ->
  exists pre sn ord post, ops = pre ++ EvidenceHistory.AoProcess sn ord :: post /\
    let evs := EvidenceHistory.as_evs (fold_left (EvidenceHistory.att_step keqb h) pre EvidenceHistory.att_init) in
    EvidenceHistory.as_evs (fold_left (EvidenceHistory.att_step keqb h) ops EvidenceHistory.att_init) = evs /\
    NoDup (map EvidenceBytes.pe_val evs) /\
    (forall v, EvidenceHistory.lookup_pev evs v = EvidenceHistory.lookup_pev (rev (@EvidenceHistory.accepted K pre)) v) /\
    ((exists t d t' d', (t, d) <> (t', d') /\ h t d = h t' d') \/
     exists wp, In wp evs /\ w = EvidenceBytes.ev_of wp /\
       2 * sn_total sn <= 3 * power sn (map EvidenceBytes.pe_val (filter (EvidenceBytesProofs.same_proof wp) evs))).
Proof. exact @EvidenceHistoryProofs.removed_only_with_two_thirds_on_fields. Qed.
Print Assumptions request_removed_only_with_two_thirds_on_fields.

(** Over all histories: every stored piece of evidence is hashable, hence the attestation run of a queued
    request never ends in the failure branch of VerifyEvidence (the side condition of [outsiders_ignored]
    is met by everything the keeper can store). *)
Theorem attestation_run_never_fails_on_stored_evidence :
  forall (K : Type) (keqb : K -> K -> bool) (h : Z -> Z -> K) (ops : list (@EvidenceHistory.att_op K))
         (sn : snapshot) (ord : list group -> list group),
  Forall (fun e => EvidenceHistory.hashable (EvidenceBytes.pe_proof e) = true)
         (EvidenceHistory.as_evs (fold_left (EvidenceHistory.att_step keqb h) ops EvidenceHistory.att_init)) /\
  verify_evidence keqb (code_key h) ord sn
    (map EvidenceBytes.ev_of (EvidenceHistory.as_evs (fold_left (EvidenceHistory.att_step keqb h) ops EvidenceHistory.att_init))) <> Failed.
Proof.
  exact (fun K keqb h ops sn ord =>
    conj (@EvidenceHistoryProofs.stored_evidence_is_hashable K keqb h ops)
         (@EvidenceHistoryProofs.attestation_run_never_fails K keqb h ops sn ord)).
Qed.
Print Assumptions attestation_run_never_fails_on_stored_evidence.

(** ---- third round ---- *)

(** A decision rests on at least one member of the snapshot, whatever the recorded total is (zero,
    negative): a winner has a backer with the winner's key inside the snapshot, submissions of
    outsiders only never decide, an elected estimate has a submitter inside the snapshot.
    (consensusPower's running sum exists only after the first [add]; seeded change C04-E.) *)
Theorem decisions_have_a_snapshot_member :
  (forall (K : Type) (keqb : K -> K -> bool) (gk : Z -> Z -> K),
   (forall a b, keqb a b = true <-> a = b) ->
   forall (ord : list group -> list group) (sn : snapshot) (evs : list evidence) (w : evidence),
   (forall gs, Permutation (ord gs) gs) ->
   verify_evidence keqb gk ord sn evs = Winner w ->
   exists e, In e evs /\ insider (sn_vals sn) (ev_val e) = true /\ ev_key gk e = ev_key gk w) /\
  (forall (K : Type) (keqb : K -> K -> bool) (gk : Z -> Z -> K) ord sn evs,
   existsb (fun e => insider (sn_vals sn) (ev_val e)) evs = false ->
   verify_evidence keqb gk ord sn evs = NotAchieved) /\
  (forall sn es w, verify_gas_estimates sn es = Elected w ->
   exists e, In e es /\ insider (sn_vals sn) (es_val e) = true).
Proof.
  exact (conj (@QuorumMembers.winner_has_snapshot_member)
        (conj (@QuorumMembers.no_member_no_winner) QuorumMembers.elected_has_snapshot_member)).
Qed.
Print Assumptions decisions_have_a_snapshot_member.

(** Between "evidence / estimates present" and the quorum decision there is no other gate: the early
    exits of the wrappers that lead to VerifyEvidence / VerifyGasEstimates are exactly the ones the
    models have ([att_step]: nothing without evidence — VerifyEvidence on no evidence is NotAchieved;
    [process_estimates]: no estimation required, no estimates, already elected), the loops around them
    only leave on errors, and nobody else calls the two functions.  A head-count pre-check (seeded
    change C04-F) is a guard that is not in this list. *)
Theorem quorum_decision_guards_are_of_current_source :
  Gen.C04.attest_guards = ["len(msg.GetEvidence()) == 0"]%string /\
  Gen.C04.attest_loop_guards = ["err != nil"; "err != nil"; "err != nil"]%string /\
  Gen.C04.estimate_guards = ["!msg.GetRequireGasEstimation()"; "len(msg.GetGasEstimates()) < 1"; "msg.GetGasEstimate() > 0"]%string /\
  Gen.C04.estimate_loop_guards = ["err != nil"; "err != nil"; "err != nil"]%string /\
  Gen.C04.quorum_callers =
    ["x/consensus/keeper/concensus_keeper.go:jailValidatorsWhichMissedAttestation->VerifyEvidence";
     "x/consensus/keeper/estimate.go:checkAndProcessEstimatedMessage->VerifyGasEstimates";
     "x/evm/keeper/attest.go:attestMessageWrapper->VerifyEvidence";
     "x/skyway/abci.go:processGasEstimates->VerifyGasEstimates"]%string /\
  (forall (K : Type) (keqb : K -> K -> bool) (gk : Z -> Z -> K) ord sn, verify_evidence keqb gk ord sn [] = NotAchieved) /\
  (forall sn m, q_requires m = false \/ q_estimates m = [] \/ 0 < q_elected m -> process_estimates sn m = m).
Proof.
  exact (conj eq_refl (conj eq_refl (conj eq_refl (conj eq_refl (conj eq_refl
    (conj (fun K keqb gk ord sn => eq_refl) QuorumMembers.process_estimates_guards)))))).
Qed.
Print Assumptions quorum_decision_guards_are_of_current_source.

(** ---- fourth round ---- *)

(** The submission-time check is the one [att_step] models (a proof is accepted iff it unpacks to a
    registered type AND its BytesToHash succeeds; called before AddEvidence — the translator refuses any
    other shape), so the premise "stored evidence is hashable" of
    [attestation_run_never_fails_on_stored_evidence] is the source's.  (Seeded change C04-G.) *)
Theorem submission_check_is_of_current_source :
  Gen.C04.evidence_validation =
    ["if proof == nil || proof.GetTypeUrl() == """" { return error }"; "var hashable evmtypes.Hashable";
     "if err := k.cdc.UnpackAny(proof, &hashable); err != nil { return error }"; "if hashable == nil { return error }";
     "if _, err := hashable.BytesToHash(); err != nil { return error }"; "return nil"]%string /\
  forall (K : Type) (keqb : K -> K -> bool) (h : Z -> Z -> K) (s : @EvidenceHistory.att_state) (e : EvidenceBytes.pev),
    EvidenceHistory.hashable (EvidenceBytes.pe_proof e) = false ->
    @EvidenceHistory.att_step K keqb h s (EvidenceHistory.AoSubmit e) = s.
Proof.
  exact (conj eq_refl (fun K keqb h s e H => EvidenceHistoryProofs.unhashable_refused keqb h s e H)).
Qed.
Print Assumptions submission_check_is_of_current_source.

(** The consensus module's end-blocker attests before it prunes (order, period and age translated from
    x/consensus/module.go): a request whose stored evidence has a key backed by two thirds of the snapshot is
    declared by that end-block at ANY height and age — also in a block in which pruning is due — and is not
    pruned; a pruned request had no winner in that block.  (Seeded change C04-H.) *)
Theorem end_block_declares_before_it_prunes :
  Gen.C04.endblock_calls = ["CheckAndProcessEstimatedMessages"; "CheckAndProcessAttestedMessages"; "PruneOldMessages"]%string /\
  Gen.C04.prune_every = 50 /\ Gen.C04.prune_age = 300 /\
  (forall (K : Type) (keqb : K -> K -> bool) (h : Z -> Z -> K), (forall a b, keqb a b = true <-> a = b) ->
   forall added (s : @EvidenceHistory.mod_state) sn (ord : list group -> list group) ht e,
   (forall gs, Permutation (ord gs) gs) ->
   EvidenceHistory.ms_pruned s = false -> EvidenceHistory.as_won (EvidenceHistory.ms_att s) = None ->
   0 < sn_total sn /\ sn_total sn = zsum (map snd (sn_vals sn)) /\ Forall (fun p => 0 <= snd p) (sn_vals sn) ->
   NoDup (map EvidenceBytes.pe_val (EvidenceHistory.as_evs (EvidenceHistory.ms_att s))) ->
   Forall (fun x => EvidenceHistory.hashable (EvidenceBytes.pe_proof x) = true) (EvidenceHistory.as_evs (EvidenceHistory.ms_att s)) ->
   In e (EvidenceHistory.as_evs (EvidenceHistory.ms_att s)) ->
   2 * sn_total sn <= 3 * power sn (backers keqb (code_key h) (map EvidenceBytes.ev_of (EvidenceHistory.as_evs (EvidenceHistory.ms_att s)))
                                       (ev_key (code_key h) (EvidenceBytes.ev_of e))) ->
   exists w, EvidenceHistory.as_won (EvidenceHistory.ms_att (EvidenceHistory.end_block keqb h added s sn ord ht)) = Some w /\
             ev_key (code_key h) w = ev_key (code_key h) (EvidenceBytes.ev_of e) /\
             EvidenceHistory.ms_pruned (EvidenceHistory.end_block keqb h added s sn ord ht) = false) /\
  (forall (K : Type) (keqb : K -> K -> bool) (h : Z -> Z -> K) added (s : @EvidenceHistory.mod_state) sn ord ht,
   EvidenceHistory.ms_pruned s = false ->
   EvidenceHistory.ms_pruned (EvidenceHistory.end_block keqb h added s sn ord ht) = true ->
   EvidenceHistory.prune_due added ht = true /\
   EvidenceHistory.as_won (EvidenceHistory.ms_att (EvidenceHistory.end_block keqb h added s sn ord ht)) = None /\
   forall w, verify_evidence keqb (code_key h) ord sn (map EvidenceBytes.ev_of (EvidenceHistory.as_evs (EvidenceHistory.ms_att s))) <> Winner w).
Proof.
  exact (conj eq_refl (conj eq_refl (conj eq_refl
    (conj (@EvidenceHistoryProofs.end_block_declares_before_pruning) (@EvidenceHistoryProofs.pruned_only_without_winner))))).
Qed.
Print Assumptions end_block_declares_before_it_prunes.

(** ---- fifth round ---- *)

(** A declared message leaves the queue (with its effects) exactly when the attester returns nil, "transaction
    not verified" or "transaction failed"; and no error built on the attest paths of x/evm/keeper flattens a
    wrapped error (liberr Join/JoinErrorf over an error, fmt.Errorf without %w are refused by the translator), so
    these sentinels reach the test.  (Seeded change C04-L.)  In the history model every winner removes the request. *)
Theorem declared_message_is_removed :
  Gen.C04.attest_flush_condition =
    "retErr == nil || errors.Is(retErr, types.ErrEthTxNotVerified) || errors.Is(retErr, types.ErrEthTxFailed)"%string /\
  In "attest.go: tx failed to verify: %w"%string Gen.C04.attest_error_wraps /\
  forall (K : Type) (keqb : K -> K -> bool) (h : Z -> Z -> K) (s : @EvidenceHistory.att_state) sn ord w,
    EvidenceHistory.as_won s = None ->
    verify_evidence keqb (code_key h) ord sn (map EvidenceBytes.ev_of (EvidenceHistory.as_evs s)) = Winner w ->
    EvidenceHistory.as_won (@EvidenceHistory.att_step K keqb h s (EvidenceHistory.AoProcess sn ord)) = Some w.
Proof.
  exact (conj eq_refl (conj (or_intror (or_introl eq_refl)) (@EvidenceHistoryProofs.winner_removes))).
Qed.
Print Assumptions declared_message_is_removed.

(** ---- sixth round ---- *)

(** Both end-block loops look at EVERY message of a queue (GetMessagesFromQueue(_, _, 0) = everything GetAll
    returns; the translator refuses a count argument, a slice bound or a re-assignment of the fetched list), so the
    per-message theorems above apply to a message wherever it sits in a backlog.  (Seeded change C04-M.)
    And one validator has one estimate entry per message whatever is submitted (a second one is refused), so the
    shares behind an election are those of DISTINCT submitters.  (Seeded change C04-N.) *)
Theorem every_queued_message_is_weighed :
  Gen.C04.endblock_message_getters =
    ["CheckAndProcessAttestedMessages: k.GetMessagesFromQueue(sdkCtx, opt.QueueTypeName, 0)";
     "CheckAndProcessEstimatedMessages: k.GetMessagesFromQueue(sdkCtx, opt.QueueTypeName, 0)"]%string /\
  forall (ops : list qm_op) (m : qmsg),
    NoDup (map es_val (q_estimates m)) -> NoDup (map es_val (q_estimates (fold_left qm_step ops m))).
Proof.
  exact (conj eq_refl (fun ops m H => match estimates_append_only ops m with ex_intro _ _ (conj _ Hn) => Hn H end)).
Qed.
Print Assumptions every_queued_message_is_weighed.

(** ---- seventh round ---- *)

(** The quorum decision is taken over ALL evidence stored on the message: attestMessageWrapper hands
    msg.GetEvidence() to VerifyEvidence as it is (the translator refuses any filtering or re-slicing in front of the
    call, e.g. by the transaction hash the relayer reported — seeded change C04-Q), which is what [att_step] weighs. *)
Theorem quorum_is_taken_over_all_stored_evidence :
  Gen.C04.attest_wrapper_evidence_source = "msg.GetEvidence()"%string /\
  forall (K : Type) (keqb : K -> K -> bool) (h : Z -> Z -> K) (s : @EvidenceHistory.att_state) sn ord,
    EvidenceHistory.as_won s = None ->
    EvidenceHistory.as_won (@EvidenceHistory.att_step K keqb h s (EvidenceHistory.AoProcess sn ord)) =
    match verify_evidence keqb (code_key h) ord sn (map EvidenceBytes.ev_of (EvidenceHistory.as_evs s)) with
    | Winner w => Some w | _ => None end.
Proof. exact (conj eq_refl (@EvidenceHistoryProofs.process_weighs_all)). Qed.
Print Assumptions quorum_is_taken_over_all_stored_evidence.

(** ---- eighth round ---- *)

(** Re-assigning a queued message to another relayer (Queue.ReassignValidator) writes only the packed consensus
    message (its assignee fields) and saves: the translator refuses a write to any other field or a call of a mutator
    of the queued message (seeded change C04-R cleared the elected estimate there).  It is therefore no operation on
    the estimate state [qmsg], and [elected_never_changes] covers every history that contains re-assignments. *)
Theorem reassignment_keeps_election :
  Gen.C04.reassign_writes = ["assignable.SetAssignee(ctx, val, remoteAddr)"; "msg.Msg = anyMsg"; "c.save(ctx, msg)"]%string /\
  forall (ops : list qm_op) (m : qmsg), q_elected m <> 0 -> q_elected (fold_left qm_step ops m) = q_elected m.
Proof. exact (conj eq_refl elected_stays). Qed.
Print Assumptions reassignment_keeps_election.


(* --- source translation tie (GenFn) --- *)
(* The Go function bodies named below are re-translated from the source on every check
   (harness/cmd/extract/gotrans*.go -> GenFn/*.v, semantics of the Go subset: Trans/GoSem.v).
   Each theorem states that the hand-written model function equals the translated body for all
   inputs (hypotheses are Go type ranges / the 256-bit range of math.Int only); the proofs are in
   Trans/C04Fn.v.  A readable change of the Go body breaks the proof, an unreadable one breaks the
   translator.  See design/GoTrans.md. *)
From Paloma Require Trans.GoSem Trans.GoSemFacts Trans.C04Fn.

Theorem consensus_model_is_translation_of_source :
  forall (sn : Quorum.snapshot) (t : option Z),
  (forall s, t = Some s -> GoSemFacts.fits256 (s * 3) /\ GoSemFacts.fits256 (Quorum.sn_total sn * 2)) ->
  GenFn.Consensus.consensus t (Quorum.sn_total sn) = GoSem.Val (Quorum.consensus sn t).
Proof. exact Trans.C04Fn.consensus_eq. Qed.
Print Assumptions consensus_model_is_translation_of_source.

Theorem median64_model_is_translation_of_source :
  forall s : list Z, GoSem.go_len s < GoSem.two63 ->
  GenFn.Median.median s = GoSem.Val (Median.median64 s).
Proof. exact Trans.C04Fn.median_eq. Qed.
Print Assumptions median64_model_is_translation_of_source.
