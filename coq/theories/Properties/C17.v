(** C17 — scheduler: jobs are immutable; each run enqueues exactly the stored call plus the caller's
    identity; a failed execute enqueues no contract call.
    Only statements closed by [exact]; the proofs are in Scheduler/JobsProofs.v.

    Reading aid.  [run dd dp chs ops] is the state after the history [ops] (any list of create /
    execute / contract-execute requests, accepted or not) from the empty store with the registered
    chains [chs]; [step] applies one request, [step_res] also gives its outcome.  [dd] / [dp] are
    Go's JSON decoders for the job definition (-> ABI string, contract address) and the payload
    document (-> hexPayload string): ARBITRARY functions, nothing is assumed about them.
    [exec_req o] is the keeper-level request of an execute operation: job id, supplied payload
    ([None] = nil), sender / contract address ([None] = nil), and the environment's answers
    [x_pre] ([Some vid]: the PreJobExecution hook reaches SendValsetMsgForChain with the current
    snapshot's id; what that function does to the queue is part of the model) and [x_pick] (relayer
    selection: [Some assignee] or [None] = error; selection itself is property C14).  Histories also
    contain the environment's steps: [OPublish] (snapshot listener publishing a valset),
    [OGenesisRoundTrip] (export + import of the scheduler module's genesis), [OBlock] (its block hooks).
    [queue] is the live content of the turnstone queues; [drop_valsets c q] is [q] without the
    valset updates of chain [c], [has_valset c v q] says that an update of [c] with id [v] is in [q],
    [hook_queue chs q c pre] is what the hook leaves of [q].  [from_hex] is the strict
    reading of a hex string (optional 0x, odd length padded on the left, every character a hex
    digit), [pad32] = zeroPadBytes(_, 32), [caller_of sender contract] = the sender if present,
    else the contract.  [calls_of q] are the contract calls among the queue messages [q]. *)
From Coq Require Import List ZArith Bool String.
From Paloma Require Import Base.Corr Scheduler.Jobs Scheduler.JobsProofs Scheduler.StoreKeys.
From Paloma Require Gen.C17.
Import ListNotations.
Open Scope Z_scope.

(** Job ids are unique, in every reachable store. *)
Theorem job_ids_unique :
  forall (dd : bytes -> option (bytes * bytes)) (dp : bytes -> option bytes)
         (chs : list (bytes * bytes)) (ops : list op),
  NoDup (map j_id (jobs (run dd dp chs ops))).
Proof. exact JobsProofs.job_ids_unique. Qed.
Print Assumptions job_ids_unique.

(** Whatever is stored under an id stays there, field for field (id, owner, chain type and
    reference, definition, payload, modifiable flag, MEV flag), through every continuation made of
    requests of any entry point (create / execute by accounts, contracts, keeper callers; accepted
    or not), snapshot publications and block hooks.  The single excluded step is not a request: a
    genesis export / import of the module, which carries no jobs (see
    [genesis_round_trip_drops_jobs]; witness JobsProofs.job_immutable_across_genesis_round_trip_refuted). *)
Theorem job_immutable :
  forall dd dp chs (ops ops' : list op) (id : bytes) (j : job),
  ~ In OGenesisRoundTrip ops' ->
  job_at (run dd dp chs ops) id = Some j ->
  job_at (run dd dp chs (ops ++ ops')) id = Some j.
Proof. exact JobsProofs.job_immutable. Qed.
Print Assumptions job_immutable.

(** The store only grows at its end: no entry is rewritten, reordered or removed. *)
Theorem jobs_only_appended :
  forall dd dp chs (ops ops' : list op),
  ~ In OGenesisRoundTrip ops' ->
  exists l, jobs (run dd dp chs (ops ++ ops')) = jobs (run dd dp chs ops) ++ l.
Proof. exact JobsProofs.jobs_only_appended. Qed.
Print Assumptions jobs_only_appended.

(** Every stored job is exactly the job of a create request of the history that passed
    ValidateBasic; in particular its owner is that request's creator. *)
Theorem stored_job_is_created_job :
  forall dd dp chs (ops : list op) (j : job),
  In j (jobs (run dd dp chs ops)) -> In (OCreate j true) ops.
Proof. exact JobsProofs.stored_job_is_created_job. Qed.
Print Assumptions stored_job_is_created_job.

(** A successful execute request — by an account through the msg server, by a contract through
    the bindings, or directly at the keeper — after ANY history: the live queue afterwards is the
    queue before, where the valset hook either did nothing or replaced every queued valset update
    of the job's chain by exactly one new one, followed by exactly one contract call. *)
Theorem execute_enqueues_exactly_stored_call :
  forall dd dp chs (ops : list op) (o : op) (x : exec_in),
  let s := run dd dp chs ops in
  exec_req o = Some x ->
  snd (step_res dd dp s o) = Ok ->
  exists (j : job) (c : call),
    job_at s (x_id x) = Some j /\ jobs (step dd dp s o) = jobs s /\
    queue (step dd dp s o) =
      match x_pre x with
      | Some v => if has_valset (j_cref j) v (queue s) then queue s
                  else drop_valsets (j_cref j) (queue s) ++ [QValset (j_cref j) (c_turnstone c) v]
      | None => queue s
      end ++ [QCall c] /\
    c_chain c = j_cref j /\ chain_info chs (j_cref j) = Some (c_turnstone c) /\
    (exists abi, dd (j_def j) = Some (abi, c_contract c)) /\
    x_pick x = Some (c_assignee c) /\ c_mev c = j_mev j /\
    (j_modifiable j = false -> nonempty (x_in x) = false) /\
    (exists base hx b sfx,
        base = (if j_modifiable j then match x_in x with Some p => p | None => j_payload j end
                else j_payload j) /\
        dp base = Some hx /\ from_hex hx = Some b /\
        pad32 (caller_of (x_sender x) (x_contract x)) = Some sfx /\ List.length sfx = 32%nat /\
        c_payload c = b ++ sfx).
Proof. exact JobsProofs.execute_enqueues_exactly_stored_call. Qed.
Print Assumptions execute_enqueues_exactly_stored_call.

(** Contract callers, end to end: the bytes [raw] a contract hands to the binding are the bytes of
    the call, followed by the contract's own address padded to 32 bytes — given only that Go's JSON
    decoder reads back the hex string of the document the binding printed. *)
Theorem wasm_execute_calls_with_raw_payload :
  forall dd dp chs (ops : list op) (id raw caddr claimed : bytes) (pre : option Z) (pick : option Z) (atm : bool),
  let s := run dd dp chs ops in
  let o := OWasmExec id raw caddr claimed pre pick atm in
  dp (wasm_wrap raw) = Some (hex_encode raw) ->
  Forall is_byte raw ->
  snd (step_res dd dp s o) = Ok ->
  exists (j : job) (c : call) (sfx : bytes),
    job_at s id = Some j /\ j_modifiable j = true /\ raw <> [] /\
    queue (step dd dp s o) = hook_queue chs (queue s) (j_cref j) pre ++ [QCall c] /\
    pad32 caddr = Some sfx /\ c_payload c = raw ++ sfx /\
    c_sender c = Some caddr /\ c_contractaddr c = Some caddr.
Proof. exact JobsProofs.wasm_execute_calls_with_raw_payload. Qed.
Print Assumptions wasm_execute_calls_with_raw_payload.

(** The suffix: 32 bytes, zeros then the address; an error exactly above 32 bytes; it determines
    the caller among addresses of one length; a 20-byte account address gives 12 zero bytes + address. *)
Theorem caller_suffix_identifies_caller :
  (forall a sfx, pad32 a = Some sfx ->
     (List.length a <= 32)%nat /\ sfx = repeat 0 (32 - List.length a) ++ a /\ List.length sfx = 32%nat) /\
  (forall a, pad32 a = None <-> (32 < List.length a)%nat) /\
  (forall a b sfx, pad32 a = Some sfx -> pad32 b = Some sfx -> List.length a = List.length b -> a = b) /\
  (forall a sfx, pad32 a = Some sfx -> skipn (32 - List.length a) sfx = a) /\
  (forall a, List.length a = 20%nat -> pad32 a = Some (repeat 0 12 ++ a)) /\
  pad_size = Gen.C17.sender_pad_size /\ Gen.C17.sender_pad_size = 32.
Proof.
  exact (conj pad32_some (conj pad32_none (conj pad32_injective (conj pad32_tail (conj pad32_20
         (conj eq_refl eq_refl)))))).
Qed.
Print Assumptions caller_suffix_identifies_caller.

(** Hex payloads: once unmarshalJob's validation ([from_hex]) accepts a string, what
    common.FromHex ([from_hex_lenient]) decodes is all of it; and hex.EncodeToString followed by
    the decoder is the identity on byte strings. *)
Theorem hex_decoding_exact :
  (forall s b, from_hex s = Some b -> from_hex_lenient s = b) /\
  (forall r, Forall is_byte r -> from_hex (hex_encode r) = Some r).
Proof. exact (conj from_hex_lenient_of_strict from_hex_encode). Qed.
Print Assumptions hex_decoding_exact.

(** A failed request — any operation, any reason (unknown job, fixed payload overridden, bad JSON,
    bad hex, unknown chain, caller longer than 32 bytes, relayer selection failed, binding
    validation, rejected create, MsgExecuteJob not authorised by its signers, the msg server's nil
    dereference for a creator without account) — changes no job and enqueues no contract call; delivered as a
    transaction it leaves no trace at all; otherwise the only possible trace is the valset update
    of the hook. *)
Theorem failed_execute_enqueues_none :
  forall dd dp chs (ops : list op) (o : op) (e : err),
  let s := run dd dp chs ops in
  snd (step_res dd dp s o) = Err e ->
  jobs (step dd dp s o) = jobs s /\
  calls_of (queue (step dd dp s o)) = calls_of (queue s) /\
  (atomic_op o = true -> step dd dp s o = s) /\
  (step dd dp s o = s \/
   exists x j, exec_req o = Some x /\ x_atomic x = false /\ job_at s (x_id x) = Some j /\
               queue (step dd dp s o) = hook_queue chs (queue s) (j_cref j) (x_pre x)).
Proof. exact JobsProofs.failed_execute_enqueues_none. Qed.
Print Assumptions failed_execute_enqueues_none.

(** Creating a job never enqueues anything; one request adds at most one contract call and never
    removes one. *)
Theorem requests_add_at_most_one_call :
  (forall dd dp s j vb, queue (step dd dp s (OCreate j vb)) = queue s) /\
  (forall dd dp s o, exists l,
      calls_of (queue (step dd dp s o)) = calls_of (queue s) ++ l /\ (List.length l <= 1)%nat).
Proof. exact (conj create_never_enqueues at_most_one_call_per_request). Qed.
Print Assumptions requests_add_at_most_one_call.

(** History level: every contract call ever enqueued is the call of a job that is in the store
    (unchanged, by immutability): the job's chain, contract and MEV flag, a payload that is a
    strictly decoded hex document followed by pad32 of the recorded caller, and for a
    non-modifiable job that document is the stored payload. *)
Theorem every_call_is_a_stored_jobs_call :
  forall dd dp chs (ops : list op) (c : call),
  ~ In OGenesisRoundTrip ops ->
  In c (calls_of (queue (run dd dp chs ops))) ->
  exists j, In j (jobs (run dd dp chs ops)) /\
    c_chain c = j_cref j /\ c_mev c = j_mev j /\
    (exists abi, dd (j_def j) = Some (abi, c_contract c)) /\
    exists base hx b caller sfx,
      dp base = Some hx /\ from_hex hx = Some b /\ pad32 caller = Some sfx /\
      c_payload c = b ++ sfx /\
      caller = caller_of (c_sender c) (c_contractaddr c) /\
      (j_modifiable j = false -> base = j_payload j).
Proof. exact JobsProofs.every_call_is_a_stored_jobs_call. Qed.
Print Assumptions every_call_is_a_stored_jobs_call.

(** The live turnstone queues, in every reachable state: each message carries the turnstone id
    of its chain, and a chain's queue holds AT MOST ONE valset update.  (This is what makes the
    "at most one valset update + exactly one call" of [execute_enqueues_exactly_stored_call] exact:
    the hook's scan never meets a foreign turnstone id, and deleting "every other update" deletes
    at most one.) *)
Theorem queue_invariants :
  forall dd dp chs (ops : list op),
  (forall m, In m (queue (run dd dp chs ops)) -> chain_info chs (q_chain m) = Some (q_ts m)) /\
  (forall c, count_valsets c (queue (run dd dp chs ops)) <= 1)%nat.
Proof. exact JobsProofs.queue_invariants. Qed.
Print Assumptions queue_invariants.

(** msgSender.SendValsetMsgForChain as a function of the queue ([send_valset], the scan as the
    code does it): it never adds or removes a contract call; on a queue where the chain's messages
    carry the chain's turnstone id and hold at most one update it is: nothing, if an update with
    this id is queued; otherwise all updates of the chain dropped and the new one appended. *)
Theorem valset_hook_exact :
  (forall c ts v q, calls_of (send_valset c ts v q) = calls_of q) /\
  (forall c ts v q, ts_ok_for c ts q -> (count_valsets c q <= 1)%nat ->
     send_valset c ts v q = if has_valset c v q then q else drop_valsets c q ++ [QValset c ts v]) /\
  (forall chs q c pre, others c (hook_queue chs q c pre) = others c q).
Proof. exact (conj send_valset_calls (conj send_valset_closed hook_queue_others)). Qed.
Print Assumptions valset_hook_exact.

(** The identity in the suffix is the REAL caller's, for every entry point that exists: the
    creator of a MsgExecuteJob that ValidateBasic and the ante handler let through (and who has an
    account), the contract that dispatched the wasm message -- new or legacy -- whatever its body
    names as sender.  Any state. *)
Theorem run_suffix_is_real_caller :
  forall dd dp (s : state) (o : op) (a : bytes),
  real_caller o = Some a ->
  snd (step_res dd dp s o) = Ok ->
  exists q c b sfx,
    queue (step dd dp s o) = q ++ [QCall c] /\
    pad32 a = Some sfx /\ List.length sfx = 32%nat /\ c_payload c = b ++ sfx /\
    c_sender c = Some a /\
    match o with
    | OMsgExec _ au ac _ _ _ _ _ => au = true /\ ac = true /\ c_contractaddr c = None
    | _ => c_contractaddr c = Some a
    end.
Proof. exact JobsProofs.run_suffix_is_real_caller. Qed.
Print Assumptions run_suffix_is_real_caller.

(** A job with a fixed payload cannot be run by a contract at all (both bindings always supply a
    payload document, which ScheduleNow refuses): a restriction on who can run it, not a wrong run
    -- by [failed_execute_enqueues_none] nothing is enqueued. *)
Theorem contract_cannot_run_fixed_job :
  forall dd dp (s : state) (id raw caddr claimed : bytes) (pre pick : option Z) (atm : bool) (j : job),
  job_at s id = Some j -> j_modifiable j = false ->
  snd (step_res dd dp s (OWasmExec id raw caddr claimed pre pick atm)) <> Ok /\
  snd (step_res dd dp s (OLegacyExec id raw caddr claimed pre pick atm)) <> Ok.
Proof. exact JobsProofs.contract_cannot_run_fixed_job. Qed.
Print Assumptions contract_cannot_run_fixed_job.

(** Genesis: the exported state carries no jobs and the import writes none.  After a round trip the
    job store is empty (nothing is created or altered by an import; everything is lost), queues and
    chains are not the module's; and whatever is stored later was created after the round trip. *)
Theorem genesis_round_trip_drops_jobs :
  (forall dd dp s,
     jobs (step dd dp s OGenesisRoundTrip) = [] /\ queue (step dd dp s OGenesisRoundTrip) = queue s /\
     chains (step dd dp s OGenesisRoundTrip) = chains s /\ snd (step_res dd dp s OGenesisRoundTrip) = Ok) /\
  (forall dd dp chs ops ops' j,
     In j (jobs (run dd dp chs (ops ++ OGenesisRoundTrip :: ops'))) -> In (OCreate j true) ops').
Proof. exact (conj JobsProofs.genesis_round_trip_drops_jobs JobsProofs.stored_job_created_since_last_round_trip). Qed.
Print Assumptions genesis_round_trip_drops_jobs.

(** The other steps of the environment: a snapshot publication touches no job, no contract call and
    no other chain's queue (it is the hook, on its own); the module's block hooks do nothing. *)
Theorem environment_steps_touch_only_valset_updates :
  forall dd dp chs (ops : list op) (c : bytes) (pre : option Z),
  let s := run dd dp chs ops in
  jobs (step dd dp s (OPublish c pre)) = jobs s /\
  queue (step dd dp s (OPublish c pre)) = hook_queue chs (queue s) c pre /\
  calls_of (queue (step dd dp s (OPublish c pre))) = calls_of (queue s) /\
  others c (queue (step dd dp s (OPublish c pre))) = others c (queue s) /\
  step dd dp s OBlock = s.
Proof. exact JobsProofs.environment_steps_touch_only_valset_updates. Qed.
Print Assumptions environment_steps_touch_only_valset_updates.

(** Round 2 of the translation: EVERY function of the tree that calls AddNewJob / saveJob /
    ScheduleNow / ExecuteJob / PreJobExecution / SendValsetMsgForChain or opens the jobs store (found
    by name over all non-test, non-generated files) -- the model's operations are exactly these
    entry points: msg server create / execute, the two wasm messengers, nothing in genesis, nothing
    in Begin/EndBlock; the genesis state has no job field and Init/Export touch the params only; the
    duplicate check, the store key and every lookup use the submitted id string untransformed
    ([]byte(id), Job.GetID = the field); what each entry point hands over as the caller (creator of
    the message checked by the ante decorator; the router's contractAddr, the message's own sender
    member never read; the legacy message has no sender member); and the shape of
    SendValsetMsgForChain that [send_scan] mirrors (read queue, loop: foreign turnstone => return,
    same valset id => return, else DeleteJob; then put). *)
Theorem entry_points_are_of_current_source :
  Gen.C17.entry_points =
    ["x/evm/keeper/keeper.go:Keeper.PublishValsetToChain -> SendValsetMsgForChain";
     "x/evm/keeper/keeper.go:Keeper.justInTimeValsetUpdate -> SendValsetMsgForChain";
     "x/scheduler/bindings/legacy.go:customLegacyMessenger.DispatchMsg -> ExecuteJob";
     "x/scheduler/bindings/msg_plugin.go:customMessenger.executeJob -> ExecuteJob";
     "x/scheduler/keeper/keeper.go:Keeper.AddNewJob -> saveJob";
     "x/scheduler/keeper/keeper.go:Keeper.ExecuteJob -> PreJobExecution";
     "x/scheduler/keeper/keeper.go:Keeper.ExecuteJob -> ScheduleNow";
     "x/scheduler/keeper/keeper.go:Keeper.GetJob -> jobsStore";
     "x/scheduler/keeper/keeper.go:Keeper.JobIDExists -> jobsStore";
     "x/scheduler/keeper/keeper.go:Keeper.PreJobExecution -> PreJobExecution";
     "x/scheduler/keeper/keeper.go:Keeper.ScheduleNow -> ExecuteJob";
     "x/scheduler/keeper/keeper.go:Keeper.saveJob -> jobsStore";
     "x/scheduler/keeper/msg_server_create_job.go:msgServer.CreateJob -> AddNewJob";
     "x/scheduler/keeper/msg_server_execute_job.go:msgServer.ExecuteJob -> ExecuteJob"]%string /\
  Gen.C17.genesis_init_calls = ["k.SetParams(ctx, genState.Params)"]%string /\
  Gen.C17.genesis_export_calls = ["types.DefaultGenesis()"; "k.GetParams(ctx)"]%string /\
  Gen.C17.genesis_state_fields = ["Params"; "PortId"]%string /\
  Gen.C17.block_hooks =
    ["BeginBlocker: 0 statements"; "EndBlocker: 0 statements"; "AppModule.BeginBlock: return nil";
     "AppModule.EndBlock: return nil"]%string /\
  Gen.C17.job_id_keys =
    ["JobIDExists: Has([]byte(jobID))"; "saveJob: Save([]byte(job.GetID()))"; "GetJob: Load([]byte(jobID))";
     "AddNewJob: JobIDExists(job.GetID())"; "ExecuteJob: GetJob(jobID)"; "ScheduleNow: GetJob(jobID)";
     "ExecuteJob: ScheduleNow(jobID)"; "Job.GetID: return m.ID | """""]%string /\
  Gen.C17.job_id_rewrites = [] /\ Gen.C17.create_owner_unconditional = true /\
  Gen.C17.msgserver_creator = "sdk.AccAddressFromBech32(msg.GetMetadata().GetCreator())"%string /\
  Gen.C17.msgserver_identity_assignments =
    ["creator, err := sdk.AccAddressFromBech32(msg.GetMetadata().GetCreator())";
     "senderAddress := msgSrv.Keeper.GetAccount(ctx, creator).GetAddress()"]%string /\
  Gen.C17.ante_checks_creator_authorisation = true /\
  Gen.C17.binding_reads_message_sender = false /\
  Gen.C17.binding_dispatch =
    ["createJob(ctx, contractAddr, contractMsg.CreateJob)"; "executeJob(ctx, contractAddr, contractMsg.ExecuteJob)"]%string /\
  Gen.C17.binding_create_msg = "schedulertypes.NewMsgCreateJob(contractAddr.String(), j)"%string /\
  Gen.C17.legacy_execute_args = ["executeMsg.JobID"; "executeMsg.Payload"; "contractAddr"; "contractAddr"]%string /\
  Gen.C17.legacy_message_fields = ["JobID"; "Payload"]%string /\
  Gen.C17.router_dispatch =
    ["h.scheduler.DispatchMsg(ctx, contractAddr, contractIBCPortID, *contractMsg.Scheduler)";
     "h.legacyFallback.DispatchMsg(ctx, contractAddr, contractIBCPortID, msg)"]%string /\
  Gen.C17.prejob_calls = ["k.GetChainInfo(ctx, chainReferenceID)"; "k.justInTimeValsetUpdate(ctx, chain)"]%string /\
  Gen.C17.send_valset_shape = ["read queueName"; "for messages"; "put"]%string /\
  Gen.C17.send_valset_loop =
    ["mmsg.GetTurnstoneID() != string(chainInfo.GetSmartContractUniqueID()) => return nil";
     "action, ok := mmsg.GetAction().(*types.Message_UpdateValset); ok =>";
     "action.UpdateValset.Valset.ValsetID == valset.ValsetID => return nil";
     "m.ConsensusKeeper.DeleteJob(ctx, queueName, msg.GetId())"]%string.
Proof.
  exact (conj eq_refl (conj eq_refl (conj eq_refl (conj eq_refl (conj eq_refl (conj eq_refl (conj eq_refl (conj eq_refl (conj eq_refl (conj eq_refl (conj eq_refl (conj eq_refl (conj eq_refl (conj eq_refl (conj eq_refl (conj eq_refl (conj eq_refl (conj eq_refl (conj eq_refl eq_refl))))))))))))))))))).
Qed.
Print Assumptions entry_points_are_of_current_source.

(** The key space of job records is prefix-free against every other key family of the module's
    store (generated table: the prefix of the jobs store, every other KeyPrefix literal of
    x/scheduler and the id generator's key): for ALL ids and ALL key remainders, a job record's raw
    key is not a key of another family, so no write of another family can replace or fake a job
    record; job records of different ids have different keys; the criterion is exact (when it
    fails the families do share a key -- e.g. a counter under "jobs-runs-" + id IS the record of job
    "-runs-" + id); and the only store write of the keeper package is saveJob's. *)
Theorem job_record_keys_prefix_free :
  (forall p, In p Gen.C17.other_key_prefixes ->
     forall id k : string, (Gen.C17.job_record_prefix ++ id)%string <> (p ++ k)%string) /\
  (forall id1 id2 : string,
     (Gen.C17.job_record_prefix ++ id1)%string = (Gen.C17.job_record_prefix ++ id2)%string -> id1 = id2) /\
  (forall a b, prefix_disjoint a b = false -> exists x y, (a ++ x)%string = (b ++ y)%string) /\
  Gen.C17.job_record_prefix = "jobs"%string /\
  Gen.C17.store_write_sites =
    ["saveJob: keeperutil.Save(k.jobsStore(ctx), k.cdc, []byte(job.GetID()), job)"]%string.
Proof.
  exact (conj StoreKeys.job_record_keys_prefix_free (conj StoreKeys.job_key_injective
        (conj StoreKeys.prefix_disjoint_complete (conj eq_refl eq_refl)))).
Qed.
Print Assumptions job_record_keys_prefix_free.

(** Both messengers hex-encode the contract's payload bytes and wrap them UNCONDITIONALLY: the
    legacy unmarshallJob is straight-line code (the translator refuses any branch in it), the new
    messenger's only condition on the payload is the emptiness guard.  This is what the model's
    [wasm_wrap raw] for every [raw] -- also for bytes that happen to look like a payload document,
    a hex string or a job definition -- stands on. *)
Theorem contract_payload_wrapped_unconditionally :
  Gen.C17.legacy_unmarshal_stmts =
    ["var executeMsg executeJobWasmEvent"; "err := json.Unmarshal(msg, &executeMsg)";
     "hexString := hex.EncodeToString(executeMsg.Payload)";
     "executeMsg.Payload = []byte(fmt.Sprintf(""{\""hexPayload\"":\""%s\""}"", hexString))";
     "return executeMsg, err"]%string /\
  Gen.C17.binding_payload_stmts =
    ["if len(e.Payload) == 0"; "hexString := hex.EncodeToString(e.Payload)";
     "injected := []byte(fmt.Sprintf(""{\""hexPayload\"":\""%s\""}"", hexString))"]%string.
Proof. exact (conj eq_refl eq_refl). Qed.
Print Assumptions contract_payload_wrapped_unconditionally.

(** injectSenderIntoPayload appends the sender word UNCONDITIONALLY (straight-line code whose only
    condition is the error of zeroPadBytes: the translator refuses any branch on the payload's
    content), and on the whole way of a run no function reports success (a nil error) before the
    call that enqueues the message / hands the run on (a nil-error return before it is refused by
    the translator): "the request succeeded" implies "PutMessageInQueue was called". *)
Theorem sender_word_appended_unconditionally :
  Gen.C17.inject_stmts =
    ["appendSenderBytes, err := zeroPadBytes(senderBytes, 32)"; "if err != nil { return nil, err }";
     "return append(payload, appendSenderBytes...), nil"]%string /\
  Gen.C17.success_returns =
    ["Keeper.ExecuteJob: returns what AddSmartContractExecutionToConsensus returns";
     "Keeper.AddSmartContractExecutionToConsensus: return id, nil after PutMessageInQueue";
     "Keeper.ScheduleNow: return msgID, nil after ExecuteJob";
     "Keeper.ExecuteJob: returns what ScheduleNow returns";
     "msgServer.ExecuteJob: return &types.MsgExecuteJobResponse{ MessageID: msgID, }, nil after ExecuteJob";
     "customMessenger.executeJob: return nil, nil, nil, nil after ExecuteJob";
     "customLegacyMessenger.DispatchMsg: return nil, nil, nil, nil after ExecuteJob"]%string.
Proof. exact (conj eq_refl eq_refl). Qed.
Print Assumptions sender_word_appended_unconditionally.

(** The model mirrors the source as it is now (translated on every check): pad size and append
    order of injectSenderIntoPayload, the order sender-then-contract of the suffix source, what
    feeds each SubmitLogicCall / Message field, the two payload guards of ScheduleNow, the
    duplicate guard coming first in AddNewJob, owner := creator, what the msg server and the
    binding pass to the keeper, definition and payload decoded separately and hex validation in unmarshalJob, that saveJob (called by AddNewJob
    only) is the only writer of the jobs store, and the field list of types.Job that the model's
    [job] record covers (Permissions and Triggers are stored and compared byte-for-byte by the
    harness, no code reads them). *)
Theorem model_is_of_current_source :
  Gen.C17.sender_pad_size = 32 /\
  Gen.C17.inject_pad_arg = "senderBytes"%string /\
  Gen.C17.inject_return = "append(payload, appendSenderBytes...)"%string /\
  Gen.C17.zeropad_guard = "inputLen > size"%string /\
  Gen.C17.zeropad_copy = "copy(ret[size-inputLen:], input)"%string /\
  Gen.C17.suffix_cases = ["jcfg.SenderAddress != nil"; "jcfg.ContractAddress != nil"]%string /\
  Gen.C17.inject_call = "injectSenderIntoPayload(hexBytes, common.FromHex(load.HexPayload))"%string /\
  Gen.C17.logic_call_fields =
    ["HexContractAddress := def.GetAddress()"; "Abi := common.FromHex(def.GetABI())";
     "Payload := modifiedPayload"; "SenderAddress := jcfg.SenderAddress";
     "ContractAddress := jcfg.ContractAddress";
     "ExecutionRequirements := types.SubmitLogicCall_ExecutionRequirements{ EnforceMEVRelay: jcfg.Requirements.EnforceMEVRelay, }"]%string /\
  Gen.C17.enqueue_args = ["jcfg.RefID"; "string(ci.GetSmartContractUniqueID())"]%string /\
  Gen.C17.unmarshal_decodes = ["definition, &jobDefinition"; "payload, &jobPayload"]%string /\
  Gen.C17.unmarshal_validates_hex = true /\ Gen.C17.hex_validation_uses_decodestring = true /\
  Gen.C17.put_queue = "consensustypes.Queue( types.ConsensusTurnstoneMessage, xchainType, chainReferenceID, )"%string /\
  Gen.C17.put_message_fields =
    ["ChainReferenceID := chainReferenceID"; "TurnstoneID := turnstoneID";
     "Action := &types.Message_SubmitLogicCall{ SubmitLogicCall: logicCall, }";
     "Assignee := assignee"; "AssigneeRemoteAddress := remoteAddr"]%string /\
  Gen.C17.schedule_guards =
    ["len(in) > 0 && !job.GetIsPayloadModifiable() => return error";
     "job.GetIsPayloadModifiable() && in != nil => payload = in"]%string /\
  Gen.C17.job_configuration =
    ["Definition := job.GetDefinition()"; "Payload := payload"; "SenderAddress := senderAddress";
     "ContractAddress := contractAddress"; "RefID := router.GetChainReferenceID()";
     "Requirements := xchain.JobRequirements{ EnforceMEVRelay: job.EnforceMEVRelay, }"]%string /\
  Gen.C17.addnewjob_first_guard = "k.JobIDExists(ctx, job.GetID())"%string /\
  Gen.C17.keeper_execute_calls =
    ["k.GetJob(ctx, jobID)"; "k.PreJobExecution(ctx, job)";
     "k.ScheduleNow(ctx, jobID, payload, senderAddress, contractAddr)"]%string /\
  Gen.C17.jobs_store_writers = ["saveJob"]%string /\ Gen.C17.savejob_callers = ["AddNewJob"]%string /\
  Gen.C17.create_owner = "job.Owner := sdk.AccAddressFromBech32(msg.Metadata.Creator)"%string /\
  Gen.C17.msgserver_execute_args = ["msg.GetJobID()"; "msg.GetPayload()"; "senderAddress"; "nil"]%string /\
  Gen.C17.msgserver_sender = "msgSrv.Keeper.GetAccount(ctx, creator).GetAddress()"%string /\
  Gen.C17.binding_execute_args = ["e.JobID"; "injected"; "contractAddr"; "contractAddr"]%string /\
  Gen.C17.binding_wrap = "[]byte(fmt.Sprintf(""{\""hexPayload\"":\""%s\""}"", hexString))"%string /\
  Gen.C17.job_fields =
    ["ID"; "Owner"; "Routing"; "Definition"; "Payload"; "IsPayloadModifiable"; "Permissions";
     "Triggers"; "EnforceMEVRelay"]%string.
Proof.
  exact (conj eq_refl (conj eq_refl (conj eq_refl (conj eq_refl (conj eq_refl (conj eq_refl (conj eq_refl (conj eq_refl (conj eq_refl (conj eq_refl (conj eq_refl (conj eq_refl (conj eq_refl (conj eq_refl (conj eq_refl (conj eq_refl (conj eq_refl (conj eq_refl (conj eq_refl (conj eq_refl (conj eq_refl (conj eq_refl (conj eq_refl (conj eq_refl (conj eq_refl (eq_refl)))))))))))))))))))))))))).
Qed.
Print Assumptions model_is_of_current_source.
