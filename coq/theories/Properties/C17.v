(** C17 — scheduler: jobs are immutable; each run enqueues exactly the stored call plus the caller's
    identity; a failed execute enqueues no contract call.
    Only statements closed by [exact]; the proofs are in Scheduler/JobsProofs.v.

    Reading aid.  [run dd dp chs ops] is the state after the history [ops] (any list of create /
    execute / contract-execute requests, accepted or not) from the empty store with the registered
    chains [chs]; [step] applies one request, [step_res] also gives its outcome.  [dd] / [dp] are
    Go's JSON decoders for the job definition (-> ABI string, contract address) and the payload
    document (-> hexPayload string): ARBITRARY functions, nothing is assumed about them.
    [exec_req o] is the keeper-level request of an execute operation: job id, supplied payload
    ([None] = nil), sender / contract address ([None] = nil), and the environment's answers
    [x_pre] (the PreJobExecution hook enqueued a valset update) and [x_pick] (relayer selection:
    [Some assignee] or [None] = error; selection itself is property C14).  [from_hex] is the strict
    reading of a hex string (optional 0x, odd length padded on the left, every character a hex
    digit), [pad32] = zeroPadBytes(_, 32), [caller_of sender contract] = the sender if present,
    else the contract.  [calls_of q] are the contract calls among the queue messages [q]. *)
From Coq Require Import List ZArith Bool String.
From Paloma Require Import Base.Corr Scheduler.Jobs Scheduler.JobsProofs.
From Paloma Require Gen.C17.
Import ListNotations.
Open Scope Z_scope.

(** Job ids are unique, in every reachable store. *)
Theorem job_ids_unique :
  forall (dd : bytes -> option (bytes * bytes)) (dp : bytes -> option bytes)
         (chs : list (bytes * bytes)) (ops : list op),
  NoDup (map j_id (jobs (run dd dp chs ops))).
Proof. exact JobsProofs.job_ids_unique. Qed.
Print Assumptions job_ids_unique.

(** Whatever is stored under an id stays there, field for field (id, owner, chain type and
    reference, definition, payload, modifiable flag, MEV flag), through every continuation. *)
Theorem job_immutable :
  forall dd dp chs (ops ops' : list op) (id : bytes) (j : job),
  job_at (run dd dp chs ops) id = Some j ->
  job_at (run dd dp chs (ops ++ ops')) id = Some j.
Proof. exact JobsProofs.job_immutable. Qed.
Print Assumptions job_immutable.

(** The store only grows at its end: no entry is rewritten, reordered or removed. *)
Theorem jobs_only_appended :
  forall dd dp chs (ops ops' : list op),
  exists l, jobs (run dd dp chs (ops ++ ops')) = jobs (run dd dp chs ops) ++ l.
Proof. exact JobsProofs.jobs_only_appended. Qed.
Print Assumptions jobs_only_appended.

(** Every stored job is exactly the job of a create request of the history that passed
    ValidateBasic; in particular its owner is that request's creator. *)
Theorem stored_job_is_created_job :
  forall dd dp chs (ops : list op) (j : job),
  In j (jobs (run dd dp chs ops)) -> In (OCreate j true) ops.
Proof. exact JobsProofs.stored_job_is_created_job. Qed.
Print Assumptions stored_job_is_created_job.

(** A successful execute request — by an account through the msg server, by a contract through
    the bindings, or directly at the keeper — after ANY history: *)
Theorem execute_enqueues_exactly_stored_call :
  forall dd dp chs (ops : list op) (o : op) (x : exec_in),
  let s := run dd dp chs ops in
  exec_req o = Some x ->
  snd (step_res dd dp s o) = Ok ->
  exists (j : job) (c : call),
    job_at s (x_id x) = Some j /\ jobs (step dd dp s o) = jobs s /\
    queue (step dd dp s o) = queue s ++ (if x_pre x then [QValset (j_cref j)] else []) ++ [QCall c] /\
    c_chain c = j_cref j /\ chain_info chs (j_cref j) = Some (c_turnstone c) /\
    (exists abi, dd (j_def j) = Some (abi, c_contract c)) /\
    x_pick x = Some (c_assignee c) /\ c_mev c = j_mev j /\
    (j_modifiable j = false -> nonempty (x_in x) = false) /\
    (exists base hx b sfx,
        base = (if j_modifiable j then match x_in x with Some p => p | None => j_payload j end
                else j_payload j) /\
        dp base = Some hx /\ from_hex hx = Some b /\
        pad32 (caller_of (x_sender x) (x_contract x)) = Some sfx /\ List.length sfx = 32%nat /\
        c_payload c = b ++ sfx).
Proof. exact JobsProofs.execute_enqueues_exactly_stored_call. Qed.
Print Assumptions execute_enqueues_exactly_stored_call.

(** Contract callers, end to end: the bytes [raw] a contract hands to the binding are the bytes of
    the call, followed by the contract's own address padded to 32 bytes — given only that Go's JSON
    decoder reads back the hex string of the document the binding printed. *)
Theorem wasm_execute_calls_with_raw_payload :
  forall dd dp chs (ops : list op) (id raw caddr : bytes) (pre : bool) (pick : option Z) (atm : bool),
  let s := run dd dp chs ops in
  let o := OWasmExec id raw caddr pre pick atm in
  dp (wasm_wrap raw) = Some (hex_encode raw) ->
  Forall is_byte raw ->
  snd (step_res dd dp s o) = Ok ->
  exists (j : job) (c : call) (sfx : bytes),
    job_at s id = Some j /\ j_modifiable j = true /\ raw <> [] /\
    queue (step dd dp s o) = queue s ++ (if pre then [QValset (j_cref j)] else []) ++ [QCall c] /\
    pad32 caddr = Some sfx /\ c_payload c = raw ++ sfx /\
    c_sender c = Some caddr /\ c_contractaddr c = Some caddr.
Proof. exact JobsProofs.wasm_execute_calls_with_raw_payload. Qed.
Print Assumptions wasm_execute_calls_with_raw_payload.

(** The suffix: 32 bytes, zeros then the address; an error exactly above 32 bytes; it determines
    the caller among addresses of one length; a 20-byte account address gives 12 zero bytes + address. *)
Theorem caller_suffix_identifies_caller :
  (forall a sfx, pad32 a = Some sfx ->
     (List.length a <= 32)%nat /\ sfx = repeat 0 (32 - List.length a) ++ a /\ List.length sfx = 32%nat) /\
  (forall a, pad32 a = None <-> (32 < List.length a)%nat) /\
  (forall a b sfx, pad32 a = Some sfx -> pad32 b = Some sfx -> List.length a = List.length b -> a = b) /\
  (forall a sfx, pad32 a = Some sfx -> skipn (32 - List.length a) sfx = a) /\
  (forall a, List.length a = 20%nat -> pad32 a = Some (repeat 0 12 ++ a)) /\
  pad_size = Gen.C17.sender_pad_size /\ Gen.C17.sender_pad_size = 32.
Proof.
  exact (conj pad32_some (conj pad32_none (conj pad32_injective (conj pad32_tail (conj pad32_20
         (conj eq_refl eq_refl)))))).
Qed.
Print Assumptions caller_suffix_identifies_caller.

(** Hex payloads: once unmarshalJob's validation ([from_hex]) accepts a string, what
    common.FromHex ([from_hex_lenient]) decodes is all of it; and hex.EncodeToString followed by
    the decoder is the identity on byte strings. *)
Theorem hex_decoding_exact :
  (forall s b, from_hex s = Some b -> from_hex_lenient s = b) /\
  (forall r, Forall is_byte r -> from_hex (hex_encode r) = Some r).
Proof. exact (conj from_hex_lenient_of_strict from_hex_encode). Qed.
Print Assumptions hex_decoding_exact.

(** A failed request — any operation, any reason (unknown job, fixed payload overridden, bad JSON,
    bad hex, unknown chain, caller longer than 32 bytes, relayer selection failed, binding
    validation, rejected create) — changes no job and enqueues no contract call; delivered as a
    transaction it leaves no trace at all; otherwise the only possible trace is the valset update
    of the hook. *)
Theorem failed_execute_enqueues_none :
  forall dd dp chs (ops : list op) (o : op) (e : err),
  let s := run dd dp chs ops in
  snd (step_res dd dp s o) = Err e ->
  jobs (step dd dp s o) = jobs s /\
  calls_of (queue (step dd dp s o)) = calls_of (queue s) /\
  (atomic_op o = true -> step dd dp s o = s) /\
  (step dd dp s o = s \/
   exists x j, exec_req o = Some x /\ job_at s (x_id x) = Some j /\ x_pre x = true /\
               queue (step dd dp s o) = queue s ++ [QValset (j_cref j)]).
Proof. exact JobsProofs.failed_execute_enqueues_none. Qed.
Print Assumptions failed_execute_enqueues_none.

(** Creating a job never enqueues anything; one request adds at most one contract call and never
    removes one. *)
Theorem requests_add_at_most_one_call :
  (forall dd dp s j vb, queue (step dd dp s (OCreate j vb)) = queue s) /\
  (forall dd dp s o, exists l,
      calls_of (queue (step dd dp s o)) = calls_of (queue s) ++ l /\ (List.length l <= 1)%nat).
Proof. exact (conj create_never_enqueues at_most_one_call_per_request). Qed.
Print Assumptions requests_add_at_most_one_call.

(** History level: every contract call ever enqueued is the call of a job that is in the store
    (unchanged, by immutability): the job's chain, contract and MEV flag, a payload that is a
    strictly decoded hex document followed by pad32 of the recorded caller, and for a
    non-modifiable job that document is the stored payload. *)
Theorem every_call_is_a_stored_jobs_call :
  forall dd dp chs (ops : list op) (c : call),
  In c (calls_of (queue (run dd dp chs ops))) ->
  exists j, In j (jobs (run dd dp chs ops)) /\
    c_chain c = j_cref j /\ c_mev c = j_mev j /\
    (exists abi, dd (j_def j) = Some (abi, c_contract c)) /\
    exists base hx b caller sfx,
      dp base = Some hx /\ from_hex hx = Some b /\ pad32 caller = Some sfx /\
      c_payload c = b ++ sfx /\
      caller = caller_of (c_sender c) (c_contractaddr c) /\
      (j_modifiable j = false -> base = j_payload j).
Proof. exact JobsProofs.every_call_is_a_stored_jobs_call. Qed.
Print Assumptions every_call_is_a_stored_jobs_call.

(** The model mirrors the source as it is now (translated on every check): pad size and append
    order of injectSenderIntoPayload, the order sender-then-contract of the suffix source, what
    feeds each SubmitLogicCall / Message field, the two payload guards of ScheduleNow, the
    duplicate guard coming first in AddNewJob, owner := creator, what the msg server and the
    binding pass to the keeper, definition and payload decoded separately and hex validation in unmarshalJob, that saveJob (called by AddNewJob
    only) is the only writer of the jobs store, and the field list of types.Job that the model's
    [job] record covers (Permissions and Triggers are stored and compared byte-for-byte by the
    harness, no code reads them). *)
Theorem model_is_of_current_source :
  Gen.C17.sender_pad_size = 32 /\
  Gen.C17.inject_pad_arg = "senderBytes"%string /\
  Gen.C17.inject_return = "append(payload, appendSenderBytes...)"%string /\
  Gen.C17.zeropad_guard = "inputLen > size"%string /\
  Gen.C17.zeropad_copy = "copy(ret[size-inputLen:], input)"%string /\
  Gen.C17.suffix_cases = ["jcfg.SenderAddress != nil"; "jcfg.ContractAddress != nil"]%string /\
  Gen.C17.inject_call = "injectSenderIntoPayload(hexBytes, common.FromHex(load.HexPayload))"%string /\
  Gen.C17.logic_call_fields =
    ["HexContractAddress := def.GetAddress()"; "Abi := common.FromHex(def.GetABI())";
     "Payload := modifiedPayload"; "SenderAddress := jcfg.SenderAddress";
     "ContractAddress := jcfg.ContractAddress";
     "ExecutionRequirements := types.SubmitLogicCall_ExecutionRequirements{ EnforceMEVRelay: jcfg.Requirements.EnforceMEVRelay, }"]%string /\
  Gen.C17.enqueue_args = ["jcfg.RefID"; "string(ci.GetSmartContractUniqueID())"]%string /\
  Gen.C17.unmarshal_decodes = ["definition, &jobDefinition"; "payload, &jobPayload"]%string /\
  Gen.C17.unmarshal_validates_hex = true /\ Gen.C17.hex_validation_uses_decodestring = true /\
  Gen.C17.put_queue = "consensustypes.Queue( types.ConsensusTurnstoneMessage, xchainType, chainReferenceID, )"%string /\
  Gen.C17.put_message_fields =
    ["ChainReferenceID := chainReferenceID"; "TurnstoneID := turnstoneID";
     "Action := &types.Message_SubmitLogicCall{ SubmitLogicCall: logicCall, }";
     "Assignee := assignee"; "AssigneeRemoteAddress := remoteAddr"]%string /\
  Gen.C17.schedule_guards =
    ["len(in) > 0 && !job.GetIsPayloadModifiable() => return error";
     "job.GetIsPayloadModifiable() && in != nil => payload = in"]%string /\
  Gen.C17.job_configuration =
    ["Definition := job.GetDefinition()"; "Payload := payload"; "SenderAddress := senderAddress";
     "ContractAddress := contractAddress"; "RefID := router.GetChainReferenceID()";
     "Requirements := xchain.JobRequirements{ EnforceMEVRelay: job.EnforceMEVRelay, }"]%string /\
  Gen.C17.addnewjob_first_guard = "k.JobIDExists(ctx, job.GetID())"%string /\
  Gen.C17.keeper_execute_calls =
    ["k.GetJob(ctx, jobID)"; "k.PreJobExecution(ctx, job)";
     "k.ScheduleNow(ctx, jobID, payload, senderAddress, contractAddr)"]%string /\
  Gen.C17.jobs_store_writers = ["saveJob"]%string /\ Gen.C17.savejob_callers = ["AddNewJob"]%string /\
  Gen.C17.create_owner = "job.Owner := sdk.AccAddressFromBech32(msg.Metadata.Creator)"%string /\
  Gen.C17.msgserver_execute_args = ["msg.GetJobID()"; "msg.GetPayload()"; "senderAddress"; "nil"]%string /\
  Gen.C17.msgserver_sender = "msgSrv.Keeper.GetAccount(ctx, creator).GetAddress()"%string /\
  Gen.C17.binding_execute_args = ["e.JobID"; "injected"; "contractAddr"; "contractAddr"]%string /\
  Gen.C17.binding_wrap = "[]byte(fmt.Sprintf(""{\""hexPayload\"":\""%s\""}"", hexString))"%string /\
  Gen.C17.job_fields =
    ["ID"; "Owner"; "Routing"; "Definition"; "Payload"; "IsPayloadModifiable"; "Permissions";
     "Triggers"; "EnforceMEVRelay"]%string.
Proof.
  exact (conj eq_refl (conj eq_refl (conj eq_refl (conj eq_refl (conj eq_refl (conj eq_refl (conj eq_refl (conj eq_refl (conj eq_refl (conj eq_refl (conj eq_refl (conj eq_refl (conj eq_refl (conj eq_refl (conj eq_refl (conj eq_refl (conj eq_refl (conj eq_refl (conj eq_refl (conj eq_refl (conj eq_refl (conj eq_refl (conj eq_refl (conj eq_refl (conj eq_refl (eq_refl)))))))))))))))))))))))))).
Qed.
Print Assumptions model_is_of_current_source.
