(** C02 — skyway oracle safety.  Only statements closed by [exact]; proofs are in
    Skyway/OracleProofs.v, the model in Skyway/Oracle.v.

    Reading aid.  [run ops] is the state of one remote chain's oracle after the history [ops]
    (votes = *Claim messages, tallies, prunes, power changes, validator-nonce catch-up, governance
    nonce overrides, chain activations — any list, any order, any values).  [applied s] is the log
    of effects in the order they took place: an [entry] names the reset epoch, the claim and whether
    the handler could apply it.  [epoch] counts the cursor resets (Override / Activate), so "between
    governance resets" = "within one epoch".  [accepted_vote ops v c]: somewhere in [ops] validator
    [v] submitted claim [c] and Attest accepted it.  [power p vs] sums the staking power of the
    validators in [vs]; [pw (run ops1)] / [total (run ops1)] are the powers at the moment of the
    tally.  [c_h] is the claim hash as the implementation computed it (nothing is assumed about the
    hash: "identical claim" is "equal claim, or two different claims with one hash" — the hash is
    C11's subject).  The model reads 66, 100, GT, the de-duplication of Votes and the order of the
    two cursor writes from the source (Gen.C02). *)
From Coq Require Import List ZArith Bool.
From Paloma Require Import Base.Num Skyway.Oracle Skyway.OracleProofs.
From Paloma Require Gen.C02.
Import ListNotations.
Open Scope Z_scope.

(** The model is of the source as it is now (threshold, vote de-duplication, write order). *)
Theorem model_is_of_current_source :
  Gen.C02.threshold_num = 66 /\ Gen.C02.threshold_den = 100 /\ Gen.C02.threshold_strict = true /\
  Gen.C02.vote_dedup = true /\ Gen.C02.height_before_cursor = true.
Proof. exact source_facts. Qed.
Print Assumptions model_is_of_current_source.

(** Every effect was produced by a tally, and at that tally DISTINCT validators, each of which had
    voted for that claim (same nonce, same hash, same remote height), held more than 66% of the
    total power of that moment. *)
Theorem observed_needs_gt66_distinct : forall (ops : list op) (e : entry),
  In e (applied (run ops)) ->
  exists ops1 ops2 vs,
    ops = ops1 ++ Tally :: ops2 /\
    NoDup vs /\
    (forall v, In v vs -> exists c, accepted_vote ops1 v c /\
        c_nonce c = c_nonce (e_claim e) /\ c_height c = c_height (e_claim e) /\
        (c = e_claim e \/ (c <> e_claim e /\ c_h c = c_h (e_claim e)))) /\
    100 * power (pw (run ops1)) vs > 66 * total (run ops1).
Proof. exact observed_needs_gt66_distinct_run. Qed.
Print Assumptions observed_needs_gt66_distinct.

(** Per bridge deployment: a claim takes effect only at a tally at which it names the latest compass
    id (0 = no compass id recorded yet). *)
Theorem applied_only_of_current_deployment : forall (ops : list op) (e : entry),
  In e (applied (run ops)) ->
  exists ops1 ops2, ops = ops1 ++ Tally :: ops2 /\
    (compass (run ops1) = 0 \/ c_compass (e_claim e) = compass (run ops1)).
Proof. exact applied_of_current_deployment_run. Qed.
Print Assumptions applied_only_of_current_deployment.

(** Between resets at most one claim per event nonce takes effect. *)
Theorem one_claim_per_nonce : forall (ops : list op) (e1 e2 : entry),
  In e1 (applied (run ops)) -> In e2 (applied (run ops)) ->
  e_epoch e1 = e_epoch e2 -> c_nonce (e_claim e1) = c_nonce (e_claim e2) -> e1 = e2.
Proof. exact one_claim_per_nonce_run. Qed.
Print Assumptions one_claim_per_nonce.

(** No (epoch, nonce, claim) appears twice in the effect log. *)
Theorem applied_at_most_once : forall ops : list op,
  NoDup (map (fun e => (e_epoch e, c_nonce (e_claim e), c_h (e_claim e))) (applied (run ops))).
Proof. exact applied_at_most_once_run. Qed.
Print Assumptions applied_at_most_once.

(** The claims that took effect in an epoch, in the order they did, are at the nonces c+1, c+2, …,
    c+k where c is the value the reset gave the cursor; in the running epoch the cursor is c+k. *)
Theorem applied_in_consecutive_order : forall (ops : list op) (ep : Z),
  exists (c : Z) (k : nat),
    nonces_of_epoch ep (applied (run ops)) = zseq (c + 1) k /\
    (ep = epoch (run ops) -> c = epoch_cursor (run ops) /\ last_obs (run ops) = c + Z.of_nat k).
Proof. exact applied_consecutive_run. Qed.
Print Assumptions applied_in_consecutive_order.

Theorem applied_nonces_step_by_one : forall (ops : list op) (ep : Z) l1 a b l2,
  nonces_of_epoch ep (applied (run ops)) = l1 ++ a :: b :: l2 -> b = a + 1.
Proof. exact applied_consecutive_pairs. Qed.
Print Assumptions applied_nonces_step_by_one.

(** Epochs are opened by the two reset operations only, which also fix where the cursor starts. *)
Theorem epochs_are_resets : forall (ops : list op) (o : op),
  let s := run ops in
  match o with
  | Override n => epoch (step s o) = epoch s + 1 /\ epoch_cursor (step s o) = u64 n /\ last_obs (step s o) = u64 n
  | Activate _ => epoch (step s o) = epoch s + 1 /\ epoch_cursor (step s o) = 0 /\ last_obs (step s o) = 0
  | _ => epoch (step s o) = epoch s /\ epoch_cursor (step s o) = epoch_cursor s
  end.
Proof. exact (fun ops o => epochs_are_resets_run (run ops) o (Inv_run ops)). Qed.
Print Assumptions epochs_are_resets.

(** Exactly once when applicable: what the handler has minted to a receiver is the sum, over the
    effect log (which has no repetition), of the amounts of the claims whose handler could run. *)
Theorem applied_exactly_once_if_applicable : forall (ops : list op) (r : Z),
  zget0 (bal (run ops)) r = minted r (applied (run ops)).
Proof. exact effects_exactly_once_run. Qed.
Print Assumptions applied_exactly_once_if_applicable.


(* --- source translation tie (GenFn) --- *)
(* The Go function bodies named below are re-translated from the source on every check
   (harness/cmd/extract/gotrans*.go -> GenFn/*.v, semantics of the Go subset: Trans/GoSem.v).
   Each theorem states that the hand-written model function equals the translated body for all
   inputs (hypotheses are Go type ranges / the 256-bit range of math.Int only); the proofs are in
   Trans/C02Fn.v.  A readable change of the Go body breaks the proof, an unreadable one breaks the
   translator.  See design/GoTrans.md. *)
From Paloma Require Trans.GoSem Trans.GoSemFacts Trans.C02Fn.

Theorem required_model_is_translation_of_source :
  forall s : Oracle.state,
  GoSemFacts.fits256 (Gen.C02.threshold_num * Oracle.total s) ->
  GenFn.TryAttestation.tryAttestation_requiredPower (Oracle.total s) = GoSem.Val (Oracle.required s).
Proof. exact Trans.C02Fn.required_eq. Qed.
Print Assumptions required_model_is_translation_of_source.

Theorem exceeds_model_is_translation_of_source :
  forall req x : Z, GenFn.TryAttestation.tryAttestation_fires x req = Oracle.exceeds req x.
Proof. exact Trans.C02Fn.fires_eq. Qed.
Print Assumptions exceeds_model_is_translation_of_source.

Theorem vote_tally_model_is_translation_of_source :
  GenFn.TryAttestation.tryAttestation_initialPower = 0%Z /\
  forall acc p : Z, GoSemFacts.fits256 (acc + p) -> GenFn.TryAttestation.tryAttestation_addVote acc p = GoSem.Val (acc + p)%Z.
Proof. exact (conj Trans.C02Fn.tally_start_eq Trans.C02Fn.tally_step_eq). Qed.
Print Assumptions vote_tally_model_is_translation_of_source.
