(** C02 — skyway oracle safety.  Only statements closed by [exact]; proofs are in
    Skyway/OracleProofs.v, the model in Skyway/Oracle.v.

    Reading aid.  [run ops] is the state of one remote chain's oracle after the history [ops]
    (votes = *Claim messages, tallies, prunes, power changes, validator-nonce catch-up, governance
    nonce overrides, chain activations — any list, any order, any values).  [applied s] is the log
    of effects in the order they took place: an [entry] names the reset epoch, the claim and whether
    the handler could apply it.  [epoch] counts the cursor resets (Override / Activate), so "between
    governance resets" = "within one epoch".  [accepted_vote ops v c]: somewhere in [ops] validator
    [v] submitted claim [c] and Attest accepted it.  [power p vs] sums the staking power of the
    validators in [vs]; [pw (run ops1)] / [total (run ops1)] are the powers at the moment of the
    tally.  [c_h] is the claim hash as the implementation computed it (nothing is assumed about the
    hash: "identical claim" is "equal claim, or two different claims with one hash" — the hash is
    C11's subject).  The model reads 66, 100, GT, the de-duplication of Votes and the order of the
    two cursor writes from the source (Gen.C02).

    Second round.  Histories now also contain: validators entering / leaving the bonded set
    ([SetBonded]; a vote needs a staking record in status Bonded, powers are whatever staking reports
    at the tally, 0 without a record), the three claim types with their handlers ([c_kind] 0 deposit /
    1 executed batch / 2 light-node sale; [MkBatch] / [DropBatch] create and cancel pending batches),
    and a genesis export + import ([Regenesis]).  Several remote chains in one history are
    [mrun cs l] (Skyway/OracleChains.v): one state per chain, operations addressed to a chain or
    global.  [is_reset o]: Override, Activate, Regenesis. *)
From Coq Require Import List ZArith Bool.
From Paloma Require Import Base.Num Skyway.Oracle Skyway.OracleProofs Skyway.OracleChains.
From Paloma Require Gen.C02.
Import ListNotations.
Open Scope Z_scope.

(** The model is of the source as it is now (threshold, vote de-duplication, write order). *)
Theorem model_is_of_current_source :
  Gen.C02.threshold_num = 66 /\ Gen.C02.threshold_den = 100 /\ Gen.C02.threshold_strict = true /\
  Gen.C02.vote_dedup = true /\ Gen.C02.height_before_cursor = true.
Proof. exact source_facts. Qed.
Print Assumptions model_is_of_current_source.

(** Every effect was produced by a tally, and at that tally DISTINCT validators, each of which had
    voted for that claim (same nonce, same hash, same remote height), held more than 66% of the
    total power of that moment. *)
Theorem observed_needs_gt66_distinct : forall (ops : list op) (e : entry),
  In e (applied (run ops)) ->
  exists ops1 ops2 vs,
    ops = ops1 ++ Tally :: ops2 /\
    NoDup vs /\
    (forall v, In v vs -> exists c, accepted_vote ops1 v c /\
        c_nonce c = c_nonce (e_claim e) /\ c_height c = c_height (e_claim e) /\
        (c = e_claim e \/ (c <> e_claim e /\ c_h c = c_h (e_claim e)))) /\
    100 * power (pw (run ops1)) vs > 66 * total (run ops1).
Proof. exact observed_needs_gt66_distinct_run. Qed.
Print Assumptions observed_needs_gt66_distinct.

(** Per bridge deployment: a claim takes effect only at a tally at which it names the latest compass
    id (0 = no compass id recorded yet). *)
Theorem applied_only_of_current_deployment : forall (ops : list op) (e : entry),
  In e (applied (run ops)) ->
  exists ops1 ops2, ops = ops1 ++ Tally :: ops2 /\
    (compass (run ops1) = 0 \/ c_compass (e_claim e) = compass (run ops1)).
Proof. exact applied_of_current_deployment_run. Qed.
Print Assumptions applied_only_of_current_deployment.

(** Between resets at most one claim per event nonce takes effect. *)
Theorem one_claim_per_nonce : forall (ops : list op) (e1 e2 : entry),
  In e1 (applied (run ops)) -> In e2 (applied (run ops)) ->
  e_epoch e1 = e_epoch e2 -> c_nonce (e_claim e1) = c_nonce (e_claim e2) -> e1 = e2.
Proof. exact one_claim_per_nonce_run. Qed.
Print Assumptions one_claim_per_nonce.

(** No (epoch, nonce, claim) appears twice in the effect log. *)
Theorem applied_at_most_once : forall ops : list op,
  NoDup (map (fun e => (e_epoch e, c_nonce (e_claim e), c_h (e_claim e))) (applied (run ops))).
Proof. exact applied_at_most_once_run. Qed.
Print Assumptions applied_at_most_once.

(** The claims that took effect in an epoch, in the order they did, are at the nonces c+1, c+2, …,
    c+k where c is the value the reset gave the cursor; in the running epoch the cursor is c+k. *)
Theorem applied_in_consecutive_order : forall (ops : list op) (ep : Z),
  exists (c : Z) (k : nat),
    nonces_of_epoch ep (applied (run ops)) = zseq (c + 1) k /\
    (ep = epoch (run ops) -> c = epoch_cursor (run ops) /\ last_obs (run ops) = c + Z.of_nat k).
Proof. exact applied_consecutive_run. Qed.
Print Assumptions applied_in_consecutive_order.

Theorem applied_nonces_step_by_one : forall (ops : list op) (ep : Z) l1 a b l2,
  nonces_of_epoch ep (applied (run ops)) = l1 ++ a :: b :: l2 -> b = a + 1.
Proof. exact applied_consecutive_pairs. Qed.
Print Assumptions applied_nonces_step_by_one.

(** Epochs are opened by the two reset operations only, which also fix where the cursor starts. *)
Theorem epochs_are_resets : forall (ops : list op) (o : op),
  let s := run ops in
  match o with
  | Override n => epoch (step s o) = epoch s + 1 /\ epoch_cursor (step s o) = u64 n /\ last_obs (step s o) = u64 n
  | Activate _ => epoch (step s o) = epoch s + 1 /\ epoch_cursor (step s o) = 0 /\ last_obs (step s o) = 0
  | _ => epoch (step s o) = epoch s /\ epoch_cursor (step s o) = epoch_cursor s
  end.
Proof. exact (fun ops o => epochs_are_resets_run (run ops) o (Inv_run ops)). Qed.
Print Assumptions epochs_are_resets.

(** Exactly once when applicable: what the handler has minted to a receiver is the sum, over the
    effect log (which has no repetition), of the amounts of the claims whose handler could run. *)
Theorem applied_exactly_once_if_applicable : forall (ops : list op) (r : Z),
  zget0 (bal (run ops)) r = minted r (applied (run ops)).
Proof. exact effects_exactly_once_run. Qed.
Print Assumptions applied_exactly_once_if_applicable.


(* --- source translation tie (GenFn) --- *)
(* The Go function bodies named below are re-translated from the source on every check
   (harness/cmd/extract/gotrans*.go -> GenFn/*.v, semantics of the Go subset: Trans/GoSem.v).
   Each theorem states that the hand-written model function equals the translated body for all
   inputs (hypotheses are Go type ranges / the 256-bit range of math.Int only); the proofs are in
   Trans/C02Fn.v.  A readable change of the Go body breaks the proof, an unreadable one breaks the
   translator.  See design/GoTrans.md. *)
From Paloma Require Trans.GoSem Trans.GoSemFacts Trans.C02Fn.

Theorem required_model_is_translation_of_source :
  forall s : Oracle.state,
  GoSemFacts.fits256 (Gen.C02.threshold_num * Oracle.total s) ->
  GenFn.TryAttestation.tryAttestation_requiredPower (Oracle.total s) = GoSem.Val (Oracle.required s).
Proof. exact Trans.C02Fn.required_eq. Qed.
Print Assumptions required_model_is_translation_of_source.

Theorem exceeds_model_is_translation_of_source :
  forall req x : Z, GenFn.TryAttestation.tryAttestation_fires x req = Oracle.exceeds req x.
Proof. exact Trans.C02Fn.fires_eq. Qed.
Print Assumptions exceeds_model_is_translation_of_source.

Theorem vote_tally_model_is_translation_of_source :
  GenFn.TryAttestation.tryAttestation_initialPower = 0%Z /\
  forall acc p : Z, GoSemFacts.fits256 (acc + p) -> GenFn.TryAttestation.tryAttestation_addVote acc p = GoSem.Val (acc + p)%Z.
Proof. exact (conj Trans.C02Fn.tally_start_eq Trans.C02Fn.tally_step_eq). Qed.
Print Assumptions vote_tally_model_is_translation_of_source.

(** ---------------------------------------------------------------------------------------------
    Second round (deepen): validator-set changes, the three claim types, stalls, several chains.
    --------------------------------------------------------------------------------------------- *)

(** A counted vote was cast by the operator of a validator that had a staking record in status
    Bonded when the vote was accepted (left / jailed-out / removed validators cannot vote; what they
    voted before keeps counting with the power staking reports at the tally — 0 once they left). *)
Theorem voters_were_bonded : forall (ops : list op) (v : Z) (c : claim),
  accepted_vote ops v c ->
  exists o1 o2 known, ops = o1 ++ Vote v known c :: o2 /\ known = true /\ In v (bonded (run o1)).
Proof. exact accepted_vote_was_bonded. Qed.
Print Assumptions voters_were_bonded.

(** Exactly once, executed-batch claims: no pending batch is executed twice, and a batch that was
    executed is pending no more (batch nonces are never handed out again). *)
Theorem batch_executed_exactly_once : forall ops : list op,
  NoDup (map subject (filter (ok_kind 1) (applied (run ops)))) /\
  forall e, In e (applied (run ops)) -> ok_kind 1 e = true ->
    bget (batches (run ops)) (c_rcv (e_claim e)) (c_amt (e_claim e)) = None.
Proof. exact batch_executed_once_run. Qed.
Print Assumptions batch_executed_exactly_once.

(** Exactly once, light-node sale claims: the licences are exactly the sale claims whose handler
    ran, at most one per client; a sale claim that names the registered sale contract and took
    effect leaves its client with a licence (its own, or the one the client already had). *)
Theorem sale_licence_exactly_once : forall ops : list op,
  NoDup (map rcv_of (filter (ok_kind 2) (applied (run ops)))) /\
  (forall x a, zget (lic (run ops)) x = Some a <->
      exists e, In e (applied (run ops)) /\ ok_kind 2 e = true /\ subject e = (x, a)) /\
  (forall e, In e (applied (run ops)) -> c_kind (e_claim e) = 2 -> c_tok (e_claim e) = true ->
      zget (lic (run ops)) (c_rcv (e_claim e)) <> None).
Proof. exact sale_licences_run. Qed.
Print Assumptions sale_licence_exactly_once.

(** "Whenever it can be applied at all", deposits: the handler of a deposit that took effect ran
    iff the token is a registered bridge token of the chain. *)
Theorem deposit_applied_iff_registered : forall (ops : list op) (e : entry),
  In e (applied (run ops)) -> c_kind (e_claim e) = 0 -> e_ok e = c_tok (e_claim e).
Proof. exact deposit_applicable_run. Qed.
Print Assumptions deposit_applied_iff_registered.

(** Liveness note 1 as a theorem.  [stalled_observed s h]: the attestation (cursor+1, h) of the
    current deployment is already observed (reachable only by a reset to a lower nonce).  From then
    on, for EVERY continuation without a reset — any votes, tallies, power / validator-set changes —
    the cursor, the last height, the effect log stay what they are and the state stays stalled,
    unless a claim with a LOWER hash takes effect at that nonce.  Claims with the same or a higher
    hash (the honest majority re-submitting the event) never do.  Not a safety violation: nothing
    takes effect.  It lasts until governance resets the cursor again. *)
Theorem stalls_until_override : forall (ops0 ops : list op) (h : Z),
  stalled_observed (run ops0) h -> forallb (fun o => negb (is_reset o)) ops = true ->
  (frozen (run ops0) (run (ops0 ++ ops)) /\ stalled_observed (run (ops0 ++ ops)) h) \/
  escaped_lower (run ops0) (run (ops0 ++ ops)) h.
Proof. exact stalls_until_override_run. Qed.
Print Assumptions stalls_until_override.

(** Liveness note 2.  [stalled_height s h]: the un-observed attestation (cursor+1, h) names a remote
    height below the last observed one (since repair F2b a refused height writes nothing).  Without
    a reset that claim never takes effect; the cursor moves only if ANOTHER claim takes effect at
    that nonce. *)
Theorem stalls_on_refused_height : forall (ops0 ops : list op) (h : Z),
  stalled_height (run ops0) h -> forallb (fun o => negb (is_reset o)) ops = true ->
  (frozen (run ops0) (run (ops0 ++ ops)) /\ stalled_height (run (ops0 ++ ops)) h) \/
  escaped_other (run ops0) (run (ops0 ++ ops)) h.
Proof. exact stalls_on_refused_height_run. Qed.
Print Assumptions stalls_on_refused_height.

(** What a stall looks like from outside: the tally returns an error and writes nothing (so the
    attestations sorted after the blocking one — same nonce, higher hash — are not even tried),
    unless a claim with a lower hash takes effect in that very tally.  Blocking = already observed,
    or holding the votes with a refused height. *)
Theorem tally_aborts_while_stalled : forall (ops : list op) (h : Z),
  stalled_observed (run ops) h \/
  (exists a, In (next_nonce (run ops), h, a) (atts (run ops)) /\
     in_compass (run ops) (next_nonce (run ops), h, a) = true /\
     a_obs a = false /\ c_height (a_claim a) < last_height (run ops) /\
     fire_prefix (pw (run ops)) (required (run ops)) 0 (a_votes a) <> None) ->
  tally (run ops) = (run ops, false) \/ escaped_lower (run ops) (fst (tally (run ops))) h.
Proof. exact tally_aborts_while_stalled_run. Qed.
Print Assumptions tally_aborts_while_stalled.

(** Several chains: the state of chain [c] after a multi-chain history is the single-chain run of
    the operations addressed to [c] (plus the global ones) — nothing done on another chain is an
    input of it. *)
Theorem chains_are_independent : forall (cs : list Z) (l : list mop),
  mrun cs l = map (fun c => (c, run (project c l))) cs.
Proof. exact mrun_project. Qed.
Print Assumptions chains_are_independent.

(** Hence every theorem above holds for every chain of every multi-chain history. *)
Theorem every_chain_satisfies : forall P : state -> Prop,
  (forall ops, P (run ops)) -> forall cs l c s, In (c, s) (mrun cs l) -> P s.
Proof. exact every_chain_is_a_run. Qed.
Print Assumptions every_chain_satisfies.

(** The headline clause per chain: the > 66 % are DISTINCT validators whose votes were accepted by
    the oracle of THAT chain (messages addressed to it), under the powers of the moment of that
    chain's tally.  Votes for chain A never count for chain B. *)
Theorem votes_count_only_on_their_chain : forall (cs : list Z) (l : list mop) (c : Z) (s : state) (e : entry),
  In (c, s) (mrun cs l) -> In e (applied s) ->
  exists l1 y l2 vs,
    l = l1 ++ y :: l2 /\ addressed c y = true /\ snd y = Tally /\
    NoDup vs /\
    (forall v, In v vs -> exists cl, accepted_vote_on c l1 v cl /\
        c_nonce cl = c_nonce (e_claim e) /\ c_height cl = c_height (e_claim e) /\
        (cl = e_claim e \/ (cl <> e_claim e /\ c_h cl = c_h (e_claim e)))) /\
    100 * power (pw (run (project c l1))) vs > 66 * total (run (project c l1)).
Proof. exact votes_count_only_on_their_chain_run. Qed.
Print Assumptions votes_count_only_on_their_chain.

(** Genesis export + import is an operation of the histories above.  What it keeps: cursor, effect
    log, the attestations of the latest deployment.  What it drops: the compass id, the last remote
    height, attestations of other deployments (validator records are rebuilt from the vote lists). *)
Theorem genesis_round_trip_keeps : forall s : state,
  last_obs (regenesis s) = last_obs s /\ applied (regenesis s) = applied s /\ epoch (regenesis s) = epoch s /\
  compass (regenesis s) = 0 /\ last_height (regenesis s) = 0 /\
  (forall x, In x (atts (regenesis s)) <-> In x (atts s) /\ in_compass s x = true).
Proof. exact regenesis_facts. Qed.
Print Assumptions genesis_round_trip_keeps.

(** Second-round source facts the model and the proofs rely on: attestationTally returns
    TryAttestation's error (the stall theorems), the claim handlers admit only Bonded validators
    ([voters_were_bonded]), and each of the 15 store accessors of the oracle opens the store of the
    chain reference id it is called with (the translator refuses the source otherwise). *)
Theorem model_is_of_current_source_2 :
  Gen.C02.tally_aborts_on_error = true /\ Gen.C02.vote_requires_bonded = true /\ Gen.C02.per_chain_store_sites = 15.
Proof. exact source_facts2. Qed.
Print Assumptions model_is_of_current_source_2.

(** Can the counted power exceed the total?  [staking_consistent p t]: no recorded power is
    negative and the total is their sum — what x/staking maintains (both are written by its
    end-blocker; an operator without a power record, e.g. one that left the bonded set or whose
    staking record was removed, counts 0).  Then distinct voters never hold more than the total … *)
Theorem counted_power_never_exceeds_total : forall (p : list (Z * Z)) (t : Z) (vs : list Z),
  staking_consistent p t -> NoDup vs -> power p vs <= t.
Proof. exact counted_power_le_total. Qed.
Print Assumptions counted_power_never_exceeds_total.

(** … and two sets of distinct voters that both pass the 66 % threshold share a validator. *)
Theorem quorums_share_a_validator : forall (p : list (Z * Z)) (t : Z) (vs1 vs2 : list Z),
  staking_consistent p t -> NoDup vs1 -> NoDup vs2 ->
  100 * power p vs1 > 66 * t -> 100 * power p vs2 > 66 * t -> exists v, In v vs1 /\ In v vs2.
Proof. exact quorums_intersect. Qed.
Print Assumptions quorums_share_a_validator.

(** Third round: whose votes.  [Vote v known c] abbreviates [VoteBy v v known c]: the claim message was
    created (and, by the ante handler, signed) by validator [v]'s own account; [accepted_vote] — the
    votes the headline theorems count — are such messages only.  A message created by any other
    account that merely NAMES [v] as orchestrator is refused for all three claim types and changes
    nothing; the guard is read per claim handler from the source. *)
Theorem only_the_validator_itself_votes : forall (s : state) (sg v : Z) (known : bool) (c : claim),
  sg <> v -> vote_ok s sg v known c = false /\ step s (VoteBy sg v known c) = s.
Proof. exact foreign_vote_refused. Qed.
Print Assumptions only_the_validator_itself_votes.

Theorem model_is_of_current_source_3 :
  Gen.C02.creator_bound_deposit = true /\ Gen.C02.creator_bound_batch = true /\ Gen.C02.creator_bound_sale = true.
Proof. exact source_facts3. Qed.
Print Assumptions model_is_of_current_source_3.

(** Last round: the deposit handler's outcome does not depend on the size of the amount (any [Z]; the
    harness drives 2^63-1, 2^63, 2^64, 2^128, 2^200, 2^255 through the real handler), and the source
    converts no claim amount with a partial conversion on the handler path. *)
Theorem deposit_applicable_for_every_amount : forall (s : state) (c : claim) (amt : Z),
  c_kind c = 0 ->
  applicable s (mkClaim (c_nonce c) (c_h c) (c_height c) (c_compass c) 0 (c_rcv c) amt (c_tok c)) = applicable s c.
Proof. exact applicable_any_amount. Qed.
Print Assumptions deposit_applicable_for_every_amount.

Theorem model_is_of_current_source_4 : Gen.C02.handler_amount_partial_conversions = 0.
Proof. exact source_facts4. Qed.
Print Assumptions model_is_of_current_source_4.
