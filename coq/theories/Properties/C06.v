(** C06 — every stored signature is valid for the message as it currently stands.
    Only statements closed by [exact]; proofs live in Cons/QueueProofs.v and Skyway/ConfirmsProofs.v.

    Reading aid.  [run Sig verify ops] is the state of the consensus queues after the history [ops]
    (register external accounts / put a message / sign / submit a gas estimate / the end-blocker elects an
    estimate for one message and attaches the fees / remove / the latent ReassignValidator), [crun] the same
    for skyway's outgoing batches (register / build / confirm / UpdateBatchGasEstimate / remove).
    [verify : bytes -> signature -> key -> bool] is universally quantified: NOTHING is assumed about the
    signature scheme.  [sign_bytes it] / [checkpoint b] is the tuple of the item's fields that the code
    hashes into the signing bytes (which fields: translated from the source into Gen.C06.keccak_cover);
    [se_key e] is the key stored with the signature, [lookup_key reg v chain addr] is valset.GetSigningKey,
    [eth_address reg v chain] is evm.GetEthAddressByValidator.  [live_op] excludes only ReassignValidator,
    which has no production caller (theorem [reassign_has_no_live_caller], tied to the call graph of the
    source by the translator). *)
From Coq Require Import List ZArith Bool String.
From Paloma Require Import Cons.Queue Cons.QueueProofs Cons.QueueAlias Skyway.Confirms Skyway.ConfirmsProofs Skyway.ConfirmsRedeploy.
From Paloma Require Gen.C06.
Import ListNotations.
Open Scope Z_scope.

(** Consensus queue: at every point of every live history, each stored signature verifies against the
    item's CURRENT signing bytes under the stored key, and that key is the one the validator had
    registered (for the item's chain and the address it named) at the moment of the signing operation
    that put it there — when the item's bytes were already what they are now. *)
Theorem stored_sigs_valid_inv :
  forall (Sig : Type) (verify : sbytes -> Sig -> Z -> bool) (ops : list (op Sig)),
  Forall live_op ops ->
  forall (it : item Sig) (e : sigent Sig), In it (st_items (run Sig verify ops)) -> In e (it_sigs it) ->
  verify (sign_bytes it) (se_sig e) (se_key e) = true /\
  exists pre post it0,
    ops = pre ++ OpSign (se_val e) (it_chain it) (it_id it) (se_addr e) (se_sig e) :: post /\
    lookup_key (st_reg (run Sig verify pre)) (se_val e) (it_chain it) (se_addr e) = Some (se_key e) /\
    In it0 (st_items (run Sig verify pre)) /\ it_id it0 = it_id it /\ sign_bytes it0 = sign_bytes it.
Proof. exact stored_sigs_valid_all. Qed.
Print Assumptions stored_sigs_valid_inv.

(** Skyway batches: each stored confirmation belongs to a stored batch, verifies against that batch's
    CURRENT checkpoint under the stored eth address, which is the address the validator had registered
    for the batch's chain when it confirmed, the checkpoint being then what it is now. *)
Theorem stored_confirms_valid_inv :
  forall (Sig : Type) (verify : cbytes -> Sig -> Z -> bool) (ops : list (cop Sig)) (c : confirm Sig),
  In c (cs_confirms (crun Sig verify ops)) ->
  exists b, In b (cs_batches (crun Sig verify ops)) /\ b_nonce b = cf_nonce c /\ b_contract b = cf_contract c /\
    verify (checkpoint b) (cf_sig c) (cf_signer c) = true /\
    exists pre post b0,
      ops = pre ++ BConfirm (cf_val c) (cf_nonce c) (cf_contract c) (cf_signer c) (cf_sig c) :: post /\
      eth_address (cs_reg (crun Sig verify pre)) (cf_val c) (b_chain b) = Some (cf_signer c) /\
      In b0 (cs_batches (crun Sig verify pre)) /\ b_nonce b0 = b_nonce b /\ checkpoint b0 = checkpoint b.
Proof. exact stored_confirms_valid_all. Qed.
Print Assumptions stored_confirms_valid_inv.

(** A validator and a key appear at most once per item — over ALL histories, the latent reassignment included. *)
Theorem one_sig_per_validator_and_key :
  forall (Sig : Type) (verify : sbytes -> Sig -> Z -> bool) (ops : list (op Sig)) (it : item Sig),
  In it (st_items (run Sig verify ops)) ->
  NoDup (map se_val (it_sigs it)) /\ NoDup (map se_key (it_sigs it)).
Proof. exact one_sig_per_validator_and_key_all. Qed.
Print Assumptions one_sig_per_validator_and_key.

Theorem one_confirm_per_validator_and_key :
  forall (Sig : Type) (verify : cbytes -> Sig -> Z -> bool) (ops : list (cop Sig)),
  NoDup (map (fun c => (cf_nonce c, cf_contract c, cf_val c)) (cs_confirms (crun Sig verify ops))) /\
  NoDup (map (fun c => (cf_nonce c, cf_contract c, cf_signer c)) (cs_confirms (crun Sig verify ops))).
Proof. exact one_confirm_per_validator_and_key_all. Qed.
Print Assumptions one_confirm_per_validator_and_key.

(** Whenever a live step changes an item's signing bytes (elected estimate, fees), the item has no
    signatures afterwards: nothing is carried over. *)
Theorem sigs_cleared_on_change :
  forall (Sig : Type) (verify : sbytes -> Sig -> Z -> bool) (ops : list (op Sig)) (o : op Sig) (it it' : item Sig),
  live_op o -> In it (st_items (run Sig verify ops)) ->
  In it' (st_items (fst (step Sig verify (run Sig verify ops) o))) ->
  it_id it = it_id it' -> sign_bytes it' <> sign_bytes it -> it_sigs it' = [].
Proof. exact sigs_cleared_on_change_all. Qed.
Print Assumptions sigs_cleared_on_change.

Theorem confirms_cleared_on_change :
  forall (Sig : Type) (verify : cbytes -> Sig -> Z -> bool) (ops : list (cop Sig)) (o : cop Sig)
         (b b' : batch) (c : confirm Sig),
  In b (cs_batches (crun Sig verify ops)) ->
  In b' (cs_batches (fst (cstep Sig verify (crun Sig verify ops) o))) ->
  b_nonce b = b_nonce b' -> checkpoint b' <> checkpoint b ->
  In c (cs_confirms (fst (cstep Sig verify (crun Sig verify ops) o))) ->
  of_batch (b_nonce b') (b_contract b') c = false.
Proof. exact confirms_cleared_on_change_all. Qed.
Print Assumptions confirms_cleared_on_change.

(** The latent path, documented with a witness: ReassignValidator keeps SignData while changing the
    relayer that the bytes cover; after it a stored signature (valid before) no longer verifies. *)
Theorem reassign_keeps_stale_sigs :
  exists it e, In it (st_items (run isig iverify reassign_witness_ops)) /\ In e (it_sigs it) /\
    iverify (sign_bytes it) (se_sig e) (se_key e) = false /\
    (forall it0, In it0 (st_items (run isig iverify (firstn 4 reassign_witness_ops))) ->
       forall e0, In e0 (it_sigs it0) -> iverify (sign_bytes it0) (se_sig e0) (se_key e0) = true).
Proof. exact reassign_keeps_stale_sigs_witness. Qed.
Print Assumptions reassign_keeps_stale_sigs.

(** ... and that path is dead in the source as it is now: no production function calls
    ReassignOrphanedMessages / reassignMessageValidator / ReassignValidator (translator's call-graph
    query); SetElectedGasEstimate resets SignData and UpdateBatchGasEstimate deletes the confirms
    (the models use these translated flags, so the proofs above stop checking when they flip). *)
Theorem reassign_has_no_live_caller :
  Gen.C06.reassign_live_callers = [] /\
  Gen.C06.set_elected_clears_signdata = true /\ Gen.C06.update_estimate_deletes_confirms = true.
Proof. exact (conj eq_refl (conj eq_refl eq_refl)). Qed.
Print Assumptions reassign_has_no_live_caller.

(** ---- second round ---- *)

(** Clearing is total.  After an accepted UpdateBatchGasEstimate (estimate elected), cancel, executed, time-out or
    renewal for a new compass of batch (nonce, contract), NO confirmation of that batch is left in the store — the statement ranges over the whole
    confirmation store of every history, there is no bound on how many confirmations a batch had collected.
    ([delete_confirms] is a filter over all stored confirmations only as long as the translator finds nothing in
    DeleteBatchConfirms / GetBatchConfirmByNonceAndTokenContract / IterateBatchConfirmByNonceAndTokenContract that can
    end the listing early; see [confirm_readers_read_everything].) *)
Theorem no_confirm_survives_clearing :
  forall (Sig : Type) (verify : cbytes -> Sig -> Z -> bool) (ops : list (cop Sig)) (o : cop Sig) (nonce contract : Z),
  (exists e, o = BUpdateEstimate nonce contract e) \/ o = BRemove nonce contract \/ (exists b', o = BRebody nonce contract b') ->
  snd (cstep Sig verify (crun Sig verify ops) o) = COk ->
  forall c, In c (cs_confirms (fst (cstep Sig verify (crun Sig verify ops) o))) -> of_batch nonce contract c = false.
Proof. exact no_confirm_survives_clearing_all. Qed.
Print Assumptions no_confirm_survives_clearing.

(** The orchestrator's validator: every stored confirmation was given by a validator that was bonded or unbonding at
    that moment (the staking status is part of the modelled state and changes arbitrarily through [BSetStatus]);
    a confirmation sent for an unbonded validator or for an account that is no validator leaves the state as it was.
    This discharges what round one listed as an assumption. *)
Theorem confirms_only_from_bonded_or_unbonding :
  forall (Sig : Type) (verify : cbytes -> Sig -> Z -> bool) (ops : list (cop Sig)) (c : confirm Sig),
  In c (cs_confirms (crun Sig verify ops)) ->
  exists pre post,
    ops = pre ++ BConfirm (cf_val c) (cf_nonce c) (cf_contract c) (cf_signer c) (cf_sig c) :: post /\
    (status_of (cs_status (crun Sig verify pre)) (cf_val c) = st_unbonding \/
     status_of (cs_status (crun Sig verify pre)) (cf_val c) = st_bonded).
Proof. exact confirms_only_from_bonded_or_unbonding_all. Qed.
Print Assumptions confirms_only_from_bonded_or_unbonding.

Theorem unbonded_cannot_confirm :
  forall (Sig : Type) (verify : cbytes -> Sig -> Z -> bool) (s : cstate Sig) (v nonce contract signer : Z) (sg : Sig),
  status_of (cs_status s) v = st_none \/ status_of (cs_status s) v = st_unbonded ->
  fst (cstep Sig verify s (BConfirm v nonce contract signer sg)) = s /\
  snd (cstep Sig verify s (BConfirm v nonce contract signer sg)) <> COk.
Proof. exact unbonded_cannot_confirm_all. Qed.
Print Assumptions unbonded_cannot_confirm.

(** A compass redeploy while batches are open (round one's second assumption).  The checkpoint covers the compass id
    (part of [b_body]) and ConfirmBatch verifies against the id of the chain's CURRENT compass.  [BRebody] is what
    refreshOpenBatchCheckpoints does to one open batch when the compass of its chain changes (bytes to sign renewed,
    confirmations deleted), [redeploy_ops] its loop over the batches of the chain.  All the theorems above hold for
    histories with [BRebody] steps; here: from ANY state, after the loop no confirmation of any batch of the chain is
    left (no bound on batches or confirmations), every confirmation that belongs to no batch of the chain is still
    there, nothing appears, no batch is lost. *)
Theorem redeploy_clears_all :
  forall (Sig : Type) (verify : cbytes -> Sig -> Z -> bool) (s : cstate Sig) (chain : Z) (newbody : batch -> Z),
  let s' := crun_from Sig verify s (redeploy_ops Sig (cs_batches s) chain newbody) in
  (forall c b, In c (cs_confirms s') -> In b (cs_batches s) -> b_chain b = chain ->
     of_batch (b_nonce b) (b_contract b) c = false) /\
  (forall c, In c (cs_confirms s) ->
     (forall b, In b (cs_batches s) -> b_chain b = chain -> of_batch (b_nonce b) (b_contract b) c = false) ->
     In c (cs_confirms s')) /\
  (forall c, In c (cs_confirms s') -> In c (cs_confirms s)) /\
  List.length (cs_batches s') = List.length (cs_batches s).
Proof. exact redeploy_clears_all_proof. Qed.
Print Assumptions redeploy_clears_all.

(** ... and why the renewal is needed (the code before fix "refresh open batches when the compass changes"): with the
    compass id switched and the batch left alone, a stored confirmation that verified does not verify against the
    checkpoint ConfirmBatch now computes; the renewal removes it.  Witness replayed on the real keepers
    (harness/c06 scriptedRedeploy; known finding C06:compass-redeploy-keeps-open-batch-confirms on a tree without the fix). *)
Theorem redeploy_without_refresh_refuted :
  exists (s : cstate icsig) b c body',
    In b (cs_batches s) /\ In c (cs_confirms s) /\ of_batch (b_nonce b) (b_contract b) c = true /\
    icverify (checkpoint b) (cf_sig c) (cf_signer c) = true /\
    icverify (checkpoint (with_body b body')) (cf_sig c) (cf_signer c) = false /\
    cs_confirms (fst (cstep icsig icverify s (BRebody (b_nonce b) (b_contract b) body'))) = [].
Proof. exact redeploy_without_refresh_refuted_witness. Qed.
Print Assumptions redeploy_without_refresh_refuted.

(** ... and the source as it is now has the renewal: skyway's EVMActivatedChain subscriber calls
    refreshOpenBatchCheckpoints, which lists the open batches, recomputes their checkpoints and deletes their
    confirmations (translator; fix a05a08cf). *)
Theorem compass_change_renews_open_batches : Gen.C06.redeploy_refreshes_open_batches = true.
Proof. exact eq_refl. Qed.
Print Assumptions compass_change_renews_open_batches.

(** What the translator found in the source about the readers the clearing and duplicate checks depend on: none of the
    functions of skyway's confirmation store reachable from DeleteBatchConfirms and ConfirmBatch, nor the consensus
    queue's AddSignature, contains a construct that can end its scan early or bound it (a limit, a break that is not
    the caller's callback, a callback that asks to stop, a non-error return inside a loop, a slice bound); cancel and
    executed delete the confirmations; confirmHandlerCommon has its bonded-or-unbonding gate. *)
Theorem confirm_readers_read_everything :
  Gen.C06.delete_confirms_reads_all = true /\ Gen.C06.dup_checks_read_all = true /\
  forallb (fun p : string * list string => match snd p with [] => true | _ => false end) Gen.C06.confirm_readers = true /\
  Gen.C06.cancel_deletes_confirms = true /\ Gen.C06.executed_deletes_confirms = true /\
  Gen.C06.confirm_requires_bonded_or_unbonding = true.
Proof. exact (conj eq_refl (conj eq_refl (conj eq_refl (conj eq_refl (conj eq_refl eq_refl))))). Qed.
Print Assumptions confirm_readers_read_everything.

(** "A key appears at most once per item" holds for keys as the code identifies them — the registered Pubkey BLOB
    ([one_sig_per_validator_and_key], every [verify]).  It does NOT hold for the key that actually signs: the EVM
    verifier takes the last 20 bytes of the blob ([averify] = the ideal scheme behind that projection; blob id =
    1000 * EVM key id + encoding variant), so two validators that register one EVM key under two encodings both sign
    the same message with it, in a live history.  Refutation witness, replayed on the real keepers on every run;
    recorded as known finding C06:queue-key-aliased-by-pubkey-encoding (skyway's ConfirmBatch is not affected: it
    compares parsed addresses, [one_confirm_per_validator_and_key]). *)
Theorem key_unique_up_to_encoding_refuted :
  Forall live_op alias_ops /\
  exists it e1 e2, In it (st_items (run isig averify alias_ops)) /\ In e1 (it_sigs it) /\ In e2 (it_sigs it) /\
    se_val e1 <> se_val e2 /\ se_key e1 <> se_key e2 /\ se_key e1 / 1000 = se_key e2 / 1000 /\
    averify (sign_bytes it) (se_sig e1) (se_key e1) = true /\ averify (sign_bytes it) (se_sig e2) (se_key e2) = true.
Proof. exact key_unique_up_to_encoding_refuted_witness. Qed.
Print Assumptions key_unique_up_to_encoding_refuted.

(** Queue.Put with MsgIDToReplace keeps the SignData of the replaced message, whatever the caller changed in it
    ([OpReplace]: any new body; not a [live_op]).  (1) Witness: replacing the body of a signed item by one with other
    signing bytes leaves a signature that no longer verifies.  (2) When a caller is harmless: from a state whose stored
    signatures are all valid, a replace whose item has no signatures, or whose new body leaves the signing bytes as they
    are, keeps them all valid — for every [verify].  (3) The source has exactly one such caller, the fee attachment of the
    end-blocker ([OpElect]: SetElectedGasEstimate has emptied SignData in the same cache context); any other function
    that builds PutOptions with MsgIDToReplace makes this theorem fail. *)
Theorem replace_keeps_stale_sigs :
  exists it e, In it (st_items (run isig iverify replace_witness_ops)) /\ In e (it_sigs it) /\
    iverify (sign_bytes it) (se_sig e) (se_key e) = false /\
    (forall it0, In it0 (st_items (run isig iverify (firstn 4 replace_witness_ops))) ->
       forall e0, In e0 (it_sigs it0) -> iverify (sign_bytes it0) (se_sig e0) (se_key e0) = true).
Proof. exact replace_keeps_stale_sigs_witness. Qed.
Print Assumptions replace_keeps_stale_sigs.

Theorem replace_safe_iff_no_sigs_or_same_bytes :
  forall (Sig : Type) (verify : sbytes -> Sig -> Z -> bool) (s : state Sig) (chain id b : Z),
  wf Sig s -> all_sigs_valid Sig verify s ->
  (forall it, find_item (st_items s) chain id = Some it ->
              it_sigs it = [] \/ sign_bytes (Queue.with_body it b) = sign_bytes it) ->
  all_sigs_valid Sig verify (fst (step Sig verify s (OpReplace chain id b))).
Proof. exact replace_safe_all. Qed.
Print Assumptions replace_safe_iff_no_sigs_or_same_bytes.

Theorem replace_has_one_caller :
  Gen.C06.replace_callers = ["x/consensus/keeper/estimate.go:Keeper.checkAndProcessEstimatedFeePayer"]%string.
Proof. exact eq_refl. Qed.
Print Assumptions replace_has_one_caller.

(** ConfirmBatch stores the confirmation AS SUBMITTED; the model's [verify (checkpoint b) sg a] is about that whole field.
    In the source the field is checked as a whole: EthAddressFromSignature has a length guard and passes the very slice
    it was given to go-ethereum's SigToPub, which accepts 65 bytes only (no copy into a 65-byte buffer, no sub-slice), or
    the guard itself demands exactly 65 bytes.  And the compass id in the checkpoint ConfirmBatch verifies against is the
    evm chain info's (the compass the chain is bound to), not a secondary record. *)
Theorem confirmation_signature_checked_as_stored :
  Gen.C06.signature_checked_whole = true /\ Gen.C06.confirm_compass_id_from_chain_info = true.
Proof. exact (conj eq_refl eq_refl). Qed.
Print Assumptions confirmation_signature_checked_as_stored.

(** valset.GetSigningKey (the model's [lookup_key]: chain and named address of one of the validator's accounts) has a
    single key-returning exit and it has compared chain type, chain reference AND address with the arguments: there is
    no exit that hands out the key of an account registered under another chain reference or another address. *)
Theorem signing_key_lookup_is_exact :
  Gen.C06.signing_key_match_fields = ["Address"; "ChainReferenceID"; "ChainType"]%string /\ Gen.C06.signing_key_exits = 1.
Proof. exact (conj eq_refl eq_refl). Qed.
Print Assumptions signing_key_lookup_is_exact.
