(** C12 — unresponsive validators are jailed in bounded time; responsive ones never.
    Only statements closed by [exact]; proofs live in Valset/KeepAliveProofs.v.
    Model: Valset/KeepAlive.v (the code after the F9 repair).  [run vlt ops s0 = fold_left (step vlt) ops s0];
    histories interleave validator creation, staking status / power changes, keep-alives, requirement
    changes, external jail / unjail, valset.Jail from other modules and blocks, without any bound.
    [version]/[vlt] are abstract: [vlt a b] stands for [semver.Compare a b < 0]. *)
From Coq Require Import List ZArith Bool.
From Paloma Require Import Valset.KeepAlive Valset.KeepAliveProofs.
From Paloma Require Gen.C12.
Import ListNotations.
Open Scope Z_scope.

(** 1. Bounded-time jailing.  For every history from an empty chain (with whatever comma-joined
    blob an earlier binary left behind), at every liveness-check height (height > 50, multiple of
    10): a bonded / unbonding, unjailed validator [v] with no unexpired keep-alive, which was already
    unjailed when the previous end-block ran (so it did not just become unjailed) and whose stored
    grace start — if any — is more than 30 blocks old, is after this end-block either jailed or exempt
    by the network-protection rules evaluated on the resulting validator set (it is the last active
    validator, or 4·power > total bonded unjailed power).  For every address byte pattern. *)
Theorem inactive_jailed_at_next_check :
  forall (version : Type) (vlt : version -> version -> bool)
         (h0 t0 : Z) (legacy : option (list Z)) (m : version) (ops : list (op version)) (v : val) (dh dt : Z),
  let s := run vlt ops (init h0 t0 legacy m) in
  is_check_height (height s) = true ->
  In v (vals s) -> eligible_status (v_status v) = true -> v_jailed v = false ->
  is_alive s (v_addr v) = false ->
  snap_legacy s = None -> In (v_addr v) (prev_unjailed s) ->
  in_grace s (v_addr v) = false ->
  exists v', find_val (v_addr v) (vals (step vlt s (EndBlock dh dt))) = Some v' /\
             (v_jailed v' = true \/ protected (vals (step vlt s (EndBlock dh dt))) v').
Proof. exact inactive_jailed_at_next_check_proof. Qed.
Print Assumptions inactive_jailed_at_next_check.

(** 2. A validator with an unexpired keep-alive is left untouched by the end-block, in ANY state
    (hence after any history): never jailed for inactivity. *)
Theorem alive_never_jailed :
  forall (version : Type) (vlt : version -> version -> bool) (s : state version) (a : addr) (dh dt : Z),
  is_alive s a = true ->
  find_val a (vals (step vlt s (EndBlock dh dt))) = find_val a (vals s).
Proof. exact alive_never_jailed_proof. Qed.
Print Assumptions alive_never_jailed.

(** 2b. Neither is a validator whose grace period is running after the grace update, and nobody is
    jailed by an end-block that is not a check height. *)
Theorem grace_never_jailed :
  forall (version : Type) (s s1 : state version) (a : addr),
  update_grace s = Some s1 -> in_grace s1 a = true ->
  find_val a (vals (fst (end_block s))) = find_val a (vals s).
Proof. exact grace_never_jailed_proof. Qed.
Print Assumptions grace_never_jailed.

Theorem no_jailing_between_checks :
  forall (version : Type) (vlt : version -> version -> bool) (s : state version) (dh dt : Z),
  is_check_height (height s) = false -> vals (step vlt s (EndBlock dh dt)) = vals s.
Proof. exact no_jailing_between_checks_proof. Qed.
Print Assumptions no_jailing_between_checks.

(** 3. Grace periods are (re)started exactly for validators that are unjailed now and were not
    unjailed at the previous block's grace update; everybody else's entry is untouched — in every
    history once the legacy entry is gone (it is deleted by the first end-block). *)
Theorem grace_only_when_newly_unjailed :
  forall (version : Type) (vlt : version -> version -> bool)
         (h0 t0 : Z) (legacy : option (list Z)) (m : version) (ops : list (op version)) (s1 : state version) (a : addr),
  let s := run vlt ops (init h0 t0 legacy m) in
  snap_legacy s = None -> update_grace s = Some s1 ->
  (In a (prev_unjailed s) -> lookup a (grace s1) = lookup a (grace s)) /\
  (~ In a (unjailed_addrs (vals s)) -> lookup a (grace s1) = lookup a (grace s)) /\
  (In a (unjailed_addrs (vals s)) -> ~ In a (prev_unjailed s) -> lookup a (grace s1) = Some (height s)) /\
  prev_unjailed s1 = unjailed_addrs (vals s) /\ snap_legacy s1 = None.
Proof. exact grace_only_when_newly_unjailed_proof. Qed.
Print Assumptions grace_only_when_newly_unjailed.

(** 4. The flattened snapshot reads back as exactly the list that was written, for every address
    byte pattern (in particular 0x2c). *)
Theorem unjailed_codec_roundtrip : forall l : list addr, Forall wf_addr l ->
  exists bs, encode l = Some bs /\ decode bs = l.
Proof. exact codec_roundtrip. Qed.
Print Assumptions unjailed_codec_roundtrip.

(** 5. Keep-alives from relayers older than the minimum are refused without any effect; an
    accepted one makes the validator alive for exactly the TTL. *)
Theorem old_relayers_refused :
  forall (version : Type) (vlt : version -> version -> bool) (s : state version) (a : addr) (ver : version),
  vlt ver (minver s) = true -> keep_alive vlt s a ver = (s, false).
Proof. exact old_relayers_refused_proof. Qed.
Print Assumptions old_relayers_refused.

Theorem keep_alive_accepted :
  forall (version : Type) (vlt : version -> version -> bool) (s s' : state version) (a : addr) (ver : version),
  keep_alive vlt s a ver = (s', true) ->
  vlt ver (minver s) = false /\ (exists v, find_val a (vals s) = Some v) /\
  lookup a (alive s') = Some (height s + Gen.C12.keep_alive_ttl) /\ is_alive s' a = true /\ vals s' = vals s.
Proof. exact keep_alive_accepted_proof. Qed.
Print Assumptions keep_alive_accepted.

(** 6. The minimum version never decreases along any history (immediate and scheduled changes),
    for any comparison that is irreflexive and negatively transitive (a strict weak order, as
    semver.Compare's). *)
Theorem min_version_monotone :
  forall (version : Type) (vlt : version -> version -> bool),
  (forall a, vlt a a = false) ->
  (forall a b c, vlt a b = false -> vlt b c = false -> vlt a c = false) ->
  forall (ops : list (op version)) (s : state version), vlt (minver (run vlt ops s)) (minver s) = false.
Proof. exact min_version_monotone_proof. Qed.
Print Assumptions min_version_monotone.

(** 7. Sentences: a successful Jail (only possible for an unjailed, unprotected validator) records
    the sentence and jails until now + sentence; the sentence is the next table entry after the last
    one if the last jailing is more recent than max(30 min, d + d/20), else the first entry; the table
    is walked one entry at a time and capped at its last entry. *)
Theorem sentence_schedule_jail :
  forall (version : Type) (s s' : state version) (a : addr), jail s a = (s', true) ->
  let d := match lookup a (jlog s) with
           | Some (d0, t0) => if now s - t0 <? Z.max Gen.C12.reset_floor (d0 + Z.quot d0 Gen.C12.reset_div)
                              then next_sentence d0 else hd 0 Gen.C12.jail_sentences
           | None => hd 0 Gen.C12.jail_sentences
           end in
  lookup a (jlog s') = Some (d, now s) /\ lookup a (until s') = Some (now s + d) /\
  (exists v, find_val a (vals s') = Some v /\ v_jailed v = true) /\
  (exists v, find_val a (vals s) = Some v /\ v_jailed v = false /\ ~ protected (vals s) v).
Proof. exact jail_records_proof. Qed.
Print Assumptions sentence_schedule_jail.

Theorem sentence_schedule :
  (forall i, (i < length Gen.C12.jail_sentences)%nat ->
     next_sentence (nth i Gen.C12.jail_sentences 0)
     = nth (Nat.min (S i) (length Gen.C12.jail_sentences - 1)) Gen.C12.jail_sentences 0) /\
  (forall d, In (next_sentence d) Gen.C12.jail_sentences) /\
  (forall d, d < last Gen.C12.jail_sentences 0 -> d < next_sentence d) /\
  (forall d, next_sentence d <= last Gen.C12.jail_sentences 0) /\
  next_sentence 0 = hd 0 Gen.C12.jail_sentences.
Proof. exact sentence_table_proof. Qed.
Print Assumptions sentence_schedule.

(** The numbers the property was reviewed against (a change in the source shows up here). *)
Theorem constants_as_reviewed :
  Gen.C12.keep_alive_ttl = 2000 /\ Gen.C12.grace_period = 30 /\
  Gen.C12.check_period = 10 /\ Gen.C12.check_after = 50 /\
  (Gen.C12.share_num, Gen.C12.share_den) = (1, 4) /\
  Gen.C12.jail_sentences = [60000000000; 300000000000; 900000000000; 3600000000000; 86400000000000] /\
  (Gen.C12.reset_floor, Gen.C12.reset_div) = (1800000000000, 20).
Proof. exact (conj eq_refl (conj eq_refl (conj eq_refl (conj eq_refl (conj eq_refl (conj eq_refl eq_refl)))))). Qed.
Print Assumptions constants_as_reviewed.

(** Ties to the translated source (break when the source changes back):
    the writer is the separator-free encoder and the legacy reader is gated / deleted. *)
From Coq Require Import String.
Theorem snapshot_writer_is_separator_free :
  Gen.C12.snapshot_encoding = "length-prefixed"%string /\
  Gen.C12.legacy_reader_only_when_legacy_key_present = true /\
  Gen.C12.legacy_key_deleted_on_write = true.
Proof. exact (conj eq_refl (conj eq_refl eq_refl)). Qed.
Print Assumptions snapshot_writer_is_separator_free.

(** ------------------------------------------------------------------------------------------
    Second round (proofs in Valset/KeepAliveMore.v, Valset/JailShareFloat.v). *)
From Paloma Require Import Valset.KeepAliveMore.
From Paloma Require Valset.JailShareFloat.

(** 8. The comma-joined entry of earlier binaries.  In every history from an empty chain, whatever
    blob was left behind: once ONE end-block has run the entry is gone and stays gone … *)
Theorem legacy_gone_after_first_end_block :
  forall (version : Type) (vlt : version -> version -> bool)
         (h0 t0 : Z) (legacy : option (list Z)) (m : version) (ops1 : list (op version)) (dh dt : Z) (ops2 : list (op version)),
  snap_legacy (run vlt (ops1 ++ EndBlock dh dt :: ops2) (init h0 t0 legacy m)) = None.
Proof. exact legacy_gone_after_first_end_block_proof. Qed.
Print Assumptions legacy_gone_after_first_end_block.

(** … so theorem 1 holds without the hypothesis [snap_legacy s = None] for every history that contains
    an end-block (the first one is the only "legacy block"). *)
Theorem inactive_jailed_after_upgrade :
  forall (version : Type) (vlt : version -> version -> bool)
         (h0 t0 : Z) (legacy : option (list Z)) (m : version) (ops1 : list (op version)) (dh0 dt0 : Z)
         (ops2 : list (op version)) (v : val) (dh dt : Z),
  let s := run vlt (ops1 ++ EndBlock dh0 dt0 :: ops2) (init h0 t0 legacy m) in
  is_check_height (height s) = true ->
  In v (vals s) -> eligible_status (v_status v) = true -> v_jailed v = false ->
  is_alive s (v_addr v) = false ->
  In (v_addr v) (prev_unjailed s) ->
  in_grace s (v_addr v) = false ->
  exists v', find_val (v_addr v) (vals (step vlt s (EndBlock dh dt))) = Some v' /\
             (v_jailed v' = true \/ protected (vals (step vlt s (EndBlock dh dt))) v').
Proof. exact inactive_jailed_after_upgrade_proof. Qed.
Print Assumptions inactive_jailed_after_upgrade.

(** 9. The legacy block itself can only GRANT grace.  [prev] = the list the earlier binary wrote
    (raw addresses joined by 0x2c), all validator addresses of one length [L] (20 on a real chain).
    The grace update that still finds the entry: never denies a new grace period to a validator that
    is unjailed now and is not in [prev]; changes an entry only to the current height; is exact for
    members of [prev] without 0x2c; deletes the entry.  (A member of [prev] WITH 0x2c may get a
    spurious grace period, once.) *)
Theorem legacy_block_only_grants :
  forall (version : Type) (s s1 : state version) (prev : list addr) (L : nat) (a : addr),
  snap_legacy s = Some (legacy_join prev) ->
  Forall (fun x => List.length x = L) prev -> List.length a = L -> a <> [] ->
  update_grace s = Some s1 ->
  (In a (unjailed_addrs (vals s)) -> ~ In a prev -> lookup a (grace s1) = Some (height s)) /\
  (lookup a (grace s1) = lookup a (grace s) \/ lookup a (grace s1) = Some (height s)) /\
  (In a prev -> ~ In sep a -> lookup a (grace s1) = lookup a (grace s)) /\
  snap_legacy s1 = None /\ prev_unjailed s1 = unjailed_addrs (vals s).
Proof. exact legacy_block_only_grants_proof. Qed.
Print Assumptions legacy_block_only_grants.

(** … and its end-block never jails anybody wrongly: in every history that starts from an upgraded
    store, at the first end-block, a validator with an unexpired keep-alive, with a running grace
    period, or entitled to a new one (unjailed now, not in [prev]) is left untouched. *)
Theorem legacy_block_never_jails_wrongly :
  forall (version : Type) (vlt : version -> version -> bool)
         (h0 t0 : Z) (prev : list addr) (m : version) (pre : list (op version)) (L : nat) (a : addr) (dh dt : Z),
  Forall (fun o => is_end_block version o = false) pre ->
  Forall (fun x => List.length x = L) prev -> List.length a = L -> a <> [] ->
  let s := run vlt pre (init h0 t0 (Some (legacy_join prev)) m) in
  (is_alive s a = true \/ in_grace s a = true \/ (In a (unjailed_addrs (vals s)) /\ ~ In a prev)) ->
  find_val a (vals (step vlt s (EndBlock dh dt))) = find_val a (vals s) /\
  snap_legacy (step vlt s (EndBlock dh dt)) = None.
Proof. exact legacy_block_never_jails_wrongly_proof. Qed.
Print Assumptions legacy_block_never_jails_wrongly.

(** 10. A grace period that is running BEFORE the end-block (stored start at most 30 blocks old)
    protects through it, in any state: with [alive_never_jailed] this is "responsive or in grace:
    never jailed for inactivity", both on the pre-state. *)
Theorem running_grace_never_jailed :
  forall (version : Type) (vlt : version -> version -> bool) (s : state version) (a : addr) (dh dt : Z),
  in_grace s a = true ->
  find_val a (vals (step vlt s (EndBlock dh dt))) = find_val a (vals s).
Proof. exact running_grace_never_jailed_proof. Qed.
Print Assumptions running_grace_never_jailed.

(** 11. Repeated jailings lengthen the sentence along the fixed schedule — over every history
    (inactivity sweeps, valset.Jail from other modules before or after valset's end-blocker, external
    jail / unjail, anything).  A validator's jail record always holds a table entry and the matching
    jailed-until; the next successful Jail inside the reset window max(30 min, d + d/20) records exactly
    the NEXT table entry (strictly longer unless already at the last), otherwise the first entry. *)
Theorem repeated_jailing_walks_the_table :
  forall (version : Type) (vlt : version -> version -> bool)
         (h0 t0 : Z) (legacy : option (list Z)) (m : version) (ops : list (op version)) (a : addr) (d t : Z),
  let s := run vlt ops (init h0 t0 legacy m) in
  lookup a (jlog s) = Some (d, t) ->
  lookup a (until s) = Some (t + d) /\
  exists i, (i < List.length Gen.C12.jail_sentences)%nat /\ d = nth i Gen.C12.jail_sentences 0 /\
    forall s', jail s a = (s', true) ->
      let d' := if now s - t <? reset_threshold d
                then nth (Nat.min (S i) (List.length Gen.C12.jail_sentences - 1)) Gen.C12.jail_sentences 0
                else hd 0 Gen.C12.jail_sentences in
      lookup a (jlog s') = Some (d', now s) /\ lookup a (until s') = Some (now s + d') /\
      (now s - t < reset_threshold d -> d < last Gen.C12.jail_sentences 0 -> d < d').
Proof. exact repeated_jailing_walks_the_table_proof. Qed.
Print Assumptions repeated_jailing_walks_the_table.

(** 12. DESIGN §6.12 [jail_share_float_exact]: the code's IEEE-754 binary64 test
    [float64(cp)/float64(total) > 0.25] (Flocq: round-to-nearest-even conversions and division,
    x/0 = +Inf, 0/0 = NaN, comparisons with NaN false) is the model's exact integer test whenever both
    powers are below 2^53.  The margin is exactly tight ([JailShareFloat.jail_share_float_bound_needed]).
    Depends on the standard library's real-number axioms (named in props/C12.json). *)
Theorem jail_share_float_exact : forall cp total : Z,
  0 <= cp < 2^53 -> 0 <= total < 2^53 ->
  JailShareFloat.share_gt_quarter_f64 cp total = share_protected cp total.
Proof. exact jail_share_float_exact_proof. Qed.
Print Assumptions jail_share_float_exact.

(** 13. Observation (d), decided against the property text.  C12 obliges the chain to jail a silent
    validator "unless it became unjailed within the grace period"; it promises immunity only to a
    validator with an unexpired keep-alive (theorem 2, any state).  The grace period is an exemption
    from the obligation, not a promise — and the code does not give it after every unjailing: a
    validator jailed AFTER the grace update of block h (by the sweep of the same end-block, or by a
    module whose end-blocker runs after valset's) and unjailed before the grace update of block h+1 is
    still in the previous-block snapshot, gets no new grace period, and is jailed again at the next
    check — 9 blocks after its unjailing in the witness.  So "never jailed within 30 blocks of an
    unjailing" is refuted (witness replayed on the real keeper: harness/corpus/C12/d_*.json), while
    "never jailed with an unexpired keep-alive / a running grace period" are theorems. *)
Theorem grace_after_every_unjailing_refuted :
  exists (ops : list (op Z)) (a : addr) (h_unjail : Z),
    let s := run Z.ltb ops (init 1 0 None 7) in
    let s' := run Z.ltb (ops ++ [EndBlock 1 2000000000]) (init 1 0 None 7) in
    (* [a] was unjailed (by an Unjail event) at height h_unjail, at most 30 blocks ago, is unjailed now … *)
    In (Unjail a) ops /\ height s - h_unjail <= Gen.C12.grace_period /\
    (exists v, find_val a (vals s) = Some v /\ v_jailed v = false) /\
    (* … has no running grace period, and this end-block jails it for inactivity *)
    in_grace s a = false /\
    (exists v, find_val a (vals s') = Some v /\ v_jailed v = true).
Proof. exact ObservationD.grace_after_every_unjailing_refuted_proof. Qed.
Print Assumptions grace_after_every_unjailing_refuted.

(** 14. Ties to the translated source of Keeper.Jail / JailInactiveValidators for the sentence
    clauses: the jail record is read and written under the same (consensus) address, the reset window
    is tested with [<], the record holds the new sentence and the block time, jailed-until is block
    time + sentence, and a failing Jail does not stop the sweep. *)
Theorem jail_record_shape_as_modelled :
  Gen.C12.jail_log_read_key = Gen.C12.jail_log_write_key /\
  Gen.C12.reset_window_cmp = "<"%string /\
  Gen.C12.jail_record_written = ("sentence", "ctx.BlockTime()")%string /\
  Gen.C12.jailed_until_is_block_time_plus_sentence = true /\
  Gen.C12.sweep_collects_jail_errors = true.
Proof. exact (conj eq_refl (conj eq_refl (conj eq_refl (conj eq_refl eq_refl)))). Qed.
Print Assumptions jail_record_shape_as_modelled.


(** 15. "In bounded time": above height 50 the next liveness-check height is less than 10 blocks away. *)
Theorem check_height_within_period : forall h : Z, Gen.C12.check_after < h ->
  exists k, 0 <= k < Gen.C12.check_period /\ is_check_height (h + k) = true.
Proof. exact check_height_within_period_proof. Qed.
Print Assumptions check_height_within_period.


(** 16. Bounded-time jailing over blocks.  In every history that contains an end-block, above height
    50: a validator that is due (bonded / unbonding, unjailed, keep-alive expired or never sent, already
    unjailed at the previous block, last grace period over) is — if nothing but blocks follows,
    whatever the block times — jailed or exempt by the network-protection rules at the liveness check
    that comes within the next 10 blocks. *)
Theorem silent_validator_settled_within_period :
  forall (version : Type) (vlt : version -> version -> bool)
         (h0 t0 : Z) (legacy : option (list Z)) (m : version) (ops1 : list (op version)) (dh0 dt0 : Z)
         (ops2 : list (op version)) (v : val) (dts : list Z),
  let s := run vlt (ops1 ++ EndBlock dh0 dt0 :: ops2) (init h0 t0 legacy m) in
  Gen.C12.check_after < height s ->
  In v (vals s) -> eligible_status (v_status v) = true -> v_jailed v = false ->
  (forall u, lookup (v_addr v) (alive s) = Some u -> u <= height s) ->
  In (v_addr v) (prev_unjailed s) ->
  (forall g, lookup (v_addr v) (grace s) = Some g -> Gen.C12.grace_period < height s - g) ->
  Z.of_nat (List.length dts) = Gen.C12.check_period ->
  exists k, (k < List.length dts)%nat /\
    let sk := run vlt (map (EndBlock 1) (firstn k dts)) s in
    is_check_height (height sk) = true /\
    exists v', find_val (v_addr v) (vals (step vlt sk (EndBlock 1 (nth k dts 0)))) = Some v' /\
               (v_jailed v' = true \/ protected (vals (step vlt sk (EndBlock 1 (nth k dts 0)))) v').
Proof. exact silent_validator_settled_within_period_proof. Qed.
Print Assumptions silent_validator_settled_within_period.


(* --- source translation tie (GenFn) --- *)
(* The Go function bodies named below are re-translated from the source on every check
   (harness/cmd/extract/gotrans*.go -> GenFn/*.v, semantics of the Go subset: Trans/GoSem.v).
   Each theorem states that the hand-written model function equals the translated body for all
   inputs (hypotheses are Go type ranges / the 256-bit range of math.Int only); the proofs are in
   Trans/C12Fn.v.  A readable change of the Go body breaks the proof, an unreadable one breaks the
   translator.  See design/GoTrans.md. *)
From Paloma Require Trans.GoSem Trans.GoSemFacts Trans.C12Fn.

Theorem next_sentence_model_is_translation_of_source :
  forall d : Z,
  GenFn.DeriveJailSentence.deriveJailSentence d = GoSem.Val (KeepAlive.next_sentence d).
Proof. exact Trans.C12Fn.next_sentence_eq. Qed.
Print Assumptions next_sentence_model_is_translation_of_source.

Theorem reset_threshold_model_is_translation_of_source :
  forall d : Z, GoSem.in_i64 (d + Z.quot d 20) ->
  GenFn.JailSentenceResetThreshold.calculateJailSentenceResetThreshold d = KeepAlive.reset_threshold d.
Proof. exact Trans.C12Fn.reset_threshold_eq. Qed.
Print Assumptions reset_threshold_model_is_translation_of_source.
