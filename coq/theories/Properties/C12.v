(** C12 — unresponsive validators are jailed in bounded time; responsive ones never.
    Only statements closed by [exact]; proofs live in Valset/KeepAliveProofs.v. *)
From Coq Require Import List ZArith Bool.
From Paloma Require Import Valset.KeepAlive Valset.KeepAliveProofs.
From Paloma Require Gen.C12.
Import ListNotations.
Open Scope Z_scope.

(** The flattened snapshot of last block's unjailed validators reads back as exactly the list
    that was written, for every address byte pattern (in particular 0x2c). *)
Theorem unjailed_codec_roundtrip : forall l : list addr, Forall wf_addr l ->
  exists bs, encode l = Some bs /\ decode bs = l.
Proof. exact codec_roundtrip. Qed.
Print Assumptions unjailed_codec_roundtrip.
