(** C08 — state transitions are a deterministic function of chain history.  PARTIAL.

    Full statement (properties.jsonl): executing the same blocks from the same genesis yields
    byte-identical state, events and results on every node, independent of map iteration order,
    process environment, wall-clock time, in-memory caches surviving from earlier blocks or queries,
    and node restarts.

    What is proved here (all statements closed by [exact]; proofs in Sys/AmbientProofs.v):
    every ambient input that the site inventory Gen/C08.v (regenerated from the source on every
    check) finds in the state-machine code of x/, util/, app/ is an explicit argument [a : Ambient]
    of the model (environment, wall clock, GOMAXPROCS, the iteration order of every modelled map
    loop as an arbitrary permutation), and the modelled handlers provably return the same state and
    the same result for every two ambients — per step and over every history, where every step
    may run under a different ambient.  [nondet_sites_closed] says that every site of the inventory
    is classified: covered by one of the theorems below, by a syntactic rule, or by a reviewed
    benign-reason in /verif/tables/c08_sites.json.

    What is NOT proved (hence *_partial / partial: true): a Gallina model cannot exhibit the
    runtime itself — the Go runtime's real map-seed randomisation, goroutine scheduling, a real
    process environment, a stale in-memory object surviving between ABCI calls, a restarted
    process, and every handler outside the modelled ones (they contain no inventory site, which is
    a statement about syntax, not about their semantics).  Those are exercised by twin executions
    of the real code (harness/c08), which is testing.

    Reading aid.  [amb_ok a]: every [ord_*] field returns a permutation of its argument.
    [tx_wf]: the keys of a Go map are distinct; the evidence step needs C04's snapshot sanity. *)
From Coq Require Import List ZArith Bool String Permutation.
From Paloma Require Import Base.Num Evm.Assign Cons.Quorum Sys.Ambient Sys.AmbientProofs.
From Paloma Require Gen.C08.
Import ListNotations.
Open Scope Z_scope.

(** One step: state written and result returned do not depend on the ambient. *)
Theorem ambient_noninterference_partial :
  forall (a a' : Ambient) (s : State) (tx : Tx),
  amb_ok a -> amb_ok a' -> tx_wf tx -> step_amb a s tx = step_amb a' s tx.
Proof. exact step_noninterference. Qed.
Print Assumptions ambient_noninterference_partial.

(** Any history, every step under its own pair of ambients (different nodes, restarts, queries in
    between): same final state, same list of results. *)
Theorem history_noninterference_partial :
  forall (h h' : list (Ambient * Tx)),
  Forall2 (fun x y => snd x = snd y /\ amb_ok (fst x) /\ amb_ok (fst y) /\ tx_wf (snd x)) h h' ->
  forall s, run_amb h s = run_amb h' s.
Proof. exact run_noninterference. Qed.
Print Assumptions history_noninterference_partial.

(** AddStatusUpdate: same outcome whatever the environment, and never a panic (F5 repaired).  The
    model has the shape of the current source: both validations before the environment read. *)
Theorem status_update_env_independent :
  (forall a a' m, add_status_update a m = add_status_update a' m) /\
  (forall a m, add_status_update a m <> StPanic) /\
  Gen.C08.status_update_shape = "VVEGL"%string /\
  In "x/paloma/keeper:PALOMA_FF_PIGEON_STATUS_UPDATE"%string Gen.C08.env_names_read.
Proof.
  exact (conj status_update_ignores_ambient (conj status_update_never_panics status_update_source_shape)).
Qed.
Print Assumptions status_update_env_independent.

(** rankValidators: the ranking is a function of the SET of validator infos. *)
Theorem rank_perm_invariant :
  forall (infos infos' : list vinfo) (w : weights), Permutation infos infos' -> rank infos w = rank infos' w.
Proof. exact rank_perm_invariant_lemma. Qed.
Print Assumptions rank_perm_invariant.

(** ... also when the two loops over the map run in two different orders. *)
Theorem rank_two_loops_perm_invariant :
  forall (a : Ambient) (infos : list vinfo) (w : weights), amb_ok a -> rank_amb a infos w = rank infos w.
Proof. exact rank_amb_eq. Qed.
Print Assumptions rank_two_loops_perm_invariant.

(** PickValidatorForMessage: independent of the iteration order for every content of the
    assigner's cache; with the cache as constructed (height -1) it is C14's cache-free pick; and
    no step ever changes the keeper's cache (value receiver), over any history. *)
Theorem pick_perm_invariant :
  (forall a a' c h sn ms fs w chain req ts, amb_ok a -> amb_ok a' ->
     pick_body a c h sn ms fs w chain req ts = pick_body a' c h sn ms fs w chain req ts) /\
  (forall a h sn ms fs w chain req ts, amb_ok a -> h <> -1 ->
     fst (pick_body a cache0 h sn ms fs w chain req ts) = pick sn ms fs w chain req ts).
Proof. exact (conj pick_body_ignores_ambient pick_with_fresh_cache). Qed.
Print Assumptions pick_perm_invariant.

Theorem cache_never_outlives_call :
  forall (h : list (Ambient * Tx)) (s : State), st_cache (fst (run_amb h s)) = st_cache s.
Proof. exact run_preserves_cache. Qed.
Print Assumptions cache_never_outlives_call.

(** VerifyEvidence: C04's winner_unique, for the iteration order taken from the ambient. *)
Theorem verify_evidence_perm_invariant :
  forall (gk : Z -> Z -> Z) (a a' : Ambient) (sn : Quorum.snapshot) (evs : list evidence),
  amb_ok a -> amb_ok a' ->
  0 < sn_total sn /\ sn_total sn = zsum (map snd (sn_vals sn)) /\ Forall (fun p => 0 <= snd p) (sn_vals sn) ->
  NoDup (map ev_val evs) ->
  verify_evidence Z.eqb gk (ord_groups a) sn evs = verify_evidence Z.eqb gk (ord_groups a') sn evs.
Proof. exact verify_evidence_amb_indep. Qed.
Print Assumptions verify_evidence_perm_invariant.

(** PurgeRelayMetrics: one write per distinct key gives the same ordered store in any order. *)
Theorem purge_perm_invariant :
  forall (ups ups' : list (Z * Z)), Permutation ups ups' -> NoDup (map fst ups) ->
  forall s, apply_updates ups s = apply_updates ups' s.
Proof. exact apply_updates_perm. Qed.
Print Assumptions purge_perm_invariant.

(** Exists / for-all tests over a map (isNewSnapshotWorthy, CheckBatches). *)
Theorem any_order_bool_perm_invariant :
  forall (A : Type) (f : A -> bool) (l l' : list A), Permutation l l' ->
  existsb f l = existsb f l' /\ forallb f l = forallb f l'.
Proof. exact (fun A f l l' P => conj (existsb_perm f l l' P) (forallb_perm f l l' P)). Qed.
Print Assumptions any_order_bool_perm_invariant.

(** Keys collected (possibly filtered) then sorted by a total order before use
    (JailValidatorsWithMissingExternalChainInfos, FromMapKeys, eventbus.Publish,
    GetAttestationMapping, RelayerFees, CheckBatches): generic, and the integer instance. *)
Theorem sorted_collect_perm_invariant :
  (forall (A : Type) (cmp : A -> A -> bool) (le : A -> A -> Prop),
     (forall x y, cmp x y = true -> le x y) -> (forall x y, cmp x y = false -> le y x) ->
     (forall x y z, le x y -> le y z -> le x z) -> (forall x y, le x y -> le y x -> x = y) ->
     forall l l', Permutation l l' -> gsort cmp l = gsort cmp l') /\
  (forall (f : Z -> bool) (l l' : list Z), Permutation l l' -> zsort (filter f l) = zsort (filter f l')).
Proof.
  exact (conj (@gsort_perm_invariant) (fun f l l' P => zsort_perm_invariant _ _ (filter_perm f l l' P))).
Qed.
Print Assumptions sorted_collect_perm_invariant.

(** Building a set from the keys of a map (ModuleAccountAddrs, BlockedAddresses). *)
Theorem set_build_perm_invariant :
  forall (a : Ambient) (keys : list Z) (x : Z), amb_ok a -> set_member_amb a keys x = mem x keys.
Proof. exact set_member_amb_eq. Qed.
Print Assumptions set_build_perm_invariant.

(** Every site of the inventory generated from the current source is classified. *)
Theorem nondet_sites_closed : forallb classified Gen.C08.sites = true.
Proof. exact nondet_sites_closed_lemma. Qed.
Print Assumptions nondet_sites_closed.
