(** C08 — state transitions are a deterministic function of chain history.  PARTIAL.

    Full statement (properties.jsonl): executing the same blocks from the same genesis yields
    byte-identical state, events and results on every node, independent of map iteration order,
    process environment, wall-clock time, in-memory caches surviving from earlier blocks or queries,
    and node restarts.

    What is proved here (all statements closed by [exact]; proofs in Sys/AmbientProofs.v):
    every ambient input that the site inventory Gen/C08.v (regenerated from the source on every
    check) finds in the state-machine code of x/, util/, app/ is an explicit argument [a : Ambient]
    of the model (environment, wall clock, GOMAXPROCS, the iteration order of every modelled map
    loop as an arbitrary permutation), and the modelled handlers provably return the same state and
    the same result for every two ambients — per step and over every history, where every step
    may run under a different ambient.  [nondet_sites_closed] says that every site of the inventory
    is classified: covered by one of the theorems below, by a syntactic rule, or by a reviewed
    benign-reason in /verif/tables/c08_sites.json.

    Round 2 adds node-local ACTIVITY to the model: executions on discarded state branches
    (CheckTx, simulation, failed transactions) and restarts are operations ([nop]); process memory
    is not branchable; [node_local_activity_invisible_partial] / [two_nodes_same_history_partial]
    show that over every such life of a node the state and the results are those of the chain
    history alone; [pointer_cache_refuted] shows that the inventory's "no store-derived data kept
    in process memory" is needed; [jail_loop_order_is_state] that the prune job's jailing loop is
    order-sensitive and iterates state, not a map.

    What is NOT proved (hence *_partial / partial: true): a Gallina model cannot exhibit the
    runtime itself — the Go runtime's real map-seed randomisation, goroutine scheduling, a real
    process environment, the real cache-context / IAVL implementation, a really restarted OS
    process, and every handler outside the modelled ones (they contain no inventory site, which is
    a statement about syntax, not about their semantics).  Those are exercised by twin executions
    of the real code (harness/c08: keeper-level operations and full-application block histories
    with simulated-only transactions, never-finalised blocks and restarts), which is testing.

    Reading aid.  [amb_ok a]: every [ord_*] field returns a permutation of its argument.
    [tx_wf]: the keys of a Go map are distinct; the evidence step needs C04's snapshot sanity. *)
From Coq Require Import List ZArith Bool String Permutation.
From Paloma Require Import Base.Num Evm.Assign Cons.Quorum Sys.Calendar Sys.Ambient Sys.AmbientProofs Sys.NodeLocal Sys.NodeLocalProofs Sys.CalendarProofs.
From Paloma Require Gen.C08.
Import ListNotations.
Open Scope Z_scope.

(** One step: state written and result returned do not depend on the ambient. *)
Theorem ambient_noninterference_partial :
  forall (a a' : Ambient) (s : State) (tx : Tx),
  amb_ok a -> amb_ok a' -> tx_wf tx -> step_amb a s tx = step_amb a' s tx.
Proof. exact step_noninterference. Qed.
Print Assumptions ambient_noninterference_partial.

(** Any history, every step under its own pair of ambients (different nodes, restarts, queries in
    between): same final state, same list of results. *)
Theorem history_noninterference_partial :
  forall (h h' : list (Ambient * Tx)),
  Forall2 (fun x y => snd x = snd y /\ amb_ok (fst x) /\ amb_ok (fst y) /\ tx_wf (snd x)) h h' ->
  forall s, run_amb h s = run_amb h' s.
Proof. exact run_noninterference. Qed.
Print Assumptions history_noninterference_partial.

(** AddStatusUpdate: same outcome whatever the environment, and never a panic (F5 repaired).  The
    model has the shape of the current source: both validations before the environment read. *)
Theorem status_update_env_independent :
  (forall a a' m, add_status_update a m = add_status_update a' m) /\
  (forall a m, add_status_update a m <> StPanic) /\
  Gen.C08.status_update_shape = "VVEGL"%string /\
  In "x/paloma/keeper:PALOMA_FF_PIGEON_STATUS_UPDATE"%string Gen.C08.env_names_read.
Proof.
  exact (conj status_update_ignores_ambient (conj status_update_never_panics status_update_source_shape)).
Qed.
Print Assumptions status_update_env_independent.

(** rankValidators: the ranking is a function of the SET of validator infos. *)
Theorem rank_perm_invariant :
  forall (infos infos' : list vinfo) (w : weights), Permutation infos infos' -> rank infos w = rank infos' w.
Proof. exact rank_perm_invariant_lemma. Qed.
Print Assumptions rank_perm_invariant.

(** ... also when the two loops over the map run in two different orders. *)
Theorem rank_two_loops_perm_invariant :
  forall (a : Ambient) (infos : list vinfo) (w : weights), amb_ok a -> rank_amb a infos w = rank infos w.
Proof. exact rank_amb_eq. Qed.
Print Assumptions rank_two_loops_perm_invariant.

(** PickValidatorForMessage: independent of the iteration order for every content of the
    assigner's cache; with the cache as constructed (height -1) it is C14's cache-free pick; and
    no step ever changes the keeper's cache (value receiver), over any history. *)
Theorem pick_perm_invariant :
  (forall a a' c h sn ms fs w chain req ts, amb_ok a -> amb_ok a' ->
     pick_body a c h sn ms fs w chain req ts = pick_body a' c h sn ms fs w chain req ts) /\
  (forall a h sn ms fs w chain req ts, amb_ok a -> h <> -1 ->
     fst (pick_body a cache0 h sn ms fs w chain req ts) = pick sn ms fs w chain req ts).
Proof. exact (conj pick_body_ignores_ambient pick_with_fresh_cache). Qed.
Print Assumptions pick_perm_invariant.

Theorem cache_never_outlives_call :
  forall (h : list (Ambient * Tx)) (s : State), st_cache (fst (run_amb h s)) = st_cache s.
Proof. exact run_preserves_cache. Qed.
Print Assumptions cache_never_outlives_call.

(** VerifyEvidence: C04's winner_unique, for the iteration order taken from the ambient. *)
Theorem verify_evidence_perm_invariant :
  forall (gk : Z -> Z -> Z) (a a' : Ambient) (sn : Quorum.snapshot) (evs : list evidence),
  amb_ok a -> amb_ok a' ->
  0 < sn_total sn /\ sn_total sn = zsum (map snd (sn_vals sn)) /\ Forall (fun p => 0 <= snd p) (sn_vals sn) ->
  NoDup (map ev_val evs) ->
  verify_evidence Z.eqb gk (ord_groups a) sn evs = verify_evidence Z.eqb gk (ord_groups a') sn evs.
Proof. exact verify_evidence_amb_indep. Qed.
Print Assumptions verify_evidence_perm_invariant.

(** PurgeRelayMetrics: one write per distinct key gives the same ordered store in any order. *)
Theorem purge_perm_invariant :
  forall (ups ups' : list (Z * Z)), Permutation ups ups' -> NoDup (map fst ups) ->
  forall s, apply_updates ups s = apply_updates ups' s.
Proof. exact apply_updates_perm. Qed.
Print Assumptions purge_perm_invariant.

(** Exists / for-all tests over a map (isNewSnapshotWorthy, CheckBatches). *)
Theorem any_order_bool_perm_invariant :
  forall (A : Type) (f : A -> bool) (l l' : list A), Permutation l l' ->
  existsb f l = existsb f l' /\ forallb f l = forallb f l'.
Proof. exact (fun A f l l' P => conj (existsb_perm f l l' P) (forallb_perm f l l' P)). Qed.
Print Assumptions any_order_bool_perm_invariant.

(** Keys collected (possibly filtered) then sorted by a total order before use
    (JailValidatorsWithMissingExternalChainInfos, FromMapKeys, eventbus.Publish,
    GetAttestationMapping, RelayerFees, CheckBatches): generic, and the integer instance. *)
Theorem sorted_collect_perm_invariant :
  (forall (A : Type) (cmp : A -> A -> bool) (le : A -> A -> Prop),
     (forall x y, cmp x y = true -> le x y) -> (forall x y, cmp x y = false -> le y x) ->
     (forall x y z, le x y -> le y z -> le x z) -> (forall x y, le x y -> le y x -> x = y) ->
     forall l l', Permutation l l' -> gsort cmp l = gsort cmp l') /\
  (forall (f : Z -> bool) (l l' : list Z), Permutation l l' -> zsort (filter f l) = zsort (filter f l')).
Proof.
  exact (conj (@gsort_perm_invariant) (fun f l l' P => zsort_perm_invariant _ _ (filter_perm f l l' P))).
Qed.
Print Assumptions sorted_collect_perm_invariant.

(** Building a set from the keys of a map (ModuleAccountAddrs, BlockedAddresses). *)
Theorem set_build_perm_invariant :
  forall (a : Ambient) (keys : list Z) (x : Z), amb_ok a -> set_member_amb a keys x = mem x keys.
Proof. exact set_member_amb_eq. Qed.
Print Assumptions set_build_perm_invariant.

(** Every site of the inventory generated from the current source is classified. *)
Theorem nondet_sites_closed : forallb classified Gen.C08.sites = true.
Proof. exact nondet_sites_closed_lemma. Qed.
Print Assumptions nondet_sites_closed.

(** Round 2.  Node-local activity is invisible: a node's life is its chain history interleaved with
    any number of executions on DISCARDED branches of the state (CheckTx, simulate queries, failed
    transactions — under any ambient) and RESTARTS.  The store is branchable, process memory is not
    ([nstep]: a simulated step keeps whatever it left in [st_cache]; a restart resets it).  From the
    state a node is constructed with, its final state and the results of its delivered transactions are
    those of the chain history alone ... *)
Theorem node_local_activity_invisible_partial :
  forall (h : list nop) (s : State), st_cache s = cache0 -> nrun h s = run_amb (delivered h) s.
Proof. exact nrun_is_delivered. Qed.
Print Assumptions node_local_activity_invisible_partial.

(** ... hence two nodes with the same chain history agree, whatever else each of them executed,
    simulated or restarted, under whatever ambients. *)
Theorem two_nodes_same_history_partial :
  forall (h h' : list nop) (s : State), st_cache s = cache0 ->
  Forall2 (fun x y => snd x = snd y /\ amb_ok (fst x) /\ amb_ok (fst y) /\ tx_wf (snd x)) (delivered h) (delivered h') ->
  nrun h s = nrun h' s.
Proof. exact two_nodes_agree. Qed.
Print Assumptions two_nodes_same_history_partial.

(** The hypothesis "no handler leaves store-derived data in process memory" (the RecvFieldWrite /
    GlobalWrite part of the inventory) is needed: with a write-through cache of store records behind
    a pointer, a write on a discarded branch is read back (one node), and of two nodes with the same
    chain history and the same store the one restarted in between answers differently.  (Replayed on
    the real keepers by harness/c08 corpus history 1: identical answers on the current tree.) *)
Theorem pointer_cache_refuted :
  (exists h n, c_mem n = [] /\ snd (cnrun h n) <> snd (cnrun (cdelivered h) n)) /\
  (exists h h' n, c_mem n = [] /\ cdelivered h = cdelivered h' /\ fst (cnrun h n) <> fst (cnrun h' n) /\
                  c_store (fst (cnrun h n)) = c_store (fst (cnrun h' n)) /\ snd (cnrun h n) <> snd (cnrun h' n)).
Proof. exact (conj write_through_cache_refuted write_through_cache_restart_refuted). Qed.
Print Assumptions pointer_cache_refuted.

(** The jailing loop of the consensus prune job (jailValidatorsWhichMissedAttestation calling
    valset.Jail with its 25 %-of-active-stake protection) is ORDER-SENSITIVE: permuting the validators
    without evidence changes who ends up jailed, so a map range there (order from the ambient) would
    make two nodes disagree.  The source ranges over the snapshot's validator slice — state, not
    ambient — and calls Jail inside that loop (regenerated from the source on every check). *)
Theorem jail_loop_order_is_state :
  Gen.C08.jail_missing_loop = "slice:snapshot.Validators"%string /\
  (exists st o o', Permutation o o' /\ jailed_ids (jail_round st o) <> jailed_ids (jail_round st o')) /\
  (exists a a' st o, amb_ok a /\ amb_ok a' /\
     jailed_ids (jail_round st (ord_keys a o)) <> jailed_ids (jail_round st (ord_keys a' o))).
Proof. exact (conj jail_loop_source_shape (conj jail_order_sensitive jail_map_order_refuted)). Qed.
Print Assumptions jail_loop_order_is_state.

(** Whatever the order: a Jail that changes the state hit an unjailed validator that is not the last
    active one and holds at most 25 % of the active stake. *)
Theorem jail_protection_holds :
  forall (st : list jv) (id : Z), jail_one st id <> st ->
  exists v, find_val id st = Some v /\ jv_jailed v = false /\ active_count st <> 1 /\ 4 * jv_power v <= active_total st.
Proof. exact jail_protection. Qed.
Print Assumptions jail_protection_holds.

(** Round 3.  Calendar arithmetic on the block time.  MsgRegisterLightNodeClient writes a vesting
    account that ends [VestingMonths] CALENDAR months after the block time.  Calendar arithmetic is done
    in the zone the time value carries; the block time carries UTC on every node, and the source computes
    the period from it directly (shape regenerated on every check) — so the step takes nothing from the
    ambient.  In a fixed-offset zone the computation is the UTC one on the shifted instant (so the zone
    matters exactly when adding months does not commute with the shift).  Re-made with time.Unix
    (process-local zone) the zone would be an input: month-end and
    daylight-saving witnesses ([Sys/CalendarProofs.v]; replayed on the real msg server by the corpus of
    harness/c08 in twins running in UTC, Asia/Tokyo and America/New_York). *)
Theorem vesting_calendar_in_utc :
  Gen.C08.vesting_period_shape =
    ["beginTime := sdkCtx.BlockTime()"; "endTime := beginTime.AddDate(0, int(license.VestingMonths), 0)";
     "end: endTime.Unix()"; "start: beginTime.Unix()"]%string /\
  (forall a a' s t months, step_amb a s (TxVest t months) = step_amb a' s (TxVest t months)) /\
  (forall a t months, tz a = Calendar.utc -> vest_end_local a t months = Calendar.vest_end t months) /\
  (forall o t months, Calendar.add_months (Calendar.fixed_zone o) t months = Calendar.add_months Calendar.utc (t + o) months - o) /\
  (exists a a' t months, amb_ok a /\ amb_ok a' /\ vest_end_local a t months <> vest_end_local a' t months).
Proof.
  exact (conj vesting_period_source_shape (conj vest_step_ignores_ambient (conj vest_end_local_utc (conj fixed_zone_is_shift local_zone_calendar_refuted_lemma)))).
Qed.
Print Assumptions vesting_calendar_in_utc.

(** [rank_perm_invariant] rests on the comparator being a strict TOTAL order — irreflexive, transitive,
    and any two different (address, score) pairs are ordered — which is the shape the source has
    (regenerated on every check; a tolerance / absolute value / threshold is an unknown shape).  It is
    needed: "scores closer than eps are equal, then the address decides" is not transitive, a chain of
    near-ties is a cycle, and the sorted result depends on the order in which the map hands out the entries. *)
Theorem rank_needs_total_order :
  Gen.C08.rank_comparator =
    ["slices.SortStableFunc(ranked)"; "if a.score.GT(b.score) return -1"; "if a.score.LT(b.score) return 1";
     "return strings.Compare(a.address, b.address)"]%string /\
  ((forall x, before x x = false) /\
   (forall x y z, before x y = true -> before y z = true -> before x z = true) /\
   (forall x y, x = y \/ before x y = true \/ before y x = true)) /\
  (forall x y, before_tol 1 x y = before x y) /\
  (exists eps l l', Permutation l l' /\ sort_tol eps l <> sort_tol eps l').
Proof.
  exact (conj rank_comparator_source_shape (conj rank_comparator_law (conj before_tol_1 tolerance_comparator_refuted_lemma))).
Qed.
Print Assumptions rank_needs_total_order.

(** Round 7.  [verify_evidence_perm_invariant] assumes one piece of evidence per validator.  That premise is
    established by OTHER code — QueuedSignedMessage.AddEvidence replaces a validator's earlier evidence — and holds
    as long as the replacement goes by the validator address alone: the rule is read from the source on every check
    (any further condition is an unknown shape, and then the VerifyEvidence loop is no longer classified:
    [Ambient.premise_ok]); over every sequence of submissions the stored evidence has one entry per validator and
    the tally is independent of the map order; with "replace only evidence of the same proof type" two groups can
    both hold 2/3 and the winner follows the order (witness replayed on the real keepers by harness/c08). *)
Theorem evidence_tally_premise :
  Gen.C08.evidence_replace_rule = evidence_rule_expected /\
  (forall subs, NoDup (map ev_val (fold_left add_evidence subs []))) /\
  (forall (gk : Z -> Z -> Z) a a' sn subs, amb_ok a -> amb_ok a' ->
     (0 < sn_total sn /\ sn_total sn = zsum (map snd (sn_vals sn)) /\ Forall (fun p => 0 <= snd p) (sn_vals sn)) ->
     verify_evidence Z.eqb gk (ord_groups a) sn (fold_left add_evidence subs []) =
     verify_evidence Z.eqb gk (ord_groups a') sn (fold_left add_evidence subs [])) /\
  (exists sn subs, verify_evidence Z.eqb pair_key (fun l => l) sn (fold_left add_evidence_by_type subs []) <>
                   verify_evidence Z.eqb pair_key (@rev _) sn (fold_left add_evidence_by_type subs [])).
Proof.
  refine (conj evidence_replace_rule_source_shape (conj evidence_one_per_validator_lemma (conj tally_after_submissions_amb_indep _))).
  eexists _, _. exact (proj2 evidence_premise_needed).
Qed.
Print Assumptions evidence_tally_premise.
