(** C14 — messages are assigned to, and only relayable by, an eligible relayer; fees are ceilings.
    Only statements closed by [exact]; models in Evm/Assign.v, Cons/Relay.v, Cons/Fees.v, Base/Dec.v,
    proofs in the *Proofs.v files next to them.  Constants and code shapes come from Gen/C14.v. *)
From Coq Require Import String List ZArith Bool.
From Paloma Require Import Base.Dec Base.DecProofs Evm.Assign Evm.AssignProofs
     Cons.Fees Cons.FeesProofs Cons.Relay Cons.RelayProofs.
From Paloma Require Import Evm.AssignOv Evm.AssignOvProofs Cons.RelayCapProofs Cons.RelaySys Cons.RelaySysProofs.
Import ListNotations.
Open Scope Z_scope.

(** 1. The assignee is in the current snapshot, the signed remote address is its account on the
    target chain, it has a relayer fee and metrics on record, and carries the MEV trait when the
    job demands it — for every snapshot with one entry per validator, all tables, weights,
    requirement flags and block times, whatever the ranking arithmetic yields. *)
Theorem assignee_eligible :
  forall sn ms fs w chain req ts v remote,
  NoDup (map v_addr sn) ->
  pick sn ms fs w chain req ts = Picked v remote ->
  exists e, In e sn /\ v_addr e = v /\
            account e chain = Some remote /\
            has_fee fs v /\ has_metrics ms v /\
            (mev_required req = true -> carries_trait e chain trait_mev).
Proof. exact assignee_eligible_nodup. Qed.
Print Assumptions assignee_eligible.

(** 1b. The same without any assumption on the snapshot (entries repeating an address included):
    the remote address and the trait may then come from two entries of that same address. *)
Theorem assignee_eligible_any_snapshot :
  forall sn ms fs w chain req ts v remote,
  pick sn ms fs w chain req ts = Picked v remote ->
  has_metrics ms v /\ has_fee fs v /\
  (exists e, In e sn /\ v_addr e = v /\ account e chain = Some remote) /\
  (exists e', In e' sn /\ v_addr e' = v /\ account e' chain <> None /\
              (mev_required req = true -> carries_trait e' chain trait_mev)).
Proof. exact AssignProofs.assignee_eligible_any_snapshot. Qed.
Print Assumptions assignee_eligible_any_snapshot.

(** 2. If no validator is eligible the request fails and the queue is exactly what it was. *)
Theorem no_eligible_no_enqueue :
  forall sn ms fs w chain req ts payload s,
  (forall v, ~ eligible sn ms fs chain req v) ->
  fst (enqueue_request sn ms fs w chain req ts payload s) = s /\
  enq_failed (snd (enqueue_request sn ms fs w chain req ts payload s)).
Proof. exact no_eligible_no_enqueue_lemma. Qed.
Print Assumptions no_eligible_no_enqueue.

(** 2b. Conversely, with somebody eligible (and a non-negative block time) a relayer is assigned,
    and it is an eligible one: the request fails only when nobody is eligible. *)
Theorem eligible_gets_assignment :
  forall sn ms fs w chain req ts v,
  NoDup (map v_addr sn) -> 0 <= ts -> eligible sn ms fs chain req v ->
  exists v' r, pick sn ms fs w chain req ts = Picked v' r /\ eligible sn ms fs chain req v'.
Proof. exact eligible_gets_assignment_lemma. Qed.
Print Assumptions eligible_gets_assignment.

(** 3. Soundness of the relay offer, in every queue any history of puts, estimates, elections,
    reports and removals can produce: an EVM message is offered only to its assignee, only with an
    elected estimate when one is required, only unreported, never ahead of an older valset update
    still in the queue, never while an older unreported message of the same sender is queued. *)
Theorem relay_offer_sound :
  forall c ops v m a,
  let q := queue (run c ops) in
  In m (for_relaying q v) -> mkind m = KEvm a ->
  In m q /\
  massignee m = v /\
  (mreq m = true -> 0 < mest m) /\
  mpad m = false /\ merr m = false /\
  (forall u, In u q -> is_valset_update u = true -> mid m <= mid u) /\
  (forall s m' a', sender_of a = Some s -> In m' q -> mkind m' = KEvm a' -> sender_of a' = Some s ->
                   mid m' < mid m -> unprocessed m' = true -> False).
Proof. exact relay_offer_sound_run. Qed.
Print Assumptions relay_offer_sound.

(** 4. Completeness: a message meeting all of these is a candidate for its assignee, and is
    returned unless more than [response_cap] = 1000 candidates precede it. *)
Theorem relay_offer_complete :
  forall c ops v m a,
  let q := queue (run c ops) in
  In m q -> mkind m = KEvm a ->
  massignee m = v -> (mreq m = true -> 0 < mest m) -> mpad m = false -> merr m = false ->
  (forall u, In u q -> is_valset_update u = true -> mid m <= mid u) ->
  (forall s m' a', sender_of a = Some s -> In m' q -> mkind m' = KEvm a' -> sender_of a' = Some s ->
                   mid m' < mid m -> unprocessed m' = true -> False) ->
  In m (relay_candidates q v) /\
  ((length (relay_candidates q v) <= Z.to_nat response_cap)%nat -> In m (for_relaying q v)).
Proof. exact relay_offer_complete_run. Qed.
Print Assumptions relay_offer_complete.

(** 5. Fees are ceilings: relayer = ceil(multiplier * gas), community / security =
    ceil(rate * relayer fee); [is_ceiling a c] says c is the least integer with c*10^18 >= a
    (a is the raw 18-digit product). *)
Theorem fees_are_ceilings :
  forall mult cf sf gas f,
  fees_for mult cf sf gas = Some f ->
  is_ceiling (mult * gas) (fee_relayer f) /\
  is_ceiling (cf * fee_relayer f) (fee_community f) /\
  is_ceiling (sf * fee_relayer f) (fee_security f) /\
  0 <= fee_relayer f < 2 ^ 64 /\ 0 <= fee_community f < 2 ^ 64 /\ 0 <= fee_security f < 2 ^ 64.
Proof. exact fees_for_ceilings. Qed.
Print Assumptions fees_are_ceilings.

(** 5b. ... and that is what every queued message carries, in every reachable queue: the fees are
    the ceilings for its assignee's multiplier on record and its elected gas estimate. *)
Theorem queued_fees_are_ceilings :
  forall c ops m f,
  In m (queue (run c ops)) -> mfees m = Some f ->
  exists rf, relayer_multiplier c (massignee m) = Some rf /\
    is_ceiling (rf * mest m) (fee_relayer f) /\
    is_ceiling (cfg_community c * fee_relayer f) (fee_community f) /\
    is_ceiling (cfg_security c * fee_relayer f) (fee_security f).
Proof. exact RelayProofs.queued_fees_are_ceilings. Qed.
Print Assumptions queued_fees_are_ceilings.

(** 5c. The fee computation returns no error for sane settings (non-negative multipliers, products
    below 2^64); [None] is an error return since the C09 fix, nothing here panics. *)
Theorem fees_defined :
  forall mult cf sf gas,
  0 <= mult -> 0 <= cf -> 0 <= sf -> 0 <= gas < 2 ^ 64 ->
  mult * gas <= (2 ^ 64 - 1) * prec ->
  cf * (2 ^ 64 - 1) <= (2 ^ 64 - 1) * prec -> sf * (2 ^ 64 - 1) <= (2 ^ 64 - 1) * prec ->
  exists f, fees_for mult cf sf gas = Some f.
Proof. exact fees_for_total. Qed.
Print Assumptions fees_defined.

(** 5d. A multiplicator accepted on submission (UpsertRelayerFee: 0 < m <= 10^6) can be applied to
    every estimate up to (2^64-1)/10^6 gas, with fund rates of at most 100 %. *)
Theorem accepted_multiplier_fees_defined :
  forall mult cf sf gas,
  valid_multiplier mult = true -> 0 <= cf <= prec -> 0 <= sf <= prec ->
  0 <= gas -> gas * 1000000 <= 2 ^ 64 - 1 ->
  exists f, fees_for mult cf sf gas = Some f.
Proof. exact valid_multiplier_fees_defined. Qed.
Print Assumptions accepted_multiplier_fees_defined.

(** 6. Scope of the history theorems: [step] has no reassignment operation because no production code
    calls ReassignOrphanedMessages / reassignMessageValidator (call-graph inventory regenerated from the
    source on every check).  A new caller breaks this step, and the harness then reports the stale-fee
    witness it replays on the real keeper as a violation. *)
Theorem reassign_has_no_production_caller : Gen.C14.reassign_production_callers = [].
Proof. exact reassign_not_reachable. Qed.
Print Assumptions reassign_has_no_production_caller.


(** ======== second round ======== *)

(** 7. Who enqueues.  Every production call of the consensus keeper's PutMessageInQueue is inventoried
    by the translator (Gen.C14.enqueue_sites, pinned in Cons/RelaySysProofs.v).  The five that write to a
    turnstone queue (logic call, user contract upload, compass upload, compass handover, valset update
    behind PublishValsetToChain / justInTimeValsetUpdate) take Assignee and AssigneeRemoteAddress from
    results 0 and 1 of ONE PickValidatorForMessage call whose error is returned before the put; the
    other three (validator balances, reference block, collect funds) use queues of their own and write
    no assignee.  The only direct Queue.Put elsewhere replaces a message by itself with fees set. *)
Theorem every_turnstone_enqueue_goes_through_the_pick :
  forallb site_ok Gen.C14.enqueue_site_facts = true /\
  List.length Gen.C14.enqueue_site_facts = List.length Gen.C14.enqueue_sites /\
  Gen.C14.direct_queue_puts =
    [ "x/consensus/keeper/concensus_keeper.go:PutMessageInQueue ; opts=opts";
      "x/consensus/keeper/estimate.go:checkAndProcessEstimatedFeePayer ; replace msg.GetId()" ]%string.
Proof. exact (conj every_enqueue_site_ok (conj (proj1 enqueue_sites_all_decided) direct_queue_puts_are)). Qed.
Print Assumptions every_turnstone_enqueue_goes_through_the_pick.

(** 7b. The tables the pick reads are store state only: the inventory of every struct field and package
    variable of the treasury / evm / metrix / consensus keepers (translator, regenerated on every check)
    equals the reviewed list, which holds no table data (Cons/RelaySysProofs.v).  This is what lets the
    model read "the tables" from the committed store: nothing survives a discarded store branch. *)
Theorem no_unreviewed_in_memory_state : Gen.C14.memory_state = reviewed_memory_state.
Proof. exact memory_state_is_reviewed. Qed.
Print Assumptions no_unreviewed_in_memory_state.

(** 8. Over every history of the turnstone queue of chain [ch] in which the tables (snapshot, metrics,
    relayer fees, weights, fund fees) change arbitrarily between requests of all five kinds, estimates,
    elections, reports, removals and attested error proofs with their retries: every queued message was
    assigned by a pick on the tables of some earlier moment [pre] of that history, and its assignee
    was eligible THEN (metrics and fee on record, an account on the chain whose address is the
    recorded remote address, the MEV trait if that request demanded it); Retries stays within 0..2. *)
Theorem queued_assignee_was_eligible_when_assigned :
  forall ch ops m,
  In m (queue (sy_q (srun ch ops))) ->
  exists me pre post,
    meta_of (srun ch ops) (mid m) = Some me /\ mkind m = kind_of (me_kind me) /\
    0 <= me_retries me <= max_retries /\
    ops = pre ++ post /\
    let t := sy_tables (srun ch pre) in
    let v := massignee m in
    has_metrics (tb_metrics t) v /\ has_fee (tb_fees t) v /\
    (exists e, In e (tb_snap t) /\ v_addr e = v /\ account e ch = Some (me_remote me)) /\
    (exists e', In e' (tb_snap t) /\ v_addr e' = v /\ account e' ch <> None /\
                (mev_required (req_flag (me_kind me)) = true -> carries_trait e' ch trait_mev)).
Proof. exact sys_assignee_eligible. Qed.
Print Assumptions queued_assignee_was_eligible_when_assigned.

(** 9. "Offered only to its assignee", when the snapshot moves on: the assignee written at enqueue time
    never changes and ids are never reused, so whoever is offered message [id] at any later moment is
    the validator it was first assigned to - whatever happened to the tables in between.  The offer
    does not look at the tables at all ([for_relaying] reads the queue). *)
Theorem offered_only_to_the_first_assignee :
  forall ch ops1 ops2 m1 m2 v a,
  In m1 (queue (sy_q (srun ch ops1))) ->
  In m2 (for_relaying (queue (sy_q (srun ch (ops1 ++ ops2)))) v) -> mkind m2 = KEvm a ->
  mid m1 = mid m2 -> massignee m1 = v.
Proof. exact sys_offer_only_to_first_assignee. Qed.
Print Assumptions offered_only_to_the_first_assignee.

(** 9a. The same for everything written next to the assignee: kind, remote (relayer) address, retries. *)
Theorem assignment_record_is_permanent :
  forall ch ops1 ops2 m1 m2,
  In m1 (queue (sy_q (srun ch ops1))) -> In m2 (queue (sy_q (srun ch (ops1 ++ ops2)))) -> mid m1 = mid m2 ->
  massignee m1 = massignee m2 /\ mkind m1 = mkind m2 /\
  meta_of (srun ch (ops1 ++ ops2)) (mid m2) = meta_of (srun ch ops1) (mid m1).
Proof. exact sys_record_fixed. Qed.
Print Assumptions assignment_record_is_permanent.

(** 9b. ... and therefore eligibility is a fact about the moment of assignment only.  The strict reading
    "the assignee is in the CURRENT snapshot whenever the message is offered" is refuted: a validator
    that left the snapshot after the assignment is still the only one offered the message (nothing
    re-assigns: theorem reassign_has_no_production_caller).  Replayed on the real keepers every run. *)
Theorem offer_outlives_eligibility_refuted :
  exists ch ops v m,
    In m (for_relaying (queue (sy_q (srun ch ops))) v) /\ massignee m = v /\
    ~ in_snapshot (tb_snap (sy_tables (srun ch ops))) v.
Proof. exact offer_outlives_eligibility_witness. Qed.
Print Assumptions offer_outlives_eligibility_refuted.

(** 10. Retry after an attested error proof (logic call, user contract upload, compass upload; Retries
    below 2): the old message is gone; the SAME enqueueing caller runs again, so the assignee is a fresh
    pick on the tables of that moment (eligible then, by 8); the new message has a fresh id, no elected
    estimate and no fees (they are computed again at its own election, for its own assignee, by 11);
    Retries + 1.  If that pick returns an error nothing is enqueued and the old message is still removed;
    if it panics (negative block time, ranking overflow) nothing of the attestation is written. *)
Theorem retry_is_a_fresh_assignment :
  forall ch ops id ts m me,
  let s := srun ch ops in
  let s' := srun ch (ops ++ [SAttestError id ts]) in
  In m (queue (sy_q s)) -> mid m = id -> meta_of s id = Some me ->
  retryable (me_kind me) = true -> me_retries me < max_retries ->
  (forall v remote, pick_now ch (sy_tables s) (me_kind me) ts = Picked v remote ->
     queue (sy_q s') = filter (fun x => negb (mid x =? id)) (queue (sy_q s)) ++
                       [fresh_msg (next_id (sy_q s) + 1) (kind_of (me_kind me)) v (needs_estimate (me_kind me)) false] /\
     meta_of s' (next_id (sy_q s) + 1) =
       Some {| me_kind := me_kind me; me_retries := me_retries me + 1; me_turn := me_turn me; me_remote := remote |}) /\
  (forall c, pick_now ch (sy_tables s) (me_kind me) ts = PickErr c ->
     queue (sy_q s') = filter (fun x => negb (mid x =? id)) (queue (sy_q s))) /\
  (pick_now ch (sy_tables s) (me_kind me) ts = PickPanic -> s' = s) /\
  (pick_now ch (sy_tables s) (me_kind me) ts <> PickPanic -> forall x, In x (queue (sy_q s')) -> mid x <> id).
Proof. exact sys_retry. Qed.
Print Assumptions retry_is_a_fresh_assignment.

(** 10b. No retry for valset updates and handovers, nor after two retries: the message is only removed. *)
Theorem retry_is_bounded :
  forall ch ops id ts m me,
  let s := srun ch ops in
  let s' := srun ch (ops ++ [SAttestError id ts]) in
  In m (queue (sy_q s)) -> mid m = id -> meta_of s id = Some me ->
  retryable (me_kind me) = false \/ max_retries <= me_retries me ->
  queue (sy_q s') = filter (fun x => negb (mid x =? id)) (queue (sy_q s)) /\ next_id (sy_q s') = next_id (sy_q s).
Proof. exact sys_retry_exhausted. Qed.
Print Assumptions retry_is_bounded.

(** 11. Fees with changing tables: what a queued message carries are the ceilings for the multiplier that
    was on record for ITS assignee, and the fund rates, at some earlier moment of the history (its
    election) - never another validator's, also after retries. *)
Theorem queued_fees_are_ceilings_with_changing_tables :
  forall ch ops m f,
  In m (queue (sy_q (srun ch ops))) -> mfees m = Some f ->
  exists pre post rf, ops = pre ++ post /\
    let t := sy_tables (srun ch pre) in
    fee_lookup (tb_fees t) (massignee m) = Some rf /\
    is_ceiling (rf * mest m) (fee_relayer f) /\
    is_ceiling (tb_community t * fee_relayer f) (fee_community f) /\
    is_ceiling (tb_security t * fee_relayer f) (fee_security f).
Proof. exact sys_queued_fees_are_ceilings. Qed.
Print Assumptions queued_fees_are_ceilings_with_changing_tables.

(** 12. The response cap, exactly: in every reachable queue (fixed or changing tables) an EVM message is
    returned to [v] iff it meets the five conditions AND fewer than 1000 candidates of that query
    (non-EVM payloads of the queue included) have a smaller id. *)
Theorem relay_offer_exact :
  forall c ops v m a,
  let q := queue (run c ops) in
  mkind m = KEvm a ->
  (In m (for_relaying q v) <->
   relayable q v m a /\ (List.length (older_than m (relay_candidates q v)) < Z.to_nat response_cap)%nat).
Proof. exact relay_offer_exact_run. Qed.
Print Assumptions relay_offer_exact.

Theorem relay_offer_exact_with_changing_tables :
  forall ch ops v m a,
  let q := queue (sy_q (srun ch ops)) in
  mkind m = KEvm a ->
  (In m (for_relaying q v) <->
   relayable q v m a /\ (List.length (older_than m (relay_candidates q v)) < Z.to_nat response_cap)%nat).
Proof. exact sys_offer_exact. Qed.
Print Assumptions relay_offer_exact_with_changing_tables.

(** 12b. "Never ahead of an older pending valset update", whatever the backlog: the statement of 3 / 12 has no
    bound on the queue because every poller and the shared GetPendingValsetUpdates read the whole queue
    (translator facts), and the latent reassignment picks per message. *)
Theorem pollers_read_the_whole_queue :
  Gen.C14.queue_getters =
  ["GetPendingValsetUpdates: GetMessagesFromQueue(_, _, 0) sliced-before-filter=false";
   "GetMessagesForRelaying: GetMessagesFromQueue(_, _, 0) sliced-before-filter=false";
   "GetMessagesForGasEstimation: GetMessagesFromQueue(_, _, 0) sliced-before-filter=false"]%string /\
  Gen.C14.get_messages_from_queue_bound = ["n > 0 && len(msgs) > n"]%string.
Proof. exact queue_getters_are. Qed.
Print Assumptions pollers_read_the_whole_queue.

(** 13. The ranking arithmetic.  Every LegacyDec operation of scoreValue / the weighted sum asserts
    |raw| <= 2^256 * 10^18 - 1 and panics otherwise, before the job filter runs ([pick_ov]).  With
    non-negative table values inside that range and weights whose absolute values sum to at most the
    limit (defaults: 5) no assertion can fail: [pick_ov = pick], so 1-2b speak about the code. *)
Theorem ranking_cannot_overflow :
  forall sn ms fs w chain req ts,
  nonneg_tables ms fs -> weight_sum w <= upper_limit ->
  pick_ov sn ms fs w chain req ts = pick sn ms fs w chain req ts.
Proof. exact pick_never_overflows. Qed.
Print Assumptions ranking_cannot_overflow.

(** 13a. Since the C09 repair (c16efebc) Keeper.SetRelayWeights - the only writer of the weights besides
    the literal defaults, and what the proposal handler and genesis call - validates before it writes:
    every weight a decimal in [0, 10^6] (translator facts pinned by weights_validation_is /
    relay_weights_writers_are).  So in every state reached through the setter, whatever sequence of
    accepted and refused proposals came before, the premise of 13 holds and the pick cannot panic in
    the ranking arithmetic (tables non-negative). *)
Theorem validated_weights_cannot_overflow :
  (forall sn ms fs w chain req ts,
     nonneg_tables ms fs -> valid_weights w = true ->
     pick_ov sn ms fs w chain req ts = pick sn ms fs w chain req ts) /\
  (forall sn ms fs sets chain req ts,
     nonneg_tables ms fs ->
     pick_ov sn ms fs (stored_weights sets) chain req ts = pick sn ms fs (stored_weights sets) chain req ts).
Proof. exact (conj pick_never_overflows_validated pick_never_overflows_stored). Qed.
Print Assumptions validated_weights_cannot_overflow.

(** 13b. The hypothesis on the weights is needed: five weights of 10^77 make every pick on that chain
    panic with ordinary tables.  Before c16efebc a RelayWeightsProposal could store them; now the setter
    refuses them (huge_weights_refused_by_the_setter), so this is a witness about RAW stored state (a store
    written by older code; replayed through hook VerifC09StoreRelayWeights).  See design/C14.md. *)
Theorem ranking_overflow_needs_bounded_weights_refuted :
  nonneg_tables ov_ms ov_fs /\ in_range (w_fee ov_w) = true /\
  pick_ov ov_sn ov_ms ov_fs ov_w 1 None 1700000000 = PickPanic.
Proof. exact (conj ov_tables_nonneg (conj huge_weight_is_a_valid_decimal ranking_overflow_reachable)). Qed.
Print Assumptions ranking_overflow_needs_bounded_weights_refuted.

(** 13c. Whatever the arithmetic does, a successful pick is the model's pick. *)
Theorem pick_with_overflow_check_picks_the_same :
  forall sn ms fs w chain req ts v r,
  pick_ov sn ms fs w chain req ts = Picked v r -> pick sn ms fs w chain req ts = Picked v r.
Proof. exact pick_ov_picked. Qed.
Print Assumptions pick_with_overflow_check_picks_the_same.


(* --- source translation tie (GenFn) --- *)
(* The Go function bodies named below are re-translated from the source on every check
   (harness/cmd/extract/gotrans*.go -> GenFn/*.v, semantics of the Go subset: Trans/GoSem.v).
   Each theorem states that the hand-written model function equals the translated body for all
   inputs (hypotheses are Go type ranges / the 256-bit range of math.Int only); the proofs are in
   Trans/C14Fn.v.  A readable change of the Go body breaks the proof, an unreadable one breaks the
   translator.  See design/GoTrans.md. *)
From Paloma Require Trans.GoSem Trans.GoSemFacts Trans.C14Fn.

Theorem mul_ceil_u64_model_is_translation_of_source :
  forall d n : Z,
  GenFn.MulCeilUint64.mulCeilUint64 (Some d) n = match Fees.mul_ceil_u64 d n with Some v => GoSem.Val v | None => GoSem.Fail end.
Proof. exact Trans.C14Fn.mul_ceil_eq. Qed.
Print Assumptions mul_ceil_u64_model_is_translation_of_source.

Theorem valid_multiplier_model_is_translation_of_source :
  forall m : Z,
  GenFn.ValidateMultiplicator.validateMultiplicator (Some m) = if Fees.valid_multiplier m then GoSem.Val tt else GoSem.Fail.
Proof. exact Trans.C14Fn.valid_multiplier_eq. Qed.
Print Assumptions valid_multiplier_model_is_translation_of_source.
