(** C14 — messages are assigned to, and only relayable by, an eligible relayer; fees are ceilings.
    Only statements closed by [exact]; models in Evm/Assign.v, Cons/Relay.v, Cons/Fees.v, Base/Dec.v,
    proofs in the *Proofs.v files next to them.  Constants and code shapes come from Gen/C14.v. *)
From Coq Require Import List ZArith Bool.
From Paloma Require Import Base.Dec Base.DecProofs Evm.Assign Evm.AssignProofs
     Cons.Fees Cons.FeesProofs Cons.Relay Cons.RelayProofs.
Import ListNotations.
Open Scope Z_scope.

(** 1. The assignee is in the current snapshot, the signed remote address is its account on the
    target chain, it has a relayer fee and metrics on record, and carries the MEV trait when the
    job demands it — for every snapshot with one entry per validator, all tables, weights,
    requirement flags and block times, whatever the ranking arithmetic yields. *)
Theorem assignee_eligible :
  forall sn ms fs w chain req ts v remote,
  NoDup (map v_addr sn) ->
  pick sn ms fs w chain req ts = Picked v remote ->
  exists e, In e sn /\ v_addr e = v /\
            account e chain = Some remote /\
            has_fee fs v /\ has_metrics ms v /\
            (mev_required req = true -> carries_trait e chain trait_mev).
Proof. exact assignee_eligible_nodup. Qed.
Print Assumptions assignee_eligible.

(** 1b. The same without any assumption on the snapshot (entries repeating an address included):
    the remote address and the trait may then come from two entries of that same address. *)
Theorem assignee_eligible_any_snapshot :
  forall sn ms fs w chain req ts v remote,
  pick sn ms fs w chain req ts = Picked v remote ->
  has_metrics ms v /\ has_fee fs v /\
  (exists e, In e sn /\ v_addr e = v /\ account e chain = Some remote) /\
  (exists e', In e' sn /\ v_addr e' = v /\ account e' chain <> None /\
              (mev_required req = true -> carries_trait e' chain trait_mev)).
Proof. exact AssignProofs.assignee_eligible_any_snapshot. Qed.
Print Assumptions assignee_eligible_any_snapshot.

(** 2. If no validator is eligible the request fails and the queue is exactly what it was. *)
Theorem no_eligible_no_enqueue :
  forall sn ms fs w chain req ts payload s,
  (forall v, ~ eligible sn ms fs chain req v) ->
  fst (enqueue_request sn ms fs w chain req ts payload s) = s /\
  enq_failed (snd (enqueue_request sn ms fs w chain req ts payload s)).
Proof. exact no_eligible_no_enqueue_lemma. Qed.
Print Assumptions no_eligible_no_enqueue.

(** 2b. Conversely, with somebody eligible (and a non-negative block time) a relayer is assigned,
    and it is an eligible one: the request fails only when nobody is eligible. *)
Theorem eligible_gets_assignment :
  forall sn ms fs w chain req ts v,
  NoDup (map v_addr sn) -> 0 <= ts -> eligible sn ms fs chain req v ->
  exists v' r, pick sn ms fs w chain req ts = Picked v' r /\ eligible sn ms fs chain req v'.
Proof. exact eligible_gets_assignment_lemma. Qed.
Print Assumptions eligible_gets_assignment.

(** 3. Soundness of the relay offer, in every queue any history of puts, estimates, elections,
    reports and removals can produce: an EVM message is offered only to its assignee, only with an
    elected estimate when one is required, only unreported, never ahead of an older valset update
    still in the queue, never while an older unreported message of the same sender is queued. *)
Theorem relay_offer_sound :
  forall c ops v m a,
  let q := queue (run c ops) in
  In m (for_relaying q v) -> mkind m = KEvm a ->
  In m q /\
  massignee m = v /\
  (mreq m = true -> 0 < mest m) /\
  mpad m = false /\ merr m = false /\
  (forall u, In u q -> is_valset_update u = true -> mid m <= mid u) /\
  (forall s m' a', sender_of a = Some s -> In m' q -> mkind m' = KEvm a' -> sender_of a' = Some s ->
                   mid m' < mid m -> unprocessed m' = true -> False).
Proof. exact relay_offer_sound_run. Qed.
Print Assumptions relay_offer_sound.

(** 4. Completeness: a message meeting all of these is a candidate for its assignee, and is
    returned unless more than [response_cap] = 1000 candidates precede it. *)
Theorem relay_offer_complete :
  forall c ops v m a,
  let q := queue (run c ops) in
  In m q -> mkind m = KEvm a ->
  massignee m = v -> (mreq m = true -> 0 < mest m) -> mpad m = false -> merr m = false ->
  (forall u, In u q -> is_valset_update u = true -> mid m <= mid u) ->
  (forall s m' a', sender_of a = Some s -> In m' q -> mkind m' = KEvm a' -> sender_of a' = Some s ->
                   mid m' < mid m -> unprocessed m' = true -> False) ->
  In m (relay_candidates q v) /\
  ((length (relay_candidates q v) <= Z.to_nat response_cap)%nat -> In m (for_relaying q v)).
Proof. exact relay_offer_complete_run. Qed.
Print Assumptions relay_offer_complete.

(** 5. Fees are ceilings: relayer = ceil(multiplier * gas), community / security =
    ceil(rate * relayer fee); [is_ceiling a c] says c is the least integer with c*10^18 >= a
    (a is the raw 18-digit product). *)
Theorem fees_are_ceilings :
  forall mult cf sf gas f,
  fees_for mult cf sf gas = Some f ->
  is_ceiling (mult * gas) (fee_relayer f) /\
  is_ceiling (cf * fee_relayer f) (fee_community f) /\
  is_ceiling (sf * fee_relayer f) (fee_security f) /\
  0 <= fee_relayer f < 2 ^ 64 /\ 0 <= fee_community f < 2 ^ 64 /\ 0 <= fee_security f < 2 ^ 64.
Proof. exact fees_for_ceilings. Qed.
Print Assumptions fees_are_ceilings.

(** 5b. ... and that is what every queued message carries, in every reachable queue: the fees are
    the ceilings for its assignee's multiplier on record and its elected gas estimate. *)
Theorem queued_fees_are_ceilings :
  forall c ops m f,
  In m (queue (run c ops)) -> mfees m = Some f ->
  exists rf, relayer_multiplier c (massignee m) = Some rf /\
    is_ceiling (rf * mest m) (fee_relayer f) /\
    is_ceiling (cfg_community c * fee_relayer f) (fee_community f) /\
    is_ceiling (cfg_security c * fee_relayer f) (fee_security f).
Proof. exact RelayProofs.queued_fees_are_ceilings. Qed.
Print Assumptions queued_fees_are_ceilings.

(** 5c. The fee computation returns no error for sane settings (non-negative multipliers, products
    below 2^64); [None] is an error return since the C09 fix, nothing here panics. *)
Theorem fees_defined :
  forall mult cf sf gas,
  0 <= mult -> 0 <= cf -> 0 <= sf -> 0 <= gas < 2 ^ 64 ->
  mult * gas <= (2 ^ 64 - 1) * prec ->
  cf * (2 ^ 64 - 1) <= (2 ^ 64 - 1) * prec -> sf * (2 ^ 64 - 1) <= (2 ^ 64 - 1) * prec ->
  exists f, fees_for mult cf sf gas = Some f.
Proof. exact fees_for_total. Qed.
Print Assumptions fees_defined.

(** 5d. A multiplicator accepted on submission (UpsertRelayerFee: 0 < m <= 10^6) can be applied to
    every estimate up to (2^64-1)/10^6 gas, with fund rates of at most 100 %. *)
Theorem accepted_multiplier_fees_defined :
  forall mult cf sf gas,
  valid_multiplier mult = true -> 0 <= cf <= prec -> 0 <= sf <= prec ->
  0 <= gas -> gas * 1000000 <= 2 ^ 64 - 1 ->
  exists f, fees_for mult cf sf gas = Some f.
Proof. exact valid_multiplier_fees_defined. Qed.
Print Assumptions accepted_multiplier_fees_defined.

(** 6. Scope of the history theorems: [step] has no reassignment operation because no production code
    calls ReassignOrphanedMessages / reassignMessageValidator (call-graph inventory regenerated from the
    source on every check).  A new caller breaks this step, and the harness then reports the stale-fee
    witness it replays on the real keeper as a violation. *)
Theorem reassign_has_no_production_caller : Gen.C14.reassign_production_callers = [].
Proof. exact reassign_not_reachable. Qed.
Print Assumptions reassign_has_no_production_caller.


(* --- source translation tie (GenFn) --- *)
(* The Go function bodies named below are re-translated from the source on every check
   (harness/cmd/extract/gotrans*.go -> GenFn/*.v, semantics of the Go subset: Trans/GoSem.v).
   Each theorem states that the hand-written model function equals the translated body for all
   inputs (hypotheses are Go type ranges / the 256-bit range of math.Int only); the proofs are in
   Trans/C14Fn.v.  A readable change of the Go body breaks the proof, an unreadable one breaks the
   translator.  See design/GoTrans.md. *)
From Paloma Require Trans.GoSem Trans.GoSemFacts Trans.C14Fn.

Theorem mul_ceil_u64_model_is_translation_of_source :
  forall d n : Z,
  GenFn.MulCeilUint64.mulCeilUint64 (Some d) n = match Fees.mul_ceil_u64 d n with Some v => GoSem.Val v | None => GoSem.Fail end.
Proof. exact Trans.C14Fn.mul_ceil_eq. Qed.
Print Assumptions mul_ceil_u64_model_is_translation_of_source.

Theorem valid_multiplier_model_is_translation_of_source :
  forall m : Z,
  GenFn.ValidateMultiplicator.validateMultiplicator (Some m) = if Fees.valid_multiplier m then GoSem.Val tt else GoSem.Fail.
Proof. exact Trans.C14Fn.valid_multiplier_eq. Qed.
Print Assumptions valid_multiplier_model_is_translation_of_source.
