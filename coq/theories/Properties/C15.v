(** C15 — skyway bridge tax and transfer limits are applied exactly as configured.
    Only statements closed by [exact]; the model is Skyway/TaxLimit.v (tied to the source through
    Gen/C15.v and the correspondence harness), the proofs are in Skyway/TaxLimitProofs.v.

    Reading of the state: [bal s acct tok], [escrow s tok] (skyway module account), [burned s tok];
    [deliver op s] = the message handler run inside a transaction; [run s ops = fold_left step ops s].
    A rate is the pair (tc_num, tc_den) big.Rat.SetString returns for the configured string. *)
From Coq Require Import List ZArith Bool QArith Qround.
From Paloma Require Import Skyway.TaxLimit Skyway.TaxLimitProofs.
Import ListNotations.
Open Scope Z_scope.

(** 1. An accepted transfer of [a] costs the sender exactly [a + spec_tax], all of it goes to the
    module account, nobody else's balance moves and nothing is burned; [spec_tax] is
    [a * num / den] (floor) for a non-exempt sender of a taxed token, 0 for an exempt sender or an
    untaxed token (second theorem), and the integer expression is the rational floor (third). *)
Theorem cost_is_a_plus_floor : forall h snd tok a mal s s',
  tax_wf s ->
  deliver (Send h snd tok a mal) s = (s', Ok) ->
  0 <= a /\
  bal s' snd tok = bal s snd tok - (a + spec_tax s snd tok a) /\
  escrow s' tok = escrow s tok + (a + spec_tax s snd tok a) /\
  (forall a' t', (a', t') <> (snd, tok) -> bal s' a' t' = bal s a' t') /\
  (forall t', t' <> tok -> escrow s' t' = escrow s t') /\
  burned s' = burned s.
Proof. exact send_cost. Qed.
Print Assumptions cost_is_a_plus_floor.

Theorem cost_cases : forall s snd tok a,
  (forall tc, taxes s tok = Some tc -> mem snd (tc_exempt tc) = false ->
     spec_tax s snd tok a = a * tc_num tc / tc_den tc) /\
  (forall tc, taxes s tok = Some tc -> mem snd (tc_exempt tc) = true -> spec_tax s snd tok a = 0) /\
  (taxes s tok = None -> spec_tax s snd tok a = 0).
Proof. exact spec_tax_cases. Qed.
Print Assumptions cost_cases.

Theorem floor_is_rational_floor : forall a num den, 0 < den ->
  Qfloor (inject_Z a * (num # Z.to_pos den)) = a * num / den.
Proof. exact floor_is_Qfloor. Qed.
Print Assumptions floor_is_rational_floor.

(** 2. The tax is recorded with the transfer, returned in full on cancellation, burned on execution. *)
Theorem tax_recorded : forall h snd tok a mal s s',
  tax_wf s ->
  deliver (Send h snd tok a mal) s = (s', Ok) ->
  pool s' = {| t_id := last_id s + 1; t_sender := snd; t_tok := tok; t_amount := a;
               t_tax := spec_tax s snd tok a |} :: pool s /\
  batches s' = batches s /\ last_id s' = last_id s + 1.
Proof. exact send_records. Qed.
Print Assumptions tax_recorded.

Theorem tax_refunded : forall snd id s s',
  deliver (Cancel snd id) s = (s', Ok) ->
  exists t, find_tx id (pool s) = Some t /\ t_sender t = snd /\
    bal s' snd (t_tok t) = bal s snd (t_tok t) + (t_amount t + t_tax t) /\
    escrow s' (t_tok t) = escrow s (t_tok t) - (t_amount t + t_tax t) /\
    (forall a' t', (a', t') <> (snd, t_tok t) -> bal s' a' t' = bal s a' t') /\
    (forall t', t' <> t_tok t -> escrow s' t' = escrow s t') /\
    burned s' = burned s /\ pool s' = remove_tx id (pool s) /\ usages s' = usages s.
Proof. exact cancel_refunds. Qed.
Print Assumptions tax_refunded.

Theorem tax_burned : forall tok nonce s s',
  deliver (Execute tok nonce) s = (s', Ok) ->
  exists b, find_batch tok nonce (batches s) = Some b /\
    escrow s' tok = escrow s tok - sum_of locked_of (b_txs b) /\
    burned s' tok = burned s tok + sum_of locked_of (b_txs b) /\
    bal s' = bal s /\ pool s' = pool s /\ usages s' = usages s /\
    (forall t', t' <> tok -> escrow s' t' = escrow s t' /\ burned s' t' = burned s t').
Proof. exact execute_burns. Qed.
Print Assumptions tax_burned.

(** Between send and cancel / execution the record is never modified: whatever is pending (pool or
    batches) at the end of any history either was pending at the start or carries exactly the amount
    and the tax computed by the accepted send that created it. *)
Theorem tax_record_immutable : forall ops s t,
  tax_wf s -> Forall op_wf ops -> In t (pending (run s ops)) ->
  In t (pending s) \/
  exists pre h snd tok a mal, In (pre, Send h snd tok a mal, Ok) (trace s ops) /\
    t = {| t_id := last_id pre + 1; t_sender := snd; t_tok := tok; t_amount := a;
           t_tax := spec_tax pre snd tok a |}.
Proof. exact pending_origin. Qed.
Print Assumptions tax_record_immutable.

(** 3. Over every history (sends at arbitrary heights, interleaved with cancels, batches, executions,
    failed operations and governance changes of anything but this token's limit, and no restart of
    the chain from an exported genesis — see 7.): the accepted
    transfers of the senders the limiter looks at, grouped into windows by the restart rule
    (a transfer [>= L] blocks after the window's first transfer opens the next window), never
    total more than the limit in any window. *)
Theorem window_total_le_limit : forall tok lc ops s,
  limits s tok = Some lc -> lc_period lc <> PNone -> usages s tok = None -> no_setlimit tok ops -> no_genesis ops ->
  Forall (fun w => w <= lc_limit lc) (window_sums (block_limit (lc_period lc)) (accepted tok s ops)).
Proof. exact window_total_le_limit_fresh. Qed.
Print Assumptions window_total_le_limit.

(** The same from any state with a running tally [u] within the limit (e.g. after a governance
    change), and: the stored tally is exactly the total of the current window. *)
Theorem window_total_le_limit_running : forall tok lc, lc_period lc <> PNone ->
  forall ops s u, limits s tok = Some lc -> no_setlimit tok ops -> no_genesis ops ->
    usages s tok = Some u -> u_total u <= lc_limit lc ->
    Forall (fun w => w <= lc_limit lc) (wsums (block_limit (lc_period lc)) (u_start u) (u_total u) (accepted tok s ops)) /\
    exists u', usages (run s ops) tok = Some u' /\
      last (wsums (block_limit (lc_period lc)) (u_start u) (u_total u) (accepted tok s ops)) 0 = u_total u'.
Proof. exact windows_from_usage. Qed.
Print Assumptions window_total_le_limit_running.

(** 4. A rejected transfer consumes no allowance: at message level any failed operation (error or
    panic) leaves the whole state unchanged; at keeper level a transfer rejected by the limiter
    leaves the tally unchanged even without the transaction (the check precedes the write); and the
    limiter rejects only when the window total would exceed the limit. *)
Theorem rejected_consumes_nothing : forall o s, snd (deliver o s) <> Ok -> fst (deliver o s) = s.
Proof. exact deliver_failed_noop. Qed.
Print Assumptions rejected_consumes_nothing.

Theorem limit_rejection_consumes_nothing_keeper_level : forall h snd tok a s s1 e,
  limit_step h snd tok a s = (s1, Err e) -> s1 = s /\ e = ELimit.
Proof. exact limit_rejection_consumes_nothing. Qed.
Print Assumptions limit_rejection_consumes_nothing_keeper_level.

Theorem limit_rejects_only_above_limit : forall h snd tok a s s1,
  limit_step h snd tok a s = (s1, Err ELimit) ->
  exists lc nu, limited s snd tok = Some lc /\
    next_usage (block_limit (lc_period lc)) h a (usages s tok) = Some nu /\ lc_limit lc < u_total nu.
Proof. exact limit_rejection_justified. Qed.
Print Assumptions limit_rejects_only_above_limit.

(** 5. Exempt senders and tokens without a limit (no record, or period NONE) are unrestricted:
    the limiter accepts without touching the tally, the send never fails with the limit error,
    and any payable transfer is accepted whatever the tally and the limit are. *)
Theorem exempt_and_unlimited_unrestricted : forall h snd tok a s,
  unrestricted s snd tok ->
  limit_step h snd tok a s = (s, Ok) /\
  Datatypes.snd (deliver (Send h snd tok a false) s) <> Err ELimit /\
  usages (step s (Send h snd tok a false)) = usages s /\
  (forall tax, mapped s tok = true -> 0 <= a -> tax_amount s snd tok a = Some tax ->
     fits (a + tax) = true -> 0 < a + tax <= bal s snd tok ->
     Datatypes.snd (deliver (Send h snd tok a false) s) = Ok).
Proof. exact unrestricted_send. Qed.
Print Assumptions exempt_and_unlimited_unrestricted.

(** Well-formed tax configuration ([0 <= num], [0 < den]) is what governance can produce. *)
Theorem tax_wf_preserved : forall ops s, tax_wf s -> Forall op_wf ops -> tax_wf (run s ops).
Proof. exact tax_wf_run. Qed.
Print Assumptions tax_wf_preserved.


(** 6. Configured = applied.  Token identifiers stand for the token STRINGS (two spellings that differ
    in case or blanks are two identifiers); the proposal handler stores the record under the token
    exactly as submitted (Gen/C15.v [gov_tax_token], [gov_limit_token], read from
    governance_proposals.go) and a send looks it up by its coin's denom.  After ANY history the tax
    and limit settings a send of [tok] meets are those of the last accepted proposal submitted for
    exactly [tok]; a proposal for any other spelling leaves them alone; and the first send after a
    proposal pays the submitted rate. *)
Theorem configured_is_applied : forall tok ops s,
  taxes (run s ops) tok = fold_left (cfg_tax tok) ops (taxes s tok) /\
  limits (run s ops) tok = fold_left (cfg_limit tok) ops (limits s tok).
Proof. exact cfg_run. Qed.
Print Assumptions configured_is_applied.

Theorem other_spelling_is_another_token : forall tok t' cur1 cur2 ok num den ex limit p ex2, t' <> tok ->
  cfg_tax tok cur1 (SetTax t' ok num den ex) = cur1 /\ cfg_limit tok cur2 (SetLimit t' limit p ex2) = cur2.
Proof. exact cfg_other_token. Qed.
Print Assumptions other_spelling_is_another_token.

Theorem configured_tax_is_charged : forall tok num den ex s s1 h snd a mal s2,
  deliver (SetTax tok true num den ex) s = (s1, Ok) -> 0 < den ->
  deliver (Send h snd tok a mal) s1 = (s2, Ok) -> tax_wf s ->
  bal s2 snd tok = bal s snd tok - (a + (if (num =? 0) || mem snd ex then 0 else a * num / den)) /\
  (forall t', t' <> tok -> taxes s1 t' = taxes s t').
Proof. exact settax_then_send. Qed.
Print Assumptions configured_tax_is_charged.

(** 7. Genesis export / import (ExportGenesis, then InitGenesis on an empty store = the operation
    [Genesis]).  The tax and limit records, the pending transfers with their recorded tax, the id
    counters and the ledger are carried; the usage tallies are NOT part of the exported genesis
    (genesis.go, read from the source: Gen/C15.v [genesis_carries_usage] = false).  So: after the
    restart every window starts afresh and from there on the limit holds again; but across the
    restart the window clause is false — hence the hypothesis [no_genesis] of 3.  The witness is
    replayed on the real keeper by the harness (known finding C15:usage-tally-lost-in-genesis-export). *)
Theorem genesis_carries : forall s,
  deliver Genesis s = (step s Genesis, Ok) /\
  taxes (step s Genesis) = taxes s /\ limits (step s Genesis) = limits s /\
  pool (step s Genesis) = pool s /\ batches (step s Genesis) = batches s /\
  last_id (step s Genesis) = last_id s /\ last_batch (step s Genesis) = last_batch s /\
  bal (step s Genesis) = bal s /\ escrow (step s Genesis) = escrow s /\ burned (step s Genesis) = burned s /\
  (forall tok, usages (step s Genesis) tok = None).
Proof. exact genesis_step. Qed.
Print Assumptions genesis_carries.

Theorem window_total_le_limit_after_genesis : forall tok lc ops s,
  limits s tok = Some lc -> lc_period lc <> PNone -> no_setlimit tok ops -> no_genesis ops ->
  Forall (fun w => w <= lc_limit lc) (window_sums (block_limit (lc_period lc)) (accepted tok (step s Genesis) ops)).
Proof. exact windows_after_genesis. Qed.
Print Assumptions window_total_le_limit_after_genesis.

Theorem window_total_across_genesis_refuted :
  exists tok lc ops s, limits s tok = Some lc /\ lc_period lc <> PNone /\ usages s tok = None /\ no_setlimit tok ops /\
    ~ Forall (fun w => w <= lc_limit lc) (window_sums (block_limit (lc_period lc)) (accepted tok s ops)).
Proof. exact genesis_window_refuted. Qed.
Print Assumptions window_total_across_genesis_refuted.

(* --- source translation tie (GenFn) --- *)
(* The Go function bodies named below are re-translated from the source on every check
   (harness/cmd/extract/gotrans*.go -> GenFn/*.v, semantics of the Go subset: Trans/GoSem.v).
   Each theorem states that the hand-written model function equals the translated body for all
   inputs (hypotheses are Go type ranges / the 256-bit range of math.Int only); the proofs are in
   Trans/C15Fn.v.  A readable change of the Go body breaks the proof, an unreadable one breaks the
   translator.  See design/GoTrans.md. *)
From Paloma Require Trans.GoSem Trans.GoSemFacts Trans.C15Fn.

Theorem tax_formula_model_is_translation_of_source :
  forall a n d : Z, d <> 0 ->
  GoSem.res_to_option (GenFn.BridgeTaxAmount.bridgeTaxAmount_tail a n d)
  = if TaxLimit.fits n && TaxLimit.fits d && TaxLimit.fits (a * n) then Some (Gen.C15.tax_formula a n d) else None.
Proof. exact Trans.C15Fn.tax_tail_eq. Qed.
Print Assumptions tax_formula_model_is_translation_of_source.

Theorem next_usage_model_is_translation_of_source :
  forall (L h a limit : Z) (cur : option TaxLimit.usage),
  GoSem.in_i64 (h - Trans.C15Fn.usage_start cur) ->
  GenFn.BridgeTransferUsage.updateUsage_window (Trans.C15Fn.usage_nil cur) (Trans.C15Fn.usage_total cur) (Trans.C15Fn.usage_start cur) h L a limit
  = Trans.C15Fn.model_outcome L h a limit cur.
Proof. exact Trans.C15Fn.usage_window_eq. Qed.
Print Assumptions next_usage_model_is_translation_of_source.

Theorem tax_and_limit_untranslated_context_as_reviewed :
  GenFn.BridgeTaxAmount.bridgeTaxAmount_tail_context_digest
  = [0xb83c3ac701e86b94; 0x742e2efb09af0f9a; 0x45e0596fdcbcfb73; 0x3e61961837ed6a6e]%Z /\
  GenFn.BridgeTransferUsage.updateUsage_window_context_digest
  = [0xf12f7d1aa1d17aaa; 0xa5614a623721c58a; 0x2b843479acd4a819; 0xcc18d91f03b22168]%Z.
Proof. exact (conj Trans.C15Fn.tax_context_pinned Trans.C15Fn.usage_context_pinned). Qed.
Print Assumptions tax_and_limit_untranslated_context_as_reviewed.
