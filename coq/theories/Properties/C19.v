(** C19 — the mempool yields each pending transaction exactly once, in nonce order per sender, with
    priority dominance; CountTx = number of pending.  Only statements closed by [exact]. *)
From Coq Require Import List ZArith String Permutation Sorted.
From Paloma Require Import Mempool.PriorityNonce Mempool.PriorityNonceProofs.
From Paloma Require Gen.C19.
Import ListNotations.
Open Scope Z_scope.

Theorem index_order_as_modelled :
  Gen.C19.index_wrapper = "skiplist.LessThanFunc"%string /\
  Gen.C19.index_order = ["priority"; "weight"; "sender"; "nonce"]%string.
Proof. exact gen_index_order. Qed.
Print Assumptions index_order_as_modelled.
