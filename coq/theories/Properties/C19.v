(** C19 — the application mempool yields every pending transaction exactly once (never a removed one),
    each sender's transactions in strictly increasing sequence order, a higher-priority sender's
    available transaction first, and CountTx equals the number of pending transactions — for all
    histories of Insert / Remove / Select.  Only statements closed by [exact]; proofs are in
    Mempool/PriorityNonceProofs.v.

    [run ops = fold_left step ops init] is the model state after the history (Select re-weights ties,
    so it is a state-changing step); [select st] is the sequence a Select(..).Next() walk yields in [st];
    [pending ops] is computed from the history alone.  Premises: [unique_sender_nonce] (the property's
    own premise) and [priorities_above_min] (priority > math.MinInt64; at MinInt64 the real iterator
    dereferences a nil node, which the model reproduces as [select_panics]). *)
From Coq Require Import List ZArith String Permutation Sorted.
From Paloma Require Import Mempool.PriorityNonce Mempool.PriorityNonceProofs.
From Paloma Require Gen.C19.
Import ListNotations.
Open Scope Z_scope.

(** every pending transaction exactly once, never a removed one; the walk does not panic *)
Theorem select_is_permutation_of_pending : forall ops,
  unique_sender_nonce ops -> priorities_above_min ops ->
  select_panics (run ops) = false /\ Permutation (select (run ops)) (pending ops).
Proof. exact select_is_permutation_proof. Qed.
Print Assumptions select_is_permutation_of_pending.

(** each sender's transactions in strictly increasing sequence-number order *)
Theorem select_nonce_order : forall ops s,
  unique_sender_nonce ops ->
  StronglySorted Z.lt (map tx_nonce (filter (from s) (select (run ops)))).
Proof. exact select_nonce_order_proof. Qed.
Print Assumptions select_nonce_order.

(** when [t] is yielded, no other sender's next available transaction has a higher priority *)
Theorem select_priority_dominates : forall ops,
  unique_sender_nonce ops -> priorities_above_min ops ->
  forall out1 t out2, select (run ops) = out1 ++ t :: out2 ->
  forall s' y, s' <> tx_sender t -> next_available s' out1 (pending ops) y -> tx_prio y <= tx_prio t.
Proof. exact select_priority_dominates_proof. Qed.
Print Assumptions select_priority_dominates.

(** CountTx() = number of pending transactions *)
Theorem count_eq_pending : forall ops,
  unique_sender_nonce ops -> count (run ops) = Z.of_nat (List.length (pending ops)).
Proof. exact count_eq_pending_proof. Qed.
Print Assumptions count_eq_pending.

(** a Select re-weights ties (it changes the state) but a repeated Select yields the same sequence *)
Theorem select_idempotent : forall ops,
  unique_sender_nonce ops -> select (run (ops ++ [Select])) = select (run ops).
Proof. exact select_idempotent_proof. Qed.
Print Assumptions select_idempotent.

(** single-message consensus, scheduler, evm (bridge-chain) and valset transactions rank in that
    order, above every other transaction whose CheckTx priority is below MaxInt64 - 3; stated over
    the table translated from NewDefaultTxPriority *)
Theorem priority_classes :
  map fst Gen.C19.priority_table =
    ["/palomachain.paloma.consensus."; "/palomachain.paloma.scheduler."; "/palomachain.paloma.evm."; "/palomachain.paloma.valset."]%string /\
  forall us1 a1 us2 a2 i, tx_class us1 = Some i ->
    match tx_class us2 with
    | Some j => ((i < j)%nat -> tx_priority us2 a2 < tx_priority us1 a1) /\ (i = j -> tx_priority us2 a2 = tx_priority us1 a1)
    | None => a2 < Gen.C19.max_int64 - 3 -> tx_priority us2 a2 < tx_priority us1 a1
    end.
Proof. exact priority_classes_proof. Qed.
Print Assumptions priority_classes.

(** the comparator shapes the model mirrors are what the source says now *)
Theorem index_order_as_modelled :
  Gen.C19.index_wrapper = "skiplist.LessThanFunc"%string /\
  Gen.C19.index_order = ["priority"; "weight"; "sender"; "nonce"]%string.
Proof. exact gen_index_order. Qed.
Print Assumptions index_order_as_modelled.

Theorem source_shapes_as_modelled :
  Gen.C19.sender_index_cmp = "skiplist.LessThanFunc: skiplist.Uint64.Compare(b.(txMeta[C]).nonce, a.(txMeta[C]).nonce)"%string /\
  Gen.C19.insert_writes = ["key = txMeta[C]{nonce: nonce, priority: priority, sender: sender}";
                           "mp.scores[sk] = txMeta[C]{priority: priority}"]%string /\
  Gen.C19.next_conds = ["i.priorityNode == nil"; "!ok"; "cursor == nil";
     "i.mempool.cfg.TxPriority.Compare(key.priority, i.nextPriority) < 0";
     "i.mempool.cfg.TxPriority.Compare(key.priority, i.nextPriority) == 0";
     "i.mempool.cfg.TxPriority.Compare(weight, i.priorityNode.Next().Key().(txMeta[C]).weight) < 0"]%string /\
  Gen.C19.iterate_conds = ["i.priorityNode == nil"; "i.priorityNode == nil"; "nextPriorityNode != nil"]%string /\
  Gen.C19.reorder_conds = ["for node != nil"; "mp.priorityCounts[key.priority] > 1"]%string /\
  Gen.C19.sender_weight_conds = ["senderCursor == nil"; "for senderCursor != nil"; "txPriority.Compare(p, weight) != 0"]%string /\
  Gen.C19.count_tx_body = "return mp.priorityIndex.Len()"%string /\
  Gen.C19.single_message_len = 1 /\ Gen.C19.min_value = - 2 ^ 63 /\ Gen.C19.max_int64 = 2 ^ 63 - 1.
Proof. exact gen_source_shapes. Qed.
Print Assumptions source_shapes_as_modelled.
