(** C19 — the application mempool yields every pending transaction exactly once (never a removed one),
    each sender's transactions in strictly increasing sequence order, a higher-priority sender's
    available transaction first, and CountTx equals the number of pending transactions — for all
    histories of Insert / Remove / Select.  Only statements closed by [exact]; proofs are in
    Mempool/PriorityNonceProofs.v.

    [run ops = fold_left step ops init] is the model state after the history (Select re-weights ties,
    so it is a state-changing step); [select st] is the sequence a Select(..).Next() walk yields in [st];
    [pending ops] is computed from the history alone.  Premises: [unique_sender_nonce] (the property's
    own premise) and [priorities_above_min] (priority > math.MinInt64; at MinInt64 the real iterator
    dereferences a nil node, which the model reproduces as [select_panics]). *)
From Coq Require Import List ZArith String Permutation Sorted.
From Paloma Require Import Mempool.PriorityNonce Mempool.PriorityNonceProofs Mempool.PriorityNonceApi Mempool.PriorityNonceApiProofs.
From Paloma Require Gen.C19.
Import ListNotations.
Open Scope Z_scope.

(** every pending transaction exactly once, never a removed one; the walk does not panic *)
Theorem select_is_permutation_of_pending : forall ops,
  unique_sender_nonce ops -> priorities_above_min ops ->
  select_panics (run ops) = false /\ Permutation (select (run ops)) (pending ops).
Proof. exact select_is_permutation_proof. Qed.
Print Assumptions select_is_permutation_of_pending.

(** each sender's transactions in strictly increasing sequence-number order *)
Theorem select_nonce_order : forall ops s,
  unique_sender_nonce ops ->
  StronglySorted Z.lt (map tx_nonce (filter (from s) (select (run ops)))).
Proof. exact select_nonce_order_proof. Qed.
Print Assumptions select_nonce_order.

(** when [t] is yielded, no other sender's next available transaction has a higher priority *)
Theorem select_priority_dominates : forall ops,
  unique_sender_nonce ops -> priorities_above_min ops ->
  forall out1 t out2, select (run ops) = out1 ++ t :: out2 ->
  forall s' y, s' <> tx_sender t -> next_available s' out1 (pending ops) y -> tx_prio y <= tx_prio t.
Proof. exact select_priority_dominates_proof. Qed.
Print Assumptions select_priority_dominates.

(** CountTx() = number of pending transactions *)
Theorem count_eq_pending : forall ops,
  unique_sender_nonce ops -> count (run ops) = Z.of_nat (List.length (pending ops)).
Proof. exact count_eq_pending_proof. Qed.
Print Assumptions count_eq_pending.

(** a Select re-weights ties (it changes the state) but a repeated Select yields the same sequence *)
Theorem select_idempotent : forall ops,
  unique_sender_nonce ops -> select (run (ops ++ [Select])) = select (run ops).
Proof. exact select_idempotent_proof. Qed.
Print Assumptions select_idempotent.

(** single-message consensus, scheduler, evm (bridge-chain) and valset transactions rank in that
    order, above every other transaction whose CheckTx priority is below MaxInt64 - 3; stated over
    the table translated from NewDefaultTxPriority *)
Theorem priority_classes :
  map fst Gen.C19.priority_table =
    ["/palomachain.paloma.consensus."; "/palomachain.paloma.scheduler."; "/palomachain.paloma.evm."; "/palomachain.paloma.valset."]%string /\
  forall us1 a1 us2 a2 i, tx_class us1 = Some i ->
    match tx_class us2 with
    | Some j => ((i < j)%nat -> tx_priority us2 a2 < tx_priority us1 a1) /\ (i = j -> tx_priority us2 a2 = tx_priority us1 a1)
    | None => a2 < Gen.C19.max_int64 - 3 -> tx_priority us2 a2 < tx_priority us1 a1
    end.
Proof. exact priority_classes_proof. Qed.
Print Assumptions priority_classes.

(** the comparator shapes the model mirrors are what the source says now *)
Theorem index_order_as_modelled :
  Gen.C19.index_wrapper = "skiplist.LessThanFunc"%string /\
  Gen.C19.index_order = ["priority"; "weight"; "sender"; "nonce"]%string.
Proof. exact gen_index_order. Qed.
Print Assumptions index_order_as_modelled.

Theorem source_shapes_as_modelled :
  Gen.C19.sender_index_cmp = "skiplist.LessThanFunc: skiplist.Uint64.Compare(b.(txMeta[C]).nonce, a.(txMeta[C]).nonce)"%string /\
  Gen.C19.insert_writes = ["key = txMeta[C]{nonce: nonce, priority: priority, sender: sender}";
                           "mp.scores[sk] = txMeta[C]{priority: priority}"]%string /\
  Gen.C19.next_conds = ["i.priorityNode == nil"; "!ok"; "cursor == nil";
     "i.mempool.cfg.TxPriority.Compare(key.priority, i.nextPriority) < 0";
     "i.mempool.cfg.TxPriority.Compare(key.priority, i.nextPriority) == 0";
     "i.mempool.cfg.TxPriority.Compare(weight, i.priorityNode.Next().Key().(txMeta[C]).weight) < 0"]%string /\
  Gen.C19.iterate_conds = ["i.priorityNode == nil"; "i.priorityNode == nil"; "nextPriorityNode != nil"]%string /\
  Gen.C19.reorder_conds = ["for node != nil"; "mp.priorityCounts[key.priority] > 1"]%string /\
  Gen.C19.sender_weight_conds = ["senderCursor == nil"; "for senderCursor != nil"; "txPriority.Compare(p, weight) != 0"]%string /\
  Gen.C19.count_tx_body = "return mp.priorityIndex.Len()"%string /\
  Gen.C19.single_message_len = 1 /\ Gen.C19.min_value = - 2 ^ 63 /\ Gen.C19.max_int64 = 2 ^ 63 - 1.
Proof. exact gen_source_shapes. Qed.
Print Assumptions source_shapes_as_modelled.


(** * Second round: the whole API, every configuration, every history *)

(** [runc c ops]: the state after a history under configuration [c] (MaxTx, TxReplacement rule);
    [pendc c ops]: the pending set computed from the history alone (an Insert is refused at MaxTx, a no-op
    for MaxTx < 0, and an Insert of a pending (sender, nonce) REPLACES it unless the rule refuses).
    [runc default_cfg = run] is the application's configuration; under the premise [pendc default_cfg = pending]. *)
Theorem default_configuration_is_run : forall ops,
  runc default_cfg ops = run ops /\ (unique_sender_nonce ops -> pending_latest ops = pending ops).
Proof. exact (fun ops => conj (runc_default ops) (pending_latest_unique ops)). Qed.
Print Assumptions default_configuration_is_run.

(** WITHOUT the premise, for every configuration: Select never yields a (sender, nonce) twice, never one
    that is not pending (removed, refused, never inserted), and each sender's in increasing sequence order *)
Theorem select_sound_any_history : forall c ops,
  NoDup (map tx_sn (select (runc c ops))) /\
  (forall t, In t (select (runc c ops)) -> In (tx_sn t) (map tx_sn (pendc c ops))) /\
  (forall s, StronglySorted Z.lt (map tx_nonce (filter (from s) (select (runc c ops))))).
Proof. exact select_sound_proof. Qed.
Print Assumptions select_sound_any_history.

(** ... but "every pending transaction is yielded" NEEDS the premise: re-inserting (1,5) with a higher
    priority leaves the old priority in the sender-index key and the transaction is never yielded *)
Theorem select_complete_without_premise_refuted :
  pending_latest dup_hidden_ops = [(2, 0, 50); (1, 5, 100)] /\
  count (run dup_hidden_ops) = 2 /\
  select (run dup_hidden_ops) = [(2, 0, 50)] /\ select_panics (run dup_hidden_ops) = false /\
  priorities_above_min dup_hidden_ops.
Proof. exact duplicate_insert_hides_tx_witness. Qed.
Print Assumptions select_complete_without_premise_refuted.

(** what the pool does when the premise is violated: the duplicate Insert replaces the index key, the score
    and the counts; the sender index is left as it was (old priority in its key) *)
Theorem duplicate_insert_behaviour : forall c ops s n p0 p1,
  In (s, n, p0) (pendc c ops) ->
  let st := runc c ops in let st' := insert s n p1 st in
  count st' = count st /\
  score_get s n (scores st') = (p1, 0) /\
  In (mkKey p1 0 s n) (pidx st') /\
  (forall k, In k (pidx st') -> k_sender k = s -> k_nonce k = n -> k = mkKey p1 0 s n) /\
  (forall k, (k_sender k, k_nonce k) <> (s, n) -> (In k (pidx st') <-> In k (pidx st))) /\
  sget s (sidx st') = sget s (sidx st) /\
  (exists q, In (n, q) (sget s (sidx st'))) /\
  (forall q, cnt_get q (pcounts st') = cnt_get q (pcounts st) - (if q =? p0 then 1 else 0) + (if q =? p1 then 1 else 0)).
Proof. exact (fun c ops s n p0 p1 H => duplicate_insert_st _ _ s n p0 p1 (GInv_runc c ops) H). Qed.
Print Assumptions duplicate_insert_behaviour.

(** CountTx = |pending| for every history and configuration; never above MaxTx; zero for MaxTx < 0 *)
Theorem count_and_capacity : forall c ops,
  count (runc c ops) = Z.of_nat (List.length (pendc c ops)) /\
  (0 < max_tx c -> count (runc c ops) <= max_tx c) /\
  (max_tx c < 0 -> count (runc c ops) = 0).
Proof. exact count_and_capacity_proof. Qed.
Print Assumptions count_and_capacity.

(** what Insert returns: ErrMempoolTxMaxCapacity iff the pool holds MaxTx transactions (also for a
    replacement), nil without effect for MaxTx < 0, the rule's error iff it refuses (old, new) priority *)
Theorem insert_outcome_from_history : forall c ops s n p,
  snd (insert_cfg c s n p (runc c ops)) = insert_outcome c (pendc c ops) s n p.
Proof. exact insert_outcome_proof. Qed.
Print Assumptions insert_outcome_from_history.

(** priorityCounts[q] = number of pending transactions of priority q (left undone in round one) *)
Theorem priority_counts_exact : forall c ops q, cnt_get q (pcounts (runc c ops)) = occ q (pendc c ops).
Proof. exact priority_counts_exact_proof. Qed.
Print Assumptions priority_counts_exact.

(** IsEmpty(..) == nil iff nothing is pending *)
Theorem is_empty_iff_no_pending : forall c ops, is_empty (runc c ops) = true <-> pendc c ops = [].
Proof. exact is_empty_proof. Qed.
Print Assumptions is_empty_iff_no_pending.

(** NextSenderTx: the sender's lowest pending sequence number; nil when the sender has nothing pending;
    a nil dereference only for a sender whose transactions were all removed and only if the source lacks
    the nil guard (the translated condition list decides [next_sender_nil_guard]) *)
Theorem next_sender_tx_spec : forall c ops s,
  match next_sender_tx s (runc c ops) with
  | NTx n => (exists q, In (s, n, q) (pendc c ops)) /\ forall t, In t (pendc c ops) -> tx_sender t = s -> n <= tx_nonce t
  | NNil => ~ sender_pending s (pendc c ops)
  | NPanic => ~ sender_pending s (pendc c ops) /\ next_sender_nil_guard = false
  end.
Proof. exact next_sender_tx_proof. Qed.
Print Assumptions next_sender_tx_spec.

Theorem next_sender_tx_total_with_guard : forall st s, next_sender_nil_guard = true -> next_sender_tx s st <> NPanic.
Proof. exact next_sender_guarded. Qed.
Print Assumptions next_sender_tx_total_with_guard.

Theorem next_sender_tx_unguarded_refuted :
  next_sender_nil_guard = false -> next_sender_tx 1 (run [Insert 1 0 5; Remove 1 0]) = NPanic.
Proof. exact next_sender_unguarded_witness. Qed.
Print Assumptions next_sender_tx_unguarded_refuted.

(** the iterator advanced one Next() at a time and iterated to the end (what baseapp's PrepareProposal
    does through mempool.SelectBy's fallback loop) is the sequence the round-one theorems speak about *)
Theorem iteration_stepwise_is_select : forall c ops,
  fst (it_open (runc c ops)) = fst (select_op (runc c ops)) /\
  collect (List.length (pendc c ops)) (fst (it_open (runc c ops))) (snd (it_open (runc c ops)))
    = (map tx_sn (select (runc c ops)), select_panics (runc c ops)).
Proof. exact iteration_eq_select_proof. Qed.
Print Assumptions iteration_stepwise_is_select.

(** iterator invalidation: the guarantees hold for an iteration that is not interleaved with Remove
    (the SDK handler removes only after its loop); interleaved, a pending transaction is skipped ... *)
Theorem interleaved_remove_truncates_refuted :
  (exists it, a_it (arun default_cfg (firstn 4 interleave_truncated)) = SAt it /\ it_tx it = (1, 0)) /\
  (exists it, a_it (arun default_cfg (firstn 6 interleave_truncated)) = SAt it /\ it_tx it = (2, 0)) /\
  a_it (arun default_cfg interleave_truncated) = SDone /\
  map key_tx (pidx (a_st (arun default_cfg interleave_truncated))) = [(1, 1, 9); (2, 0, 5)].
Proof. exact interleaved_remove_truncates_witness. Qed.
Print Assumptions interleaved_remove_truncates_refuted.

(** ... or Next() dereferences nil although every priority is above MinInt64 *)
Theorem interleaved_remove_panics_refuted :
  (exists it, a_it (arun default_cfg (firstn 4 interleave_panics)) = SAt it /\ it_tx it = (1, 0)) /\
  a_it (arun default_cfg interleave_panics) = SPanic.
Proof. exact interleaved_remove_panics_witness. Qed.
Print Assumptions interleaved_remove_panics_refuted.

(** why admission gives the premise: CheckTx admits (s, n) only when n is the check-state sequence of s and
    then increments it; if every Commit leaves the check-state sequence of each sender above all its
    sequence numbers still pending in the application pool, (sender, nonce) is unique among pending *)
Theorem admission_gives_unique_sender_nonce : forall l,
  resets_above_pending [] l -> unique_sender_nonce (adm_ops l).
Proof. exact admission_unique_proof. Qed.
Print Assumptions admission_gives_unique_sender_nonce.

(** the assumption is needed: a pending transaction that is not re-checked after a Commit *)
Theorem admission_without_recheck_refuted :
  adm_ops adm_norecheck = [Insert 0 0 5; Insert 0 1 5; Remove 0 0; Insert 0 1 9] /\
  ~ resets_above_pending [] adm_norecheck /\ ~ unique_sender_nonce (adm_ops adm_norecheck).
Proof. exact admission_without_recheck_witness. Qed.
Print Assumptions admission_without_recheck_refuted.

(** gates: the exported API of app/mempool (a new function or method breaks this), the configuration
    struct, OnRead never used, the configuration and wiring app/app.go installs, the pinned libraries *)
Theorem api_and_wiring_as_modelled :
  Gen.C19.exported_api = ["DefaultPriorityMempool"; "DefaultPriorityNonceMempoolConfig"; "IsEmpty"; "NewDefaultTxPriority";
    "NewPriorityMempool"; "PriorityNonceIterator.Next"; "PriorityNonceIterator.Tx"; "PriorityNonceMempool.CountTx";
    "PriorityNonceMempool.Insert"; "PriorityNonceMempool.NextSenderTx"; "PriorityNonceMempool.Remove";
    "PriorityNonceMempool.Select"]%string /\
  Gen.C19.config_fields = ["TxPriority TxPriority[C]"; "OnRead func(tx sdk.Tx)";
    "TxReplacement func(op, np C, oTx, nTx sdk.Tx) bool"; "MaxTx int"]%string /\
  Gen.C19.on_read_uses = [] /\
  Gen.C19.default_config_body = ["return PriorityNonceMempoolConfig[int64]{ TxPriority: NewDefaultTxPriority(), }"]%string /\
  Gen.C19.default_mempool_body = ["return NewPriorityMempool(DefaultPriorityNonceMempoolConfig())"]%string /\
  Gen.C19.app_wiring = ["bApp := baseapp.NewBaseApp(Name, logger, db, txConfig.TxDecoder(), baseAppOptions...)";
    "nonceMempool := palomamempool.DefaultPriorityMempool()";
    "abciPropHandler := baseapp.NewDefaultProposalHandler(nonceMempool, bApp)";
    "bApp.SetMempool(nonceMempool)";
    "bApp.SetPrepareProposal(abciPropHandler.PrepareProposalHandler())";
    "bApp.SetProcessProposal(abciPropHandler.ProcessProposalHandler())"]%string /\
  Gen.C19.library_pins = ["github.com/cometbft/cometbft v0.38.12"; "github.com/cosmos/cosmos-sdk v0.50.13";
    "github.com/huandu/skiplist v1.2.0"]%string.
Proof. exact gen_api_shapes. Qed.
Print Assumptions api_and_wiring_as_modelled.

(** every statement with an effect in Insert / Remove / reorderPriorityTies / Select / Tx (the first-signer
    extraction [sig := sigs[0]], the early exits, the writes) is textually what the model mirrors — the
    full lists are in the statement of [gen_api_effects]; NextSenderTx is the source as it is or with the nil guard *)
Theorem api_effects_as_modelled :
  (nth 5 Gen.C19.insert_effects "" = "sig := sigs[0]" /\ nth 3 Gen.C19.remove_effects "" = "sig := sigs[0]" /\
   nth 8 Gen.C19.insert_effects "" = "nonce := sig.Sequence" /\
   nth 6 Gen.C19.insert_effects "" = "sender := sdk.AccAddress(sig.PubKey.Address()).String()")%string /\
  Gen.C19.insert_conds = ["mp.cfg.MaxTx > 0 && mp.CountTx() >= mp.cfg.MaxTx"; "mp.cfg.MaxTx < 0"; "err != nil"; "len(sigs) == 0"; "!ok";
    "txExists"; "mp.cfg.TxReplacement != nil && !mp.cfg.TxReplacement(oldScore.priority, priority, senderIndex.Get(key).Value.(sdk.Tx), tx)"]%string /\
  Gen.C19.remove_conds = ["err != nil"; "len(sigs) == 0"; "!ok"; "!ok"]%string /\
  Gen.C19.select_conds = ["mp.priorityIndex.Len() == 0"]%string /\
  Gen.C19.is_empty_conds = ["mp.priorityIndex.Len() != 0"; "mp.priorityCounts[k] != 0"; "mp.senderIndices[k].Len() != 0"]%string /\
  Gen.C19.tx_effects = ["return i.senderCursors[i.sender].Value.(sdk.Tx)"]%string /\
  List.length Gen.C19.insert_effects = 23%nat /\ List.length Gen.C19.remove_effects = 17%nat /\
  List.length Gen.C19.reorder_effects = 10%nat /\ List.length Gen.C19.select_effects = 4%nat.
Proof. exact gen_api_effects_summary. Qed.
Print Assumptions api_effects_as_modelled.

Theorem next_sender_tx_as_modelled :
  (Gen.C19.next_sender_tx_conds = ["!ok"]%string /\
   Gen.C19.next_sender_tx_effects = ["senderIndex, ok := mp.senderIndices[sender]"; "return nil"; "cursor := senderIndex.Front()";
     "return cursor.Value.(sdk.Tx)"]%string /\ next_sender_nil_guard = false) \/
  (Gen.C19.next_sender_tx_conds = ["!ok"; "cursor == nil"]%string /\
   Gen.C19.next_sender_tx_effects = ["senderIndex, ok := mp.senderIndices[sender]"; "return nil"; "cursor := senderIndex.Front()";
     "return nil"; "return cursor.Value.(sdk.Tx)"]%string /\ next_sender_nil_guard = true).
Proof. exact gen_next_sender_tx. Qed.
Print Assumptions next_sender_tx_as_modelled.

(** the priority function AS WIRED: app.go hands the SDK ante handler [TxFeeChecker: palomamodule.TxFeeSkipper],
    which gives every transaction the CheckTx priority 42 (translated); hence, in the application, a
    single-message consensus / scheduler / evm / valset transaction ranks strictly above every other
    transaction, unconditionally (the side condition of [priority_classes] is discharged), and priorities
    are above MinInt64 (the guard [priorities_above_min] holds for every admitted transaction) *)
Theorem app_priority_classes :
  Gen.C19.app_tx_fee_checker = "palomamodule.TxFeeSkipper"%string /\
  Gen.C19.app_check_tx_priority < Gen.C19.max_int64 - 3 /\ min_value < Gen.C19.app_check_tx_priority /\
  forall us1 us2 i, tx_class us1 = Some i ->
    match tx_class us2 with
    | Some j => ((i < j)%nat -> tx_priority us2 Gen.C19.app_check_tx_priority < tx_priority us1 Gen.C19.app_check_tx_priority) /\
                (i = j -> tx_priority us2 Gen.C19.app_check_tx_priority = tx_priority us1 Gen.C19.app_check_tx_priority)
    | None => tx_priority us2 Gen.C19.app_check_tx_priority = Gen.C19.app_check_tx_priority /\
              tx_priority us2 Gen.C19.app_check_tx_priority < tx_priority us1 Gen.C19.app_check_tx_priority
    end.
Proof. exact app_priority_classes_proof. Qed.
Print Assumptions app_priority_classes.

(** a positive guarantee UNDER interleaving (any configuration, any Insert / Remove between two Next()): the
    transaction an iterator movement (Select or Next) arrives at is pending at that moment — the iterator may
    skip pending transactions or stop early (witnesses above), it never hands out a removed one.
    [aproj] maps the API history to the Insert / Remove / Select history that defines the pending set. *)
Theorem interleaved_yield_is_pending : forall c ops o it,
  o = AOpen \/ o = ANext ->
  (o = ANext -> exists it0, a_it (arun c ops) = SAt it0) ->
  a_it (arun c (ops ++ [o])) = SAt it ->
  In (it_tx it) (map tx_sn (pendc c (flat_map aproj (ops ++ [o])))).
Proof. exact interleaved_yield_is_pending_proof. Qed.
Print Assumptions interleaved_yield_is_pending.
