(** C03 — only the principal (or governance) can change state held in its name.
    Statements only; proofs in Auth/AnteProofs.v and Auth/AnteTable.v. The table [Gen.C03.specs]
    is regenerated from the Go sources of every msg server on every check. *)
From Coq Require Import List ZArith String Bool.
From Paloma Require Import Auth.Discipline Auth.Ante Auth.AnteProofs Auth.AnteTable Auth.Objects Auth.ObjectsProofs Auth.Index.
From Paloma Require Gen.C03.
Import ListNotations.
Open Scope Z_scope.

(** The decorator lets a message with metadata through only if a (verified) signer is its creator
    or holds a fee grant from its creator. *)
Theorem ante_sound : forall g spec m,
  ms_has_meta spec = true -> ante_msg g spec m = true ->
  exists sg, In sg (m_meta_signers m) /\ (sg = m_creator m \/ granted g (m_creator m) sg = true).
Proof. exact ante_sound_lemma. Qed.
Print Assumptions ante_sound.

(** ... and rejects every message none of whose signers is the creator or its grantee. *)
Theorem ante_rejects_stranger : forall g spec m,
  ms_has_meta spec = true ->
  (forall sg, In sg (m_meta_signers m) -> sg <> m_creator m /\ granted g (m_creator m) sg = false) ->
  ante_msg g spec m = false.
Proof. exact ante_rejects_stranger_lemma. Qed.
Print Assumptions ante_rejects_stranger.

(** The decorator's per-message loop carries no state between the messages of a transaction
    (which variables are declared outside the loop and used inside is extracted from the Go AST). *)
Theorem decorator_loop_stateless : Gen.C03.ante_lookup_carried = false.
Proof. exact decorator_loop_stateless_lemma. Qed.
Print Assumptions decorator_loop_stateless.

(** ante_sound per message of a multi-message transaction (nested authz.MsgExec messages
    flattened in): the decorator as the code has it accepts the transaction only if EVERY message
    with metadata has, among ITS OWN signers, its creator or a fee-grantee of ITS creator. *)
Theorem ante_tx_sound : forall g tx, ante_tx Gen.C03.ante_lookup_carried g tx = true ->
  forall spec m, In (spec, m) tx -> ms_has_meta spec = true ->
  exists sg, In sg (m_meta_signers m) /\ (sg = m_creator m \/ granted g (m_creator m) sg = true).
Proof. exact table_ante_tx_sound. Qed.
Print Assumptions ante_tx_sound.

(** Why the loop shape is pinned: a lookup table carried across iterations makes the decorator
    accept a message none of whose signers is authorised by its creator. *)
Theorem ante_carry_refuted :
  exists g tx spec m, ante_tx true g tx = true /\ In (spec, m) tx /\ ms_has_meta spec = true /\
    forall sg, In sg (m_meta_signers m) -> sg <> m_creator m /\ granted g (m_creator m) sg = false.
Proof. exact ante_carry_refuted_lemma. Qed.
Print Assumptions ante_carry_refuted.

(** Whole transactions (decorator over all messages, then all handlers, all-or-nothing): whatever
    held in p's name changed, some message OF THE TRANSACTION was authorised by p. *)
Theorem tx_no_cross_principal : forall auth g tx s s',
  (forall spec m, In (spec, m) tx -> In spec Gen.C03.specs /\ spec_named known_open spec = false) ->
  deliver_tx Gen.C03.ante_lookup_carried auth g tx s = Done s' ->
  forall p, get (owned s') p <> get (owned s) p ->
  exists spec m, In (spec, m) tx /\ authorised auth g spec m p.
Proof. exact table_tx_no_cross_principal. Qed.
Print Assumptions tx_no_cross_principal.

(** Every message type of the generated table carries metadata: the decorator skips none. *)
Theorem every_message_has_metadata : forallb ms_has_meta Gen.C03.specs = true.
Proof. exact table_all_have_metadata. Qed.
Print Assumptions every_message_has_metadata.

(** The per-run obligation over the generated handler table: every row of every message type is
    bound to the signer the way its discipline needs (no Unguarded row, creator-bound rows only on
    metadata-signed messages, authority rows backed by the authority check on the signing field),
    except the message types named in [known_open] (findings/C03.jsonl). *)
Theorem auth_table_closed : forallb closed_or_known Gen.C03.specs = true.
Proof. exact auth_table_closed_lemma. Qed.
Print Assumptions auth_table_closed.

(** For every message type of the generated table (outside [known_open]), every signer set,
    claimed creator, named principals, grants and state: if the delivery (decorator ;; handler)
    succeeds and anything held in p's name differs afterwards, then p authorised the message —
    it is the creator and a verified signer is the creator or its fee-grantee, or it is the
    authority and the authority's own signature was verified, or the message carries p's
    external-chain signature over the exact item. *)
Theorem no_cross_principal_effect : forall spec, In spec Gen.C03.specs -> spec_named known_open spec = false ->
  forall auth g m s s', deliver auth g spec m s = Done s' ->
  forall p, get (owned s') p <> get (owned s) p -> authorised auth g spec m p.
Proof. exact table_no_cross_principal_effect. Qed.
Print Assumptions no_cross_principal_effect.

(** The same for ANY handler over ANY state that obeys the discipline its table entry declares
    (guards hold on success; every principal whose attributed state differs is the target of a row). *)
Theorem no_cross_principal_effect_generic :
  forall (auth : principal) (spec : msgspec) (St : Type) (attributed : St -> principal -> Z)
         (handler : msg -> St -> option St),
  (forall m s s', handler m s = Some s' ->
     forallb (guard_ok auth m) (ms_rows spec) = true /\
     forall p, attributed s' p <> attributed s p ->
       exists r, In r (ms_rows spec) /\ target auth m r = Some (true, p)) ->
  forall g m s s', spec_ok spec = true -> ante_msg g spec m = true -> handler m s = Some s' ->
  forall p, attributed s' p <> attributed s p -> authorised auth g spec m p.
Proof. exact generic_no_cross_principal_effect. Qed.
Print Assumptions no_cross_principal_effect_generic.

(** Over every history of deliveries of messages of the table — any interleaving of message
    types, signers, creators, named principals and grant sets: a principal that authorised none of
    them finds everything held in its name unchanged. *)
Theorem history_no_cross_principal : forall auth ops s p,
  (forall g spec m, In (g, spec, m) ops ->
     In spec Gen.C03.specs /\ spec_named known_open spec = false /\ ~ authorised auth g spec m p) ->
  get (owned (run auth ops s)) p = get (owned s) p.
Proof. exact table_history_no_cross_principal. Qed.
Print Assumptions history_no_cross_principal.

(** What a principal merely receives arrives only through a reviewed Beneficiary field naming it. *)
Theorem inbox_only_via_beneficiary : forall auth g spec m s s',
  deliver auth g spec m s = Done s' ->
  forall p, get (inbox s') p <> get (inbox s) p ->
  exists f, In (f, Beneficiary) (ms_rows spec) /\ field auth m f = Some p.
Proof. exact inbox_only_via_beneficiary_lemma. Qed.
Print Assumptions inbox_only_via_beneficiary.

(** The table obligation is necessary: a handler with an Unguarded row lets an account change
    state of a principal that authorised nothing (the shape of F3 before the fixes). *)
Theorem unguarded_row_exploitable : forall name f,
  f <> creator_field -> f <> gov_field ->
  let spec := MkSpec name SignMetadata true [(creator_field, Unused); (f, Unguarded)] in
  exists auth g m s s' p,
    deliver auth g spec m s = Done s' /\ get (owned s') p <> get (owned s) p /\ ~ authorised auth g spec m p.
Proof. exact unguarded_row_exploitable_lemma. Qed.
Print Assumptions unguarded_row_exploitable.

(** Known finding (not fixed): evm RemoveSmartContractDeployment has no guard at all — the clause
    is refuted for it, with a witness replayed on the real msg server (corpus). *)
Theorem evm_remove_deployment_refuted :
  exists auth g m s s', deliver auth g evm_remove_deployment_spec m s = Done s' /\
    get (owned s') auth <> get (owned s) auth /\ ~ authorised auth g evm_remove_deployment_spec m auth.
Proof. exact evm_remove_deployment_refuted_lemma. Qed.
Print Assumptions evm_remove_deployment_refuted.

(** ---- second round: state rewritten by NON-MESSAGE paths, and indexes keyed by what the sender chooses ---- *)

(** Per-run obligation over the index-write rows extracted from every handler: a write whose key the
    sender chooses is preceded by a guard of the reviewed kind that is keyed by (at least) the key of
    the index that is written — an absent-guard on the same index, an owner-guard on the object, the
    authority guard, or the entry lives under the creator. *)
Theorem index_writes_guarded : forallb (idx_ok Gen.C03.specs known_open) Gen.C03.index_rows = true.
Proof. exact index_writes_guarded_lemma. Qed.
Print Assumptions index_writes_guarded.

(** The duplicate-binding lookup of skyway SetERC20ToTokenDenom is keyed by the ERC20 contract, the
    key of the index the handler writes (extracted from the Go AST). *)
Theorem bind_guard_on_written_index : guard_on_written_index Gen.C03.code_shape = true.
Proof. exact bind_guard_on_written_index_lemma. Qed.
Print Assumptions bind_guard_on_written_index.

(** tokenfactory InitGenesis writes the exported admin AFTER createDenomAfterValidation (which writes
    the creator): the last write per denom is the exported authority metadata (extracted). *)
Theorem tf_import_admin_last : import_admin_last Gen.C03.code_shape = true.
Proof. exact tf_import_admin_last_lemma. Qed.
Print Assumptions tf_import_admin_last.

(** ExportGenesis -> InitGenesis of tokenfactory, as the code has it, is the identity on "who
    administers which denom", for every state. *)
Theorem genesis_roundtrip_preserves_admin : forall s d,
  admin_of (tf_roundtrip Gen.C03.code_shape s) d = admin_of s d.
Proof. exact table_genesis_preserves_admin. Qed.
Print Assumptions genesis_roundtrip_preserves_admin.

(** Over every history of object operations — any interleaving of denom creations, admin changes,
    mints, ERC20 bindings by token admins and by governance, transfers, cancellations and GENESIS
    ROUND TRIPS — in which principal q signs nothing: every denom q administers is still q's. *)
Theorem objects_history_admin_kept : forall auth ops s q,
  (forall op, In op ops -> signer auth op <> Some q) ->
  forall d, admin_of s d = Some q -> admin_of (orun Gen.C03.code_shape ops s) d = Some q.
Proof. exact table_objects_history_admin. Qed.
Print Assumptions objects_history_admin_kept.

(** ... every LIVE ERC20 binding (forward entry denom -> erc20 with its reverse entry) of a denom that
    q administers survives unchanged unless q or the governance authority signs: no other token
    admin's correctly self-signed message alters it, and no genesis round trip of tokenfactory or of
    skyway (which rebuilds the reverse index from the forward one, in whatever export order).
    [bindings_consistent]: the forward index is injective and contained in the reverse index — it
    holds initially and after every step governance does not sign ([bindings_consistent_kept]). *)
Theorem objects_history_binding_kept : forall auth ops s q d e,
  bindings_consistent s ->
  (forall op, In op ops -> signer auth op <> Some auth /\ signer auth op <> Some q) ->
  admin_of s d = Some q -> d2e s d = Some e ->
  admin_of (orun Gen.C03.code_shape ops s) d = Some q /\ d2e (orun Gen.C03.code_shape ops s) d = Some e /\
  e2d (orun Gen.C03.code_shape ops s) e = Some d.
Proof. exact table_objects_history_live_binding. Qed.
Print Assumptions objects_history_binding_kept.

(** ... and governance's bindings of native denoms are altered by nobody but governance. *)
Theorem objects_history_native_binding_kept : forall auth ops s d e,
  bindings_consistent s ->
  (forall op, In op ops -> signer auth op <> Some auth) ->
  fst d = 0 -> admin_of s d = None -> d2e s d = Some e ->
  d2e (orun Gen.C03.code_shape ops s) d = Some e /\ e2d (orun Gen.C03.code_shape ops s) e = Some d.
Proof. exact table_objects_history_native_binding. Qed.
Print Assumptions objects_history_native_binding_kept.

Theorem bindings_consistent_kept : forall auth s op s' b,
  ostep Gen.C03.code_shape s op = (s', b) -> signer auth op <> Some auth -> bindings_consistent s -> bindings_consistent s'.
Proof. intros auth s op s' b. exact (bindings_consistent_step _ auth s op s' b bind_guard_on_written_index_lemma). Qed.
Print Assumptions bindings_consistent_kept.

Theorem bindings_consistent_initially : bindings_consistent init_env1.
Proof. exact bindings_consistent_init1. Qed.
Print Assumptions bindings_consistent_initially.

(** ... and every pending transfer of p is still pending in p's name unless p signs (ids are handed
    out by a counter: [wf_ids], an invariant of every history from the initial state). *)
Theorem objects_history_pending_kept : forall auth ops s p,
  wf_ids s ->
  (forall op, In op ops -> signer auth op <> Some p) ->
  forall tx e, pend s tx = Some (p, e) -> pend (orun Gen.C03.code_shape ops s) tx = Some (p, e).
Proof. exact table_objects_history_pending. Qed.
Print Assumptions objects_history_pending_kept.

Theorem objects_ids_invariant : forall sh ops, wf_ids (orun sh ops init_env1).
Proof. intros. apply wf_ids_run. exact wf_ids_init1. Qed.
Print Assumptions objects_ids_invariant.

(** Why the two shapes are pinned. The duplicate-binding guard reading the other index (denom ->
    erc20): the admin of a fresh denom of its own overwrites governance's binding. *)
Theorem bind_guard_wrong_index_refuted :
  let sh := MkShape ["ChainReferenceId"; "Denom"]%string ["createDenomAfterValidation"; "setAuthorityMetadata"]%string in
  exists auth s p s',
    p <> auth /\ e2d s 1 = Some (0, 1) /\
    ostep sh s (OBind p p 3 1 true) = (s', true) /\ signer auth (OBind p p 3 1 true) <> Some auth /\
    e2d s' 1 = Some (p, 3).
Proof. exact bind_guard_wrong_index_refuted_lemma. Qed.
Print Assumptions bind_guard_wrong_index_refuted.

(** InitGenesis writing the exported admin before createDenomAfterValidation: a genesis round trip
    (no message at all) hands a denom back to its creator b although c administers it. *)
Theorem genesis_admin_first_refuted :
  let sh := MkShape ["ChainReferenceId"; "Erc20"]%string ["setAuthorityMetadata"; "createDenomAfterValidation"]%string in
  exists auth ops s d b c,
    b <> c /\ (forall op, In op ops -> signer auth op <> Some c /\ signer auth op <> Some b) /\
    admin_of s d = Some c /\ admin_of (orun sh ops s) d = Some b.
Proof. exact genesis_admin_first_refuted_lemma. Qed.
Print Assumptions genesis_admin_first_refuted.

(** ---- third round: CosmWasm custom-message entry points (libwasm router -> bindings) ---- *)

(** Per-run obligation over the binding table extracted from x/<module>/bindings: no identity-bearing
    body field reaches a keeper unguarded; beneficiaries are the reviewed ones; the contract address is
    what the keepers act for. *)
Theorem wasm_table_closed : forallb spec_ok Gen.C03.wasm_specs = true.
Proof. exact wasm_table_closed_lemma. Qed.
Print Assumptions wasm_table_closed.

(** For every binding, contract, body, and state: if the dispatch succeeds and anything held in p's
    name differs afterwards, p is the dispatching contract (the principal wasmd authenticated). *)
Theorem wasm_dispatch_only_contract : forall spec, In spec Gen.C03.wasm_specs ->
  forall auth g m s s', m_ext m = [] -> deliver auth g spec m s = Done s' ->
  forall p, get (owned s') p <> get (owned s) p -> p = m_creator m.
Proof. exact wasm_dispatch_only_contract_lemma. Qed.
Print Assumptions wasm_dispatch_only_contract.

(** ---- fourth round: nesting of ANY depth ---- *)

(** A transaction is a forest of messages nested in authz.MsgExec to any depth. With the decorator as
    the code has it (flattenMsgs: recursive, limit [Gen.C03.max_nested_depth] extracted, refusal before
    the level beyond the limit is looked at), an accepted transaction has EVERY message, at whatever
    depth, authorised by its own signers: a message is either checked or the transaction is refused. *)
Theorem ante_nested_sound : forall g tx,
  ante_nested Gen.C03.ante_lookup_carried Gen.C03.max_nested_depth g tx = true ->
  forall top spec m, In top tx -> occurs (spec, m) top -> ms_has_meta spec = true ->
  exists sg, In sg (m_meta_signers m) /\ (sg = m_creator m \/ granted g (m_creator m) sg = true).
Proof. exact table_ante_nested_sound. Qed.
Print Assumptions ante_nested_sound.

(** ... and anything wrapped deeper than the limit is refused, whatever it is. *)
Theorem nested_beyond_limit_refused : forall carry lim g d m, (lim < d)%nat ->
  ante_nested carry lim g [wrap d m] = false.
Proof. intros carry lim g d m H. unfold ante_nested. cbn [flat_list]. rewrite flat_wrap_beyond by exact H. reflexivity. Qed.
Print Assumptions nested_beyond_limit_refused.

(** ---- seventh round ---- *)

(** The decorator holds nothing but the feegrant keeper (struct fields and package-level variables of
    x/paloma/ante.go inventoried on every run): it cannot remember a grant that the store no longer has. *)
Theorem decorator_has_no_memory : Gen.C03.decorator_extra_fields = [].
Proof. exact decorator_has_no_memory_lemma. Qed.
Print Assumptions decorator_has_no_memory.

(** A token denom whose admin role was renounced is never administered again, over every history
    (creations of the same subdenom, admin changes, genesis round trips included). *)
Theorem renounced_stays_renounced : forall auth ops s d,
  (forall op, In op ops -> signer auth op <> Some 0) ->
  admin_of s d = Some 0 -> admin_of (orun Gen.C03.code_shape ops s) d = Some 0.
Proof. exact renounced_stays_renounced_lemma. Qed.
Print Assumptions renounced_stays_renounced.
