(** C03 — only the principal (or governance) can change state held in its name.
    Statements only; proofs in Auth/AnteProofs.v and Auth/AnteTable.v. The table [Gen.C03.specs]
    is regenerated from the Go sources of every msg server on every check. *)
From Coq Require Import List ZArith String Bool.
From Paloma Require Import Auth.Discipline Auth.Ante Auth.AnteProofs Auth.AnteTable.
From Paloma Require Gen.C03.
Import ListNotations.
Open Scope Z_scope.

(** The decorator lets a message with metadata through only if a (verified) signer is its creator
    or holds a fee grant from its creator. *)
Theorem ante_sound : forall g spec m,
  ms_has_meta spec = true -> ante_msg g spec m = true ->
  exists sg, In sg (m_meta_signers m) /\ (sg = m_creator m \/ granted g (m_creator m) sg = true).
Proof. exact ante_sound_lemma. Qed.
Print Assumptions ante_sound.

(** ... and rejects every message none of whose signers is the creator or its grantee. *)
Theorem ante_rejects_stranger : forall g spec m,
  ms_has_meta spec = true ->
  (forall sg, In sg (m_meta_signers m) -> sg <> m_creator m /\ granted g (m_creator m) sg = false) ->
  ante_msg g spec m = false.
Proof. exact ante_rejects_stranger_lemma. Qed.
Print Assumptions ante_rejects_stranger.

(** The decorator's per-message loop carries no state between the messages of a transaction
    (which variables are declared outside the loop and used inside is extracted from the Go AST). *)
Theorem decorator_loop_stateless : Gen.C03.ante_lookup_carried = false.
Proof. exact decorator_loop_stateless_lemma. Qed.
Print Assumptions decorator_loop_stateless.

(** ante_sound per message of a multi-message transaction (nested authz.MsgExec messages
    flattened in): the decorator as the code has it accepts the transaction only if EVERY message
    with metadata has, among ITS OWN signers, its creator or a fee-grantee of ITS creator. *)
Theorem ante_tx_sound : forall g tx, ante_tx Gen.C03.ante_lookup_carried g tx = true ->
  forall spec m, In (spec, m) tx -> ms_has_meta spec = true ->
  exists sg, In sg (m_meta_signers m) /\ (sg = m_creator m \/ granted g (m_creator m) sg = true).
Proof. exact table_ante_tx_sound. Qed.
Print Assumptions ante_tx_sound.

(** Why the loop shape is pinned: a lookup table carried across iterations makes the decorator
    accept a message none of whose signers is authorised by its creator. *)
Theorem ante_carry_refuted :
  exists g tx spec m, ante_tx true g tx = true /\ In (spec, m) tx /\ ms_has_meta spec = true /\
    forall sg, In sg (m_meta_signers m) -> sg <> m_creator m /\ granted g (m_creator m) sg = false.
Proof. exact ante_carry_refuted_lemma. Qed.
Print Assumptions ante_carry_refuted.

(** Whole transactions (decorator over all messages, then all handlers, all-or-nothing): whatever
    held in p's name changed, some message OF THE TRANSACTION was authorised by p. *)
Theorem tx_no_cross_principal : forall auth g tx s s',
  (forall spec m, In (spec, m) tx -> In spec Gen.C03.specs /\ spec_named known_open spec = false) ->
  deliver_tx Gen.C03.ante_lookup_carried auth g tx s = Done s' ->
  forall p, get (owned s') p <> get (owned s) p ->
  exists spec m, In (spec, m) tx /\ authorised auth g spec m p.
Proof. exact table_tx_no_cross_principal. Qed.
Print Assumptions tx_no_cross_principal.

(** Every message type of the generated table carries metadata: the decorator skips none. *)
Theorem every_message_has_metadata : forallb ms_has_meta Gen.C03.specs = true.
Proof. exact table_all_have_metadata. Qed.
Print Assumptions every_message_has_metadata.

(** The per-run obligation over the generated handler table: every row of every message type is
    bound to the signer the way its discipline needs (no Unguarded row, creator-bound rows only on
    metadata-signed messages, authority rows backed by the authority check on the signing field),
    except the message types named in [known_open] (findings/C03.jsonl). *)
Theorem auth_table_closed : forallb closed_or_known Gen.C03.specs = true.
Proof. exact auth_table_closed_lemma. Qed.
Print Assumptions auth_table_closed.

(** For every message type of the generated table (outside [known_open]), every signer set,
    claimed creator, named principals, grants and state: if the delivery (decorator ;; handler)
    succeeds and anything held in p's name differs afterwards, then p authorised the message —
    it is the creator and a verified signer is the creator or its fee-grantee, or it is the
    authority and the authority's own signature was verified, or the message carries p's
    external-chain signature over the exact item. *)
Theorem no_cross_principal_effect : forall spec, In spec Gen.C03.specs -> spec_named known_open spec = false ->
  forall auth g m s s', deliver auth g spec m s = Done s' ->
  forall p, get (owned s') p <> get (owned s) p -> authorised auth g spec m p.
Proof. exact table_no_cross_principal_effect. Qed.
Print Assumptions no_cross_principal_effect.

(** The same for ANY handler over ANY state that obeys the discipline its table entry declares
    (guards hold on success; every principal whose attributed state differs is the target of a row). *)
Theorem no_cross_principal_effect_generic :
  forall (auth : principal) (spec : msgspec) (St : Type) (attributed : St -> principal -> Z)
         (handler : msg -> St -> option St),
  (forall m s s', handler m s = Some s' ->
     forallb (guard_ok auth m) (ms_rows spec) = true /\
     forall p, attributed s' p <> attributed s p ->
       exists r, In r (ms_rows spec) /\ target auth m r = Some (true, p)) ->
  forall g m s s', spec_ok spec = true -> ante_msg g spec m = true -> handler m s = Some s' ->
  forall p, attributed s' p <> attributed s p -> authorised auth g spec m p.
Proof. exact generic_no_cross_principal_effect. Qed.
Print Assumptions no_cross_principal_effect_generic.

(** Over every history of deliveries of messages of the table — any interleaving of message
    types, signers, creators, named principals and grant sets: a principal that authorised none of
    them finds everything held in its name unchanged. *)
Theorem history_no_cross_principal : forall auth ops s p,
  (forall g spec m, In (g, spec, m) ops ->
     In spec Gen.C03.specs /\ spec_named known_open spec = false /\ ~ authorised auth g spec m p) ->
  get (owned (run auth ops s)) p = get (owned s) p.
Proof. exact table_history_no_cross_principal. Qed.
Print Assumptions history_no_cross_principal.

(** What a principal merely receives arrives only through a reviewed Beneficiary field naming it. *)
Theorem inbox_only_via_beneficiary : forall auth g spec m s s',
  deliver auth g spec m s = Done s' ->
  forall p, get (inbox s') p <> get (inbox s) p ->
  exists f, In (f, Beneficiary) (ms_rows spec) /\ field auth m f = Some p.
Proof. exact inbox_only_via_beneficiary_lemma. Qed.
Print Assumptions inbox_only_via_beneficiary.

(** The table obligation is necessary: a handler with an Unguarded row lets an account change
    state of a principal that authorised nothing (the shape of F3 before the fixes). *)
Theorem unguarded_row_exploitable : forall name f,
  f <> creator_field -> f <> gov_field ->
  let spec := MkSpec name SignMetadata true [(creator_field, Unused); (f, Unguarded)] in
  exists auth g m s s' p,
    deliver auth g spec m s = Done s' /\ get (owned s') p <> get (owned s) p /\ ~ authorised auth g spec m p.
Proof. exact unguarded_row_exploitable_lemma. Qed.
Print Assumptions unguarded_row_exploitable.

(** Known finding (not fixed): evm RemoveSmartContractDeployment has no guard at all — the clause
    is refuted for it, with a witness replayed on the real msg server (corpus). *)
Theorem evm_remove_deployment_refuted :
  exists auth g m s s', deliver auth g evm_remove_deployment_spec m s = Done s' /\
    get (owned s') auth <> get (owned s) auth /\ ~ authorised auth g evm_remove_deployment_spec m auth.
Proof. exact evm_remove_deployment_refuted_lemma. Qed.
Print Assumptions evm_remove_deployment_refuted.
