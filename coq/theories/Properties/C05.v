(** C05 -- what validators sign binds the whole message; message ids are never reused.
    Only statements closed by [exact]; proofs in Base/AbiProofs.v, Evm/SignBytesProofs.v,
    Evm/MsgIdsProofs.v. *)
From Coq Require Import List ZArith Bool.
From Coq Require Import Strings.Byte.
From Paloma Require Import Base.Abi Base.AbiProofs Evm.SignFields Evm.SignBytes Evm.SignBytesProofs.
From Paloma Require Gen.C05.
Import ListNotations.
Open Scope Z_scope.

Theorem delivered_subset_signed : forall k, via_bridge_contract k = true ->
  incl (delivered_fields k) (bound_fields k).
Proof. exact delivered_subset_signed_all. Qed.
Print Assumptions delivered_subset_signed.
