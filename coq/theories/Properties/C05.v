(** C05 -- what validators sign binds the whole message; message ids are never reused.
    Only statements closed by [exact]; proofs in Base/AbiProofs.v, Evm/SignBytesProofs.v,
    Evm/MsgIdsProofs.v.

    Reading aid.
    [enc v] is go-ethereum's ABI encoding (abi.Arguments.Pack) of the value [v]; [typed t v] says v
    is a value of ABI type t.  An [item] is a queued cross-chain message (five actions) or a skyway
    batch with the values the Go code reads.  [sign_bytes keccak it] is what
    QueuedSignedMessage.GetBytesToSign / OutgoingTxBatch.GetCheckpoint return:
    keccak(selector ++ enc(args)), the argument list, ABI signature and selector of each action being
    the ones TRANSLATED from the source (Gen/C05.v: abi.Arguments literals and Pack(...) arguments of
    turnstone_abi.go / batch.go); for a valset update the first argument is the keccak of an inner
    checkpoint(...) pre-image.  [fval it f] is the ABI value the code puts in the slot of field [f]:
    the EFFECTIVE value the remote contract is handed (estimate 0 reads as the default 300000, nil
    fees as the default fees, ids / powers / nonces go through Go's int64 cast and two's complement,
    the turnstone id is a right-padded bytes32, the fee payer a left-padded one, addresses are the
    20 bytes HexToAddress yields).  [delivered_fields k] are the arguments of
    contractABI.Pack("<method>", consensus, ...) in eth_txable.go (translated), for a batch the
    arguments of submit_batch.  [keccak] is ANY function with 32-byte output: no injectivity is
    assumed, the conclusions carry the explicit collision disjunct.
    Ids: [run ops] is the state of one consensus keeper after the history [ops] of Put /
    Put-with-MsgIDToReplace / Remove over any number of queues; [allocated_ids ops] the ids handed
    out, in order. *)
From Coq Require Import String List ZArith Bool Sorted.
From Coq Require Import Strings.Byte.
From Paloma Require Import Base.Abi Base.AbiProofs Evm.SignFields Evm.SignBytes Evm.SignBytesProofs
  Evm.MsgIds Evm.MsgIdsProofs.
From Paloma Require Gen.C05.
Import ListNotations.
Open Scope Z_scope.

(** The ABI encoding is injective on well-typed values of one type -- general: nested tuples,
    dynamic arrays of dynamic tuples, bytes; and even when followed by arbitrary further bytes. *)
Theorem abi_enc_injective : forall t v v', typed t v -> typed t v' -> enc v = enc v' -> v = v'.
Proof. exact AbiProofs.abi_enc_injective. Qed.
Print Assumptions abi_enc_injective.

Theorem abi_enc_prefix_injective : forall t v v' r r', typed t v -> typed t v' ->
  enc v ++ r = enc v' ++ r' -> v = v' /\ r = r'.
Proof. exact (fun t v v' r r' H H' => enc_prefix_injective t v v' H H' r r'). Qed.
Print Assumptions abi_enc_prefix_injective.

(** The model's slot types are the ABI signatures written in the source. *)
Theorem model_signatures_are_the_sources : forall k, map slot_ty (signed_slots k) = signature k.
Proof. exact signature_matches. Qed.
Print Assumptions model_signatures_are_the_sources.

(** Every value handed to the bridge contract on delivery sits in a slot of the signing pre-image
    (computed over the generated lists: dropping an argument from a Pack call breaks this), and so
    does the deployment id wherever the contract's scheme includes it. *)
Theorem delivered_subset_signed : forall k, via_bridge_contract k = true ->
  incl (delivered_fields k) (bound_fields k) /\
  (scheme_has_id k = true -> In FTurnstoneId (bound_fields k)).
Proof. exact (fun k H => conj (delivered_subset_signed_all k H) (id_bound_where_scheme_has_it k)). Qed.
Print Assumptions delivered_subset_signed.

(** Equal signing bytes => every delivered value equal (and the deployment id, where the scheme has
    it) -- or a keccak collision.  All items of one action kind, all field values. *)
Theorem signbytes_bind_delivered_fields :
  forall (keccak : list byte -> list byte), (forall x, length (keccak x) = 32%nat) ->
  forall it it', wf it -> wf it' -> kind_of it = kind_of it' -> via_bridge_contract (kind_of it) = true ->
  sign_bytes keccak it = sign_bytes keccak it' ->
  ((forall f, In f (delivered_fields (kind_of it)) -> fval it f = fval it' f) /\
   (scheme_has_id (kind_of it) = true -> fval it FTurnstoneId = fval it' FTurnstoneId))
  \/ keccak_collision keccak.
Proof. exact signbytes_bind_delivered_fields_all. Qed.
Print Assumptions signbytes_bind_delivered_fields.

(** The same for EVERY slot of the pre-image (the inner checkpoint's slots included). *)
Theorem signbytes_bind_signed_fields :
  forall (keccak : list byte -> list byte), (forall x, length (keccak x) = 32%nat) ->
  forall it it', wf it -> wf it' -> kind_of it = kind_of it' -> via_bridge_contract (kind_of it) = true ->
  sign_bytes keccak it = sign_bytes keccak it' ->
  (forall f, In f (bound_fields (kind_of it)) -> fval it f = fval it' f) \/ keccak_collision keccak.
Proof. exact signbytes_bind_signed_fields_all. Qed.
Print Assumptions signbytes_bind_signed_fields.

(** Changing any delivered value, alone or together with others, changes the signing bytes. *)
Theorem changed_delivered_value_changes_signbytes :
  forall (keccak : list byte -> list byte), (forall x, length (keccak x) = 32%nat) ->
  forall it it' f, wf it -> wf it' -> kind_of it = kind_of it' -> via_bridge_contract (kind_of it) = true ->
  In f (delivered_fields (kind_of it)) -> fval it f <> fval it' f ->
  sign_bytes keccak it <> sign_bytes keccak it' \/ keccak_collision keccak.
Proof. exact changed_field_changes_signbytes. Qed.
Print Assumptions changed_delivered_value_changes_signbytes.

(** The conversions lose nothing: equal slot values mean equal raw values -- message id, deadline,
    relayer; for a logic call the whole call; for a valset update the whole validator set. *)
Theorem slot_values_determine_raw_values :
  (forall it it', wf it -> wf it' -> fval it FMsgId = fval it' FMsgId -> it_id it = it_id it') /\
  (forall it it', wf it -> wf it' -> fval it FDeadline = fval it' FDeadline ->
                  act_deadline (it_action it) = act_deadline (it_action it')) /\
  (forall it it', fval it FRelayer = fval it' FRelayer -> it_relayer it = it_relayer it') /\
  (forall id est ts rel c p fs s d id' est' ts' rel' c' p' fs' s' d',
     let it := mkItem id est ts rel (SubmitLogicCall c p fs s d) in
     let it' := mkItem id' est' ts' rel' (SubmitLogicCall c' p' fs' s' d') in
     wf it -> wf it' -> (forall f, In f (delivered_fields KLogicCall) -> fval it f = fval it' f) ->
     c = c' /\ p = p' /\ eff_fees fs = eff_fees fs' /\ bytes32_left s = bytes32_left s' /\ id = id' /\ d = d' /\ rel = rel') /\
  (forall id est ts rel vs ps i id' est' ts' rel' vs' ps' i',
     let it := mkItem id est ts rel (UpdateValset vs ps i) in
     let it' := mkItem id' est' ts' rel' (UpdateValset vs' ps' i') in
     wf it -> wf it' -> (forall f, In f (delivered_fields KUpdateValset) -> fval it f = fval it' f) ->
     vs = vs' /\ ps = ps' /\ i = i' /\ rel = rel' /\ eff_estimate KUpdateValset est = eff_estimate KUpdateValset est').
Proof.
  exact (conj fval_msg_id (conj fval_deadline (conj fval_relayer (conj fval_logic_call fval_valset)))).
Qed.
Print Assumptions slot_values_determine_raw_values.

(** The bridge-contract upload is not presented to a remote contract; its bytes still bind
    bytecode and message id. *)
Theorem upload_signbytes_bind_bytecode_and_id :
  forall (keccak : list byte -> list byte) id id' est est' ts ts' rel rel' b b',
  u64 id -> u64 id' ->
  sign_bytes keccak (mkItem id est ts rel (UploadSmartContract b)) =
  sign_bytes keccak (mkItem id' est' ts' rel' (UploadSmartContract b')) ->
  (b = b' /\ id = id') \/ keccak_collision keccak.
Proof. exact upload_binds_bytecode_and_id. Qed.
Print Assumptions upload_signbytes_bind_bytecode_and_id.

(** Ids are handed out in strictly increasing order over every history (fewer than 2^64 ops). *)
Theorem msg_ids_strictly_increase : forall ops, Z.of_nat (length ops) < MsgIds.two64 ->
  StronglySorted Z.lt (allocated_ids ops) /\ NoDup (allocated_ids ops).
Proof. exact (fun ops H => conj (ids_strictly_increase ops H) (ids_never_reused ops H)). Qed.
Print Assumptions msg_ids_strictly_increase.

(** An id lives in at most one queue, once, and every id in a queue was handed out by a Put of
    the history -- over all Put / replace / Remove histories on any number of queues. *)
Theorem msg_ids_unique_across_queues : forall ops q q' i, Z.of_nat (length ops) < MsgIds.two64 ->
  In i (ids (qs (run ops) q)) -> In i (ids (qs (run ops) q')) ->
  q = q' /\ NoDup (ids (qs (run ops) q)) /\ In i (allocated_ids ops) /\ 1 <= i <= counter (run ops).
Proof. exact ids_unique_across_queues. Qed.
Print Assumptions msg_ids_unique_across_queues.

(** Put with MsgIDToReplace keeps the id of the message it replaces and allocates none. *)
Theorem replace_reuses_id_and_allocates_none : forall s q r c, r <> 0 ->
  counter (fst (step s (OPut q r c))) = counter s /\
  alloc_of (OPut q r c) (snd (step s (OPut q r c))) = [] /\
  (forall i, snd (step s (OPut q r c)) = RId i -> i = r /\ In r (ids (qs s q))).
Proof. exact replace_allocates_none. Qed.
Print Assumptions replace_reuses_id_and_allocates_none.

(** The counter discipline the id model assumes is the one in the source now. *)
Theorem id_model_is_of_current_source :
  Gen.C05.id_counter_key_expr = "consensusQueueIDCounterKey"%string /\
  Gen.C05.put_replace_guard = true /\ Gen.C05.id_increment_is_last_plus_one = true.
Proof. exact source_counter_shape. Qed.
Print Assumptions id_model_is_of_current_source.
