(** C05 -- what validators sign binds the whole message; message ids are never reused.
    Only statements closed by [exact]; proofs in Base/AbiProofs.v, Evm/SignBytesProofs.v,
    Evm/MsgIdsProofs.v.

    Reading aid.
    [enc v] is go-ethereum's ABI encoding (abi.Arguments.Pack) of the value [v]; [typed t v] says v
    is a value of ABI type t.  An [item] is a queued cross-chain message (five actions) or a skyway
    batch with the values the Go code reads.  [sign_bytes keccak it] is what
    QueuedSignedMessage.GetBytesToSign / OutgoingTxBatch.GetCheckpoint return:
    keccak(selector ++ enc(args)), the argument list, ABI signature and selector of each action being
    the ones TRANSLATED from the source (Gen/C05.v: abi.Arguments literals and Pack(...) arguments of
    turnstone_abi.go / batch.go); for a valset update the first argument is the keccak of an inner
    checkpoint(...) pre-image.  [fval it f] is the ABI value the code puts in the slot of field [f]:
    the EFFECTIVE value the remote contract is handed (estimate 0 reads as the default 300000, nil
    fees as the default fees, ids / powers / nonces go through Go's int64 cast and two's complement,
    the turnstone id is a right-padded bytes32, the fee payer a left-padded one, addresses are the
    20 bytes HexToAddress yields).  [delivered_fields k] are the arguments of
    contractABI.Pack("<method>", consensus, ...) in eth_txable.go (translated), for a batch the
    arguments of submit_batch.  [keccak] is ANY function with 32-byte output: no injectivity is
    assumed, the conclusions carry the explicit collision disjunct.
    Ids: [run ops] is the state of one consensus keeper after the history [ops] of Put /
    Put-with-MsgIDToReplace / Remove over any number of queues; [allocated_ids ops] the ids handed
    out, in order. *)
From Coq Require Import String List ZArith Bool Sorted.
From Coq Require Import Strings.Byte.
From Paloma Require Import Base.Abi Base.AbiProofs Base.AbiDec Base.AbiDecProofs
  Evm.SignFields Evm.SignBytes Evm.SignBytesProofs
  Evm.MsgIds Evm.MsgIdsProofs Evm.MsgIdsBatch Evm.MsgIdsBatchProofs.
From Paloma Require Gen.C05.
Import ListNotations.
Open Scope Z_scope.

(** The ABI encoding is injective on well-typed values of one type -- general: nested tuples,
    dynamic arrays of dynamic tuples, bytes; and even when followed by arbitrary further bytes. *)
Theorem abi_enc_injective : forall t v v', typed t v -> typed t v' -> enc v = enc v' -> v = v'.
Proof. exact AbiProofs.abi_enc_injective. Qed.
Print Assumptions abi_enc_injective.

Theorem abi_enc_prefix_injective : forall t v v' r r', typed t v -> typed t v' ->
  enc v ++ r = enc v' ++ r' -> v = v' /\ r = r'.
Proof. exact (fun t v v' r r' H H' => enc_prefix_injective t v v' H H' r r'). Qed.
Print Assumptions abi_enc_prefix_injective.

(** The model's slot types are the ABI signatures written in the source. *)
Theorem model_signatures_are_the_sources : forall k, map slot_ty (signed_slots k) = signature k.
Proof. exact signature_matches. Qed.
Print Assumptions model_signatures_are_the_sources.

(** Every value handed to the bridge contract on delivery sits in a slot of the signing pre-image
    (computed over the generated lists: dropping an argument from a Pack call breaks this), and so
    does the deployment id wherever the contract's scheme includes it. *)
Theorem delivered_subset_signed : forall k, via_bridge_contract k = true ->
  incl (delivered_fields k) (bound_fields k) /\
  (scheme_has_id k = true -> In FTurnstoneId (bound_fields k)).
Proof. exact (fun k H => conj (delivered_subset_signed_all k H) (id_bound_where_scheme_has_it k)). Qed.
Print Assumptions delivered_subset_signed.

(** Equal signing bytes => every delivered value equal (and the deployment id, where the scheme has
    it) -- or a keccak collision.  All items of one action kind, all field values. *)
Theorem signbytes_bind_delivered_fields :
  forall (keccak : list byte -> list byte), (forall x, length (keccak x) = 32%nat) ->
  forall it it', wf it -> wf it' -> kind_of it = kind_of it' -> via_bridge_contract (kind_of it) = true ->
  sign_bytes keccak it = sign_bytes keccak it' ->
  ((forall f, In f (delivered_fields (kind_of it)) -> fval it f = fval it' f) /\
   (scheme_has_id (kind_of it) = true -> fval it FTurnstoneId = fval it' FTurnstoneId))
  \/ keccak_collision keccak.
Proof. exact signbytes_bind_delivered_fields_all. Qed.
Print Assumptions signbytes_bind_delivered_fields.

(** The same for EVERY slot of the pre-image (the inner checkpoint's slots included). *)
Theorem signbytes_bind_signed_fields :
  forall (keccak : list byte -> list byte), (forall x, length (keccak x) = 32%nat) ->
  forall it it', wf it -> wf it' -> kind_of it = kind_of it' -> via_bridge_contract (kind_of it) = true ->
  sign_bytes keccak it = sign_bytes keccak it' ->
  (forall f, In f (bound_fields (kind_of it)) -> fval it f = fval it' f) \/ keccak_collision keccak.
Proof. exact signbytes_bind_signed_fields_all. Qed.
Print Assumptions signbytes_bind_signed_fields.

(** Changing any delivered value, alone or together with others, changes the signing bytes. *)
Theorem changed_delivered_value_changes_signbytes :
  forall (keccak : list byte -> list byte), (forall x, length (keccak x) = 32%nat) ->
  forall it it' f, wf it -> wf it' -> kind_of it = kind_of it' -> via_bridge_contract (kind_of it) = true ->
  In f (delivered_fields (kind_of it)) -> fval it f <> fval it' f ->
  sign_bytes keccak it <> sign_bytes keccak it' \/ keccak_collision keccak.
Proof. exact changed_field_changes_signbytes. Qed.
Print Assumptions changed_delivered_value_changes_signbytes.

(** The conversions lose nothing: equal slot values mean equal raw values -- message id, deadline,
    relayer; for a logic call the whole call; for a valset update the whole validator set. *)
Theorem slot_values_determine_raw_values :
  (forall it it', wf it -> wf it' -> fval it FMsgId = fval it' FMsgId -> it_id it = it_id it') /\
  (forall it it', wf it -> wf it' -> fval it FDeadline = fval it' FDeadline ->
                  act_deadline (it_action it) = act_deadline (it_action it')) /\
  (forall it it', fval it FRelayer = fval it' FRelayer -> it_relayer it = it_relayer it') /\
  (forall id est ts rel c p fs s d id' est' ts' rel' c' p' fs' s' d',
     let it := mkItem id est ts rel (SubmitLogicCall c p fs s d) in
     let it' := mkItem id' est' ts' rel' (SubmitLogicCall c' p' fs' s' d') in
     wf it -> wf it' -> (forall f, In f (delivered_fields KLogicCall) -> fval it f = fval it' f) ->
     c = c' /\ p = p' /\ eff_fees fs = eff_fees fs' /\ bytes32_left s = bytes32_left s' /\ id = id' /\ d = d' /\ rel = rel') /\
  (forall id est ts rel vs ps i id' est' ts' rel' vs' ps' i',
     let it := mkItem id est ts rel (UpdateValset vs ps i) in
     let it' := mkItem id' est' ts' rel' (UpdateValset vs' ps' i') in
     wf it -> wf it' -> (forall f, In f (delivered_fields KUpdateValset) -> fval it f = fval it' f) ->
     vs = vs' /\ ps = ps' /\ i = i' /\ rel = rel' /\ eff_estimate KUpdateValset est = eff_estimate KUpdateValset est').
Proof.
  exact (conj fval_msg_id (conj fval_deadline (conj fval_relayer (conj fval_logic_call fval_valset)))).
Qed.
Print Assumptions slot_values_determine_raw_values.

(** The bridge-contract upload is not presented to a remote contract; its bytes still bind
    bytecode and message id. *)
Theorem upload_signbytes_bind_bytecode_and_id :
  forall (keccak : list byte -> list byte) id id' est est' ts ts' rel rel' b b',
  u64 id -> u64 id' ->
  sign_bytes keccak (mkItem id est ts rel (UploadSmartContract b)) =
  sign_bytes keccak (mkItem id' est' ts' rel' (UploadSmartContract b')) ->
  (b = b' /\ id = id') \/ keccak_collision keccak.
Proof. exact upload_binds_bytecode_and_id. Qed.
Print Assumptions upload_signbytes_bind_bytecode_and_id.

(** Ids are handed out in strictly increasing order over every history (fewer than 2^64 ops). *)
Theorem msg_ids_strictly_increase : forall ops, Z.of_nat (length ops) < MsgIds.two64 ->
  StronglySorted Z.lt (allocated_ids ops) /\ NoDup (allocated_ids ops).
Proof. exact (fun ops H => conj (ids_strictly_increase ops H) (ids_never_reused ops H)). Qed.
Print Assumptions msg_ids_strictly_increase.

(** An id lives in at most one queue, once, and every id in a queue was handed out by a Put of
    the history -- over all Put / replace / Remove histories on any number of queues. *)
Theorem msg_ids_unique_across_queues : forall ops q q' i, Z.of_nat (length ops) < MsgIds.two64 ->
  In i (ids (qs (run ops) q)) -> In i (ids (qs (run ops) q')) ->
  q = q' /\ NoDup (ids (qs (run ops) q)) /\ In i (allocated_ids ops) /\ 1 <= i <= counter (run ops).
Proof. exact ids_unique_across_queues. Qed.
Print Assumptions msg_ids_unique_across_queues.

(** Put with MsgIDToReplace keeps the id of the message it replaces and allocates none. *)
Theorem replace_reuses_id_and_allocates_none : forall s q r c, r <> 0 ->
  counter (fst (step s (OPut q r c))) = counter s /\
  alloc_of (OPut q r c) (snd (step s (OPut q r c))) = [] /\
  (forall i, snd (step s (OPut q r c)) = RId i -> i = r /\ In r (ids (qs s q))).
Proof. exact replace_allocates_none. Qed.
Print Assumptions replace_reuses_id_and_allocates_none.

(** The counter discipline the id model assumes is the one in the source now. *)
Theorem id_model_is_of_current_source :
  Gen.C05.id_counter_key_expr = "consensusQueueIDCounterKey"%string /\
  Gen.C05.put_replace_guard = true /\ Gen.C05.id_increment_is_last_plus_one = true.
Proof. exact source_counter_shape. Qed.
Print Assumptions id_model_is_of_current_source.

(** ======================= second round ======================= *)

(** The ABI DECODER (Base/AbiDec.v: follows the offsets in the heads, as go-ethereum's Unpack and
    the EVM do) inverts the encoder on every well-typed value of a type without empty tuples whose
    encoding is shorter than 2^256 bytes -- also when further bytes follow (calldata). *)
Theorem abi_decode_encode : forall t v r, wf_ty t = true -> typed t v -> blen (enc v) < two256 ->
  dec t (enc v ++ r) = Some v.
Proof. exact dec_enc. Qed.
Print Assumptions abi_decode_encode.

(** Whatever the bytes, a decoded value is well typed; on a canonical encoding decode-then-encode
    gives the bytes back (a non-canonical one decodes too: AbiDecProofs.noncanonical_sample). *)
Theorem abi_decoded_is_typed_and_canonical_roundtrip :
  (forall t d v, dec t d = Some v -> typed t v) /\
  (forall t v0 v, wf_ty t = true -> typed t v0 -> blen (enc v0) < two256 -> dec t (enc v0) = Some v -> enc v = enc v0).
Proof. exact (conj dec_typed dec_enc_canonical). Qed.
Print Assumptions abi_decoded_is_typed_and_canonical_roundtrip.

(** Injectivity of the encoding once more, this time THROUGH the offsets (independent of
    abi_enc_injective, whose proof never reads one). *)
Theorem abi_enc_injective_via_decoder : forall t v v', wf_ty t = true -> typed t v -> typed t v' ->
  blen (enc v) < two256 -> enc v = enc v' -> v = v'.
Proof. exact enc_injective_via_decoder. Qed.
Print Assumptions abi_enc_injective_via_decoder.

(** The arguments eth_txable.go packs for delivery, and for a batch the inputs of submit_batch, are
    typed position by position as the compass ABI JSON shipped in the repository types its inputs;
    their leaves are the delivered fields the theorems above quantify over; each sits at the position
    of the ABI input NAMED for it (message_id, deadline, relayer, gas_estimate, fee_args.relayer_fee,
    ...: same-typed arguments cannot be swapped unnoticed); and where the scheme has
    the deployment id the signing pre-image is the delivered argument list with the id inserted. *)
Theorem delivered_arguments_are_the_compass_abi_inputs :
  (forall k, map slot_ty (delivered_slots k) = abi_sig k /\ flatten_all (delivered_slots k) = delivered_fields k) /\
  (forall k, delivered_slots k = abi_named_slots k) /\
  (forall k, In k [KLogicCall; KDeploy; KBatch] ->
     filter (fun s => match s with SF FTurnstoneId => false | _ => true end) (signed_slots k) = delivered_slots k).
Proof. exact (conj delivered_slots_match_abi (conj delivered_slots_are_the_named_inputs signed_is_delivered_plus_id)). Qed.
Print Assumptions delivered_arguments_are_the_compass_abi_inputs.

(** The precise clause on RAW values.  [raw_value it f] is what VerifyAgainstTX packs: the fees of
    the message as they are (no default; none = the call cannot be built) and the elected estimate
    as it is.  Among items that can be handed out for relaying (estimate elected, fees set), equal
    signing bytes => equal raw delivered values -- all-zero fees are told apart from the defaults. *)
Theorem signbytes_bind_raw_delivered_values :
  forall (keccak : list byte -> list byte), (forall x, length (keccak x) = 32%nat) ->
  forall it it', wf it -> wf it' -> kind_of it = kind_of it' -> via_bridge_contract (kind_of it) = true ->
  relayable it -> relayable it' ->
  sign_bytes keccak it = sign_bytes keccak it' ->
  (forall f, In f (delivered_fields (kind_of it)) -> raw_value it f = raw_value it' f /\ raw_value it f <> None)
  \/ keccak_collision keccak.
Proof. exact signbytes_bind_raw_delivered_all. Qed.
Print Assumptions signbytes_bind_raw_delivered_values.

(** ... so the delivered call itself (selector and every argument but the consensus) is a function
    of the signing bytes: collected signatures cannot authorise another call. *)
Theorem signbytes_determine_delivered_calldata :
  forall (keccak : list byte -> list byte), (forall x, length (keccak x) = 32%nat) ->
  forall it it', wf it -> wf it' -> kind_of it = kind_of it' -> via_bridge_contract (kind_of it) = true ->
  relayable it -> relayable it' ->
  sign_bytes keccak it = sign_bytes keccak it' ->
  (forall c, delivered_calldata c it = delivered_calldata c it' /\ delivered_calldata c it <> None)
  \/ keccak_collision keccak.
Proof. exact signbytes_determine_calldata_all. Qed.
Print Assumptions signbytes_determine_delivered_calldata.

(** For ALL items: the only raw values equal signing bytes cannot tell apart are estimate 0 <-> the
    default and fees absent <-> the default fees (both written in the source as pigeon's defaults). *)
Theorem indistinguishable_raw_values_are_the_documented_defaults :
  forall (keccak : list byte -> list byte), (forall x, length (keccak x) = 32%nat) ->
  forall it it', wf it -> wf it' -> kind_of it = kind_of it' -> via_bridge_contract (kind_of it) = true ->
  sign_bytes keccak it = sign_bytes keccak it' ->
  ((In FEstimate (bound_fields (kind_of it)) ->
      it_estimate it = it_estimate it' \/
      (it_estimate it = 0 /\ it_estimate it' = default_of (kind_of it)) \/
      (it_estimate it = default_of (kind_of it) /\ it_estimate it' = 0)) /\
   (In FRelayerFee (bound_fields (kind_of it)) ->
      raw_fees (it_action it) = raw_fees (it_action it') \/
      (raw_fees (it_action it) = None /\ raw_fees (it_action it') = Some default_fees) \/
      (raw_fees (it_action it) = Some default_fees /\ raw_fees (it_action it') = None)))
  \/ keccak_collision keccak.
Proof. exact equal_signbytes_raw_classification. Qed.
Print Assumptions indistinguishable_raw_values_are_the_documented_defaults.

(** The relay gate [relayable] stands for is the one in the source now. *)
Theorem relay_gate_is_of_current_source :
  Gen.C05.relay_filter_has_gas_estimate = true /\
  Gen.C05.batch_relay_requires_estimate = true /\
  Gen.C05.fees_elected_with_estimate = true /\
  (forall a, In a ["Message_UpdateValset"; "Message_SubmitLogicCall"; "Message_UploadUserSmartContract"; "Message_CompassHandover"]%string ->
     In (a, true) Gen.C05.enqueue_sites_require_estimation /\ ~ In (a, false) Gen.C05.enqueue_sites_require_estimation).
Proof. exact relay_gate_shape. Qed.
Print Assumptions relay_gate_is_of_current_source.

(** Lifetime: once removed, an id is in no queue of any chain ever again (whatever follows:
    enqueues, replaces addressed to any queue, removes). *)
Theorem removed_msg_id_never_comes_back : forall ops1 q i ops2,
  Z.of_nat (length (ops1 ++ ORemove q i :: ops2)) < MsgIds.two64 ->
  In i (ids (qs (run ops1) q)) ->
  snd (step (run ops1) (ORemove q i)) = ROk /\
  (forall q', ~ In i (ids (qs (run (ops1 ++ ORemove q i :: ops2)) q'))).
Proof. exact removed_id_never_comes_back. Qed.
Print Assumptions removed_msg_id_never_comes_back.

(** Put with MsgIDToReplace through ANOTHER queue than the one holding the id, or for an id that is
    in no queue, is refused and changes nothing. *)
Theorem replace_through_wrong_queue_is_refused :
  (forall ops q q' i c, Z.of_nat (length ops) < MsgIds.two64 -> In i (ids (qs (run ops) q)) -> q' <> q ->
     step (run ops) (OPut q' i c) = (run ops, RErr)) /\
  (forall s q i c, i <> 0 -> ~ In i (ids (qs s q)) -> step s (OPut q i c) = (s, RErr)).
Proof. exact (conj replace_through_other_queue_refused replace_of_absent_id_refused). Qed.
Print Assumptions replace_through_wrong_queue_is_refused.

(** BatchQueue: every history that also stages messages (second counter) and processes batches is,
    for messages and their ids, a base history that is not longer; hence ids still strictly
    increase, are unique across queues, and staging hands out no message id. *)
Theorem batch_queue_histories_are_base_histories : forall bops, exists ops,
  (length ops <= length bops)%nat /\ base (brun bops) = run ops /\ ballocated_ids bops = allocated_ids ops.
Proof. exact batch_simulation. Qed.
Print Assumptions batch_queue_histories_are_base_histories.

Theorem msg_ids_with_batch_queues : forall bops, Z.of_nat (length bops) < MsgIds.two64 ->
  (StronglySorted Z.lt (ballocated_ids bops) /\ NoDup (ballocated_ids bops)) /\
  (forall q q' i, In i (ids (qs (base (brun bops)) q)) -> In i (ids (qs (base (brun bops)) q')) ->
     q = q' /\ NoDup (ids (qs (base (brun bops)) q)) /\ In i (ballocated_ids bops) /\ 1 <= i <= counter (base (brun bops))) /\
  (forall s q c, base (fst (bstep s (BBatchPut q c))) = base s /\ balloc_of (BBatchPut q c) (snd (bstep s (BBatchPut q c))) = []).
Proof.
  exact (fun bops H => conj (batch_ids_strictly_increase bops H)
          (conj (fun q q' i => batch_ids_unique_across_queues bops q q' i H)
                (fun s q c => conj (proj1 (staging_is_not_a_message s q c)) (proj1 (proj2 (staging_is_not_a_message s q c)))))).
Qed.
Print Assumptions msg_ids_with_batch_queues.

Theorem id_counter_is_moved_by_put_only :
  Gen.C05.id_generator_used_by_put_only = true /\ Gen.C05.id_generator_uses_in_queue = 1 /\
  Gen.C05.id_generator_store_writes = 1.
Proof. exact counter_written_by_put_only. Qed.
Print Assumptions id_counter_is_moved_by_put_only.

(** What the chain ASKS validators to sign: every `BytesToSign:` the consensus module fills in (the
    signing query's queuedMessageToMessageToSign, ToMessageWithSignatures behind the other queries)
    is GetBytesToSign of the message handed in -- no memo; and the keeper has no field or
    package-level variable that could hold one. *)
Theorem served_signbytes_are_those_of_the_stored_message :
  Forall (fun p => snd p = "msg.GetBytesToSign"%string) Gen.C05.bytes_to_sign_sites /\
  map fst Gen.C05.bytes_to_sign_sites = ["ToMessageWithSignatures"; "queuedMessageToMessageToSign"]%string /\
  map fst Gen.C05.consensus_keeper_fields =
    ["cdc"; "storeKey"; "paramstore"; "ider"; "valset"; "registry"; "evmKeeper"; "consensusChecker"; "feeProvider";
     "onMessageAttestedListeners"]%string /\
  map snd Gen.C05.consensus_keeper_fields =
    ["codec.Codec"; "store.KVStoreService"; "paramtypes.Subspace"; "keeperutil.IDGenerator"; "types.ValsetKeeper"; "*registry";
     "types.EvmKeeper"; "*libcons.ConsensusChecker"; "FeeProvider"; "[]metrixtypes.OnConsensusMessageAttestedListener"]%string /\
  Gen.C05.consensus_package_level_maps = 0.
Proof. exact served_signbytes_are_recomputed. Qed.
Print Assumptions served_signbytes_are_those_of_the_stored_message.

(** The bytes to sign stored with (and served for) a skyway batch are renewed at estimate election
    and, for every open batch of the chain, at compass activation; nothing else writes them. *)
Theorem batch_signbytes_follow_estimate_and_compass :
  Gen.C05.batch_refresh_skip_conditions = ["batch.ChainReferenceID!=chainReferenceID"; "bytes.Equal(bts,batch.BytesToSign)"]%string /\
  Gen.C05.batch_refresh_rewrites_bytes = true /\ Gen.C05.batch_refresh_reads_all_open_batches = true /\
  Gen.C05.batch_refresh_on_compass_activation = true /\ Gen.C05.batch_estimate_election_rewrites_bytes = true /\
  Gen.C05.batch_bytes_to_sign_writes =
    ["UpdateBatchGasEstimate:entity.BytesToSign=bts"; "refreshOpenBatchCheckpoints:batch.BytesToSign=bts"]%string.
Proof. exact batch_bytes_follow_the_compass. Qed.
Print Assumptions batch_signbytes_follow_estimate_and_compass.

Theorem batch_queue_model_is_of_current_source :
  Gen.C05.batch_id_counter_key_expr = "consensusBatchQueueIDCounterKey"%string /\
  Gen.C05.id_counter_keys_distinct = true /\ Gen.C05.batch_put_stages_only = true /\
  Gen.C05.batch_process_puts_through_base = true /\ 0 < Gen.C05.batch_max_size /\
  Gen.C05.batched_queue_configurations = 0.
Proof. exact batch_source_shape. Qed.
Print Assumptions batch_queue_model_is_of_current_source.
