(** C11 — votes are pooled only for claims identical in every effect-bearing field.
    Only statements closed by [exact]; proofs live in Skyway/ClaimsProofs.v.  [G] is the module of
    tables regenerated from the Go source on every check (Paloma.Gen.C11). *)
From Coq Require Import List NArith ZArith String.
From Paloma Require Import Base.Sha256 Skyway.Claims Skyway.ClaimsProofs.
Import ListNotations.

(** Every field the keeper reads from a claim of any type (submission path, tally path, the type's
    attestation handler, transitively) is rendered into the hashed path, or is part of the store
    key, or is one of Orchestrator / Metadata / EventNonce. *)
Theorem hash_covers_effect_fields : forall ct, In ct G.claim_types ->
  incl (G.handler_fields ct) (hashed_fields ct ++ G.key_fields ct ++ excluded).
Proof. exact hash_covers_effect_fields_lemma. Qed.
Print Assumptions hash_covers_effect_fields.

(** The rendered path determines the claim type and the value of every hashed field — for ALL field
    values (any bytes in text fields, any uint64 / big integer, nil amounts), no cleanliness guard. *)
Theorem claim_path_injective : forall c c',
  In (c_type c) G.claim_types -> In (c_type c') G.claim_types ->
  path c = path c' -> c_type c = c_type c' /\ hashed_vals c = hashed_vals c'.
Proof. exact claim_path_injective_lemma. Qed.
Print Assumptions claim_path_injective.

(** Two claims with the same attestation store key have the same type and agree on every
    effect-bearing field, or they exhibit a SHA-256 collision. *)
Theorem same_key_same_effect : forall K c c',
  In (c_type c) G.claim_types -> In (c_type c') G.claim_types ->
  att_key K c = att_key K c' ->
  effect c = effect c' \/ (path c <> path c' /\ sha256 (path c) = sha256 (path c')).
Proof. exact same_key_same_effect_lemma. Qed.
Print Assumptions same_key_same_effect.

(** Over every history of claim submissions: the body stored in an attestation was submitted by
    someone, and every vote counted for it comes from a validator whose own submitted claim has the
    same effect as the stored body (or a SHA-256 collision is exhibited). *)
Theorem pooled_votes_same_effect : forall K ops,
  (forall v c, In (v, c) ops -> In (c_type c) G.claim_types) ->
  forall a, In a (atts (run K ops)) ->
    (exists v0, In (v0, a_body a) ops) /\
    forall v, In v (a_votes a) ->
      exists c, In (v, c) ops /\
        (effect c = effect (a_body a) \/ (path c <> path (a_body a) /\ sha256 (path c) = sha256 (path (a_body a)))).
Proof. exact pooled_votes_same_effect_lemma. Qed.
Print Assumptions pooled_votes_same_effect.
