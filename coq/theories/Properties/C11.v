(** C11 — votes are pooled only for claims identical in every effect-bearing field.
    Only statements closed by [exact]; proofs live in Skyway/ClaimsProofs.v.  [G] is the module of
    tables regenerated from the Go source on every check (Paloma.Gen.C11). *)
From Coq Require Import List NArith ZArith String.
From Paloma Require Import Base.Sha256 Skyway.Claims Skyway.ClaimsProofs.
Import ListNotations.

(** Every field the keeper reads from a claim of any type (submission path, tally path, the type's
    attestation handler, transitively) is rendered into the hashed path, or is part of the store
    key, or is one of Orchestrator / Metadata / EventNonce. *)
Theorem hash_covers_effect_fields : forall ct, In ct G.claim_types ->
  incl (G.handler_fields ct) (hashed_fields ct ++ G.key_fields ct ++ excluded).
Proof. exact hash_covers_effect_fields_lemma. Qed.
Print Assumptions hash_covers_effect_fields.

(** The rendered path determines the claim type and the value of every hashed field — for ALL field
    values (any bytes in text fields, any uint64 / big integer, nil amounts), no cleanliness guard. *)
Theorem claim_path_injective : forall c c',
  In (c_type c) G.claim_types -> In (c_type c') G.claim_types ->
  path c = path c' -> c_type c = c_type c' /\ hashed_vals c = hashed_vals c'.
Proof. exact claim_path_injective_lemma. Qed.
Print Assumptions claim_path_injective.

(** Two claims with the same attestation store key have the same type and agree on every
    effect-bearing field, or they exhibit a SHA-256 collision. *)
Theorem same_key_same_effect : forall K c c',
  In (c_type c) G.claim_types -> In (c_type c') G.claim_types ->
  att_key K c = att_key K c' ->
  effect c = effect c' \/ (path c <> path c' /\ sha256 (path c) = sha256 (path c')).
Proof. exact same_key_same_effect_lemma. Qed.
Print Assumptions same_key_same_effect.

(** Over every history of claim submissions: the body stored in an attestation was submitted by
    someone, and every vote counted for it comes from a validator whose own submitted claim has the
    same effect as the stored body (or a SHA-256 collision is exhibited). *)
Theorem pooled_votes_same_effect : forall K ops,
  (forall v c, In (v, c) ops -> In (c_type c) G.claim_types) ->
  forall a, In a (atts (run K ops)) ->
    (exists v0, In (v0, a_body a) ops) /\
    forall v, In v (a_votes a) ->
      exists c, In (v, c) ops /\
        (effect c = effect (a_body a) \/ (path c <> path (a_body a) /\ sha256 (path c) = sha256 (path (a_body a)))).
Proof. exact pooled_votes_same_effect_lemma. Qed.
Print Assumptions pooled_votes_same_effect.

(** ---- second round: what stands in front of Attest, the claim interface, genesis, stale keys ---- *)
From Paloma Require Import Skyway.ClaimsGate Skyway.ClaimsGateProofs.

(** [pooled_votes_same_effect] for submissions filtered by ANY gate in front of [Attest] — a function of the
    position in the history, the whole state, the validator and the claim: ValidateBasic in the message router,
    the msg server's creator / validator checks, additionalPatchChecks against whatever batches are in state at
    that moment, or anything added later.  No hypothesis on the submissions is left. *)
Theorem pooled_votes_same_effect_any_gate : forall (g : gate) K ops,
  (forall v c, In (v, c) ops -> In (c_type c) G.claim_types) ->
  forall a, In a (atts (run_g g K ops)) ->
    (exists v0, In (v0, a_body a) ops) /\
    forall v, In v (a_votes a) ->
      exists c, In (v, c) ops /\
        (effect c = effect (a_body a) \/ (path c <> path (a_body a) /\ sha256 (path c) = sha256 (path (a_body a)))).
Proof. exact pooled_votes_any_gate_lemma. Qed.
Print Assumptions pooled_votes_same_effect_any_gate.

(** The msg server of the pinned tree with outgoing batches [bs] in state: the stored body and every voter's own
    claim passed the type's ValidateBasic (table [G.validate_checks]) and, for batch claims,
    additionalPatchChecks (shape [G.batch_gate]) — and have the same effect. *)
Theorem msg_server_votes_passed_gate_same_effect : forall bs K ops,
  (forall v c, In (v, c) ops -> In (c_type c) G.claim_types) ->
  forall a, In a (atts (run_ms bs K ops)) ->
    (exists v0, In (v0, a_body a) ops /\ valid_basic (a_body a) = true /\ batch_gate bs (a_body a) = true) /\
    forall v, In v (a_votes a) ->
      exists c, In (v, c) ops /\ valid_basic c = true /\ batch_gate bs c = true /\
        (effect c = effect (a_body a) \/ (path c <> path (a_body a) /\ sha256 (path c) = sha256 (path (a_body a)))).
Proof. exact msg_server_votes_lemma. Qed.
Print Assumptions msg_server_votes_passed_gate_same_effect.

(** Every implementer of the EthereumClaim interface (method sets incl. promoted methods), everything registered
    for it in the interface registry, handled by the attestation handler or routed by the msg server is a claim
    type covered by the generated tables — the types all theorems above quantify over — and is known to the model. *)
Theorem claim_interface_implementers_covered :
  incl G.claim_impls G.claim_types /\ incl G.claim_registered G.claim_impls /\ incl G.claim_handled G.claim_impls /\
  incl G.live_types G.claim_handled /\ incl G.claim_types known_claim_types.
Proof. exact claim_impls_covered_lemma. Qed.
Print Assumptions claim_interface_implementers_covered.

(** Genesis: after InitGenesis of an exported attestation list every attestation is stored under the key of its
    stored body and carries the body and votes of exactly one exported attestation. *)
Theorem genesis_import_keys_are_body_keys : forall K l a, In a (reimport_atts K l) ->
  well_keyed K a /\ exists a0, In a0 l /\ a_body a = a_body a0 /\ a_votes a = a_votes a0 /\ a_src a = a_src a0.
Proof. exact reimport_atts_well_keyed_lemma. Qed.
Print Assumptions genesis_import_keys_are_body_keys.

(** Genesis: a store whose attestations are all keyed by their body survives export / import unchanged. *)
Theorem genesis_roundtrip_identity : forall K l,
  (forall a, In a l -> well_keyed K a) -> NoDup (map a_key l) -> reimport_atts K l = l.
Proof. exact reimport_atts_identity_lemma. Qed.
Print Assumptions genesis_roundtrip_identity.

(** The pooling property over histories with an export / import of genesis in the middle. *)
Theorem pooled_votes_same_effect_across_genesis : forall (g g' : gate) K ops1 ops2 i2,
  (forall v c, In (v, c) (ops1 ++ ops2) -> In (c_type c) G.claim_types) ->
  forall a, In a (atts (run_g_from g' K (reimport K (run_g g K ops1)) i2 ops2)) ->
    (exists v0, In (v0, a_body a) (ops1 ++ ops2)) /\
    forall v, In v (a_votes a) ->
      exists c, In (v, c) (ops1 ++ ops2) /\
        (effect c = effect (a_body a) \/ (path c <> path (a_body a) /\ sha256 (path c) = sha256 (path (a_body a)))).
Proof. exact pooled_votes_across_genesis_lemma. Qed.
Print Assumptions pooled_votes_same_effect_across_genesis.

(** Attestations stored under a key that is not the key of their body (stored before a change of the hash
    encoding): a submission changes the votes under a store key only if the submitted claim's own key is that key —
    so a stale attestation gets no further vote from its own body, under any gate (it is repaired by the next
    genesis import, [genesis_import_keys_are_body_keys]). *)
Theorem stale_attestation_not_voted_by_its_body : forall (g : gate) K s i v c a,
  In a (atts s) -> ~ well_keyed K a -> att_key K c = att_key K (a_body a) ->
  votes_at (fst (attest_g g K s i v c)) (a_key a) = votes_at s (a_key a).
Proof. exact stale_not_voted_by_own_body_lemma. Qed.
Print Assumptions stale_attestation_not_voted_by_its_body.

(** The exemption of Orchestrator / Metadata / EventNonce from the hash is sound only while they produce no effect:
    on the tally path (TryAttestation and every keeper function it hands the claim to — also as an interface value —,
    processAttestation, emitObservedEvent, the attestation handlers) every field read from a claim is hashed or part of
    the store key, none of the exempted three is read there, and EventNonce is read on the submission path by nothing
    but the claim's own ValidateBasic. *)
Theorem exempted_fields_have_no_effect : forall ct, In ct G.claim_types ->
  incl (G.tally_fields ct) (hashed_fields ct ++ G.key_fields ct) /\
  ~ In "EventNonce"%string (G.submit_fields_nogate ct) /\
  (forall f, In f (G.tally_fields ct) -> ~ In f excluded).
Proof. exact tally_reads_only_hashed_lemma. Qed.
Print Assumptions exempted_fields_have_no_effect.
