(** C11 — votes are pooled only for claims identical in every effect-bearing field.
    Only statements closed by [exact]; proofs live in Skyway/ClaimsProofs.v. *)
From Coq Require Import List NArith ZArith String.
From Paloma Require Import Base.Sha256 Skyway.Claims Skyway.ClaimsProofs.
Import ListNotations.

Theorem hash_covers_effect_fields : forall ct, In ct G.claim_types ->
  incl (G.handler_fields ct) (hashed_fields ct ++ G.key_fields ct ++ excluded).
Proof. exact hash_covers_effect_fields_lemma. Qed.
Print Assumptions hash_covers_effect_fields.
