(** C16 — only a factory token's admin controls it; supply = mints - burns; denoms are
    namespaced and unique.  Only statements closed by [exact]; proofs live in TokenFactory/*Proofs.v.

    Reading aid.  [deliver c s m] is one tokenfactory message as the chain delivers it
    (ValidateBasic, then the msg-server handler, committed only on success) in state [s] under the
    configuration [c] ([addr_of c] = sdk.AccAddressFromBech32, an ARBITRARY function of which only
    "the empty string is not an address" is assumed).  [admin_rec s d] is the stored
    DenomAuthorityMetadata.Admin of [d] (None: nothing stored). *)
From Coq Require Import List ZArith Bool String.
From Paloma Require Import TokenFactory.Ledger TokenFactory.Denom TokenFactory.DenomProofs
  TokenFactory.Factory TokenFactory.FactoryProofs.
From Paloma Require Gen.C16.
Import ListNotations.
Open Scope Z_scope.

(** Whatever the state, a delivered mint / burn / change-admin / set-metadata was sent by the
    stored admin of the denom it names, and that admin is a real account. *)
Theorem only_admin_acts_step : forall (c : cfg), addr_of c EmptyString = None ->
  forall (s : state) (m : msg) (s' : state) (r : string) (d : denom),
  deliver c s m = (s', Ok r) -> privileged m = Some d ->
  admin_rec s d = Some (sender m) /\ exists a, addr_of c (sender m) = Some a.
Proof. exact only_admin_step. Qed.
Print Assumptions only_admin_acts_step.
