(** C16 — only a factory token's admin controls it; supply = mints - burns; denoms are
    namespaced and unique.  Only statements closed by [exact]; proofs live in TokenFactory/*Proofs.v.

    Reading aid.
    * [c : cfg] is the environment: [addr_of c] = sdk.AccAddressFromBech32 (an ARBITRARY function
      string -> account; the only thing assumed of it is that the empty string is not an address),
      the tokenfactory and distribution module accounts, the bank's blocked addresses, the fee.
    * [deliver c s m] is one tokenfactory message as the chain delivers it: ValidateBasic, then
      the msg-server handler, committed only when the handler succeeds.  It returns the new state
      and [Ok returned-string] or [Err class]; on [Err] the state is the old one.
    * [op] is a delivered message [OMsg m] or something ELSE happening on the same bank: a send
      between accounts [OXSend], another module minting [OXMint] / burning [OXBurn].
      [step c s o] / [run c ops s] apply one op / a history; [succeeded c s o] says whether it went
      through.
    * [admin_rec s d]: the stored DenomAuthorityMetadata.Admin of [d] (None: nothing stored);
      [meta_of s d]: bank metadata of [d]; [bal], [supply]: the bank ledger.
    * [privileged m = Some d]: m is a mint / burn / change-admin / set-metadata naming [d].
    * [construct cr sub] = "factory/" ++ cr ++ "/" ++ sub;  [deconstruct] = types.DeconstructDenom.
    * [total c f ops s]: sum of [f] over the history, each op evaluated in the state it met;
      [minted_by c d], [burned_by c d]: amount of [d] a SUCCESSFUL factory mint / burn moved;
      [ext_delta c d]: what a successful other-module mint (+) or burn (-) did to [d];
      [created c ops s]: the denoms returned by the successful creates of the history, in order. *)
From Coq Require Import List ZArith Bool String.
From Paloma Require Import TokenFactory.Ledger TokenFactory.LedgerProofs TokenFactory.Denom
  TokenFactory.DenomProofs TokenFactory.Factory TokenFactory.FactoryProofs.
From Paloma Require Gen.C16.
Import ListNotations.
Open Scope Z_scope.

(** ---- only the current admin ---- *)

(** Whatever the state, a delivered mint / burn / change-admin / set-metadata was sent by the
    stored admin of the denom it names, and that admin is a real account (so a denom whose admin
    is "" — renounced, or never created — obeys nobody). *)
Theorem only_admin_acts : forall (c : cfg), addr_of c EmptyString = None ->
  forall (s : state) (m : msg) (s' : state) (r : string) (d : denom),
  deliver c s m = (s', Ok r) -> privileged m = Some d ->
  admin_rec s d = Some (sender m) /\ exists a, addr_of c (sender m) = Some a.
Proof. exact only_admin_step. Qed.
Print Assumptions only_admin_acts.

(** The same along every history: at every point of every history from every state. *)
Theorem only_admin_acts_in_history : forall (c : cfg), addr_of c EmptyString = None ->
  forall (s0 : state) (pre post : list op) (m : msg) (d : denom),
  privileged m = Some d ->
  succeeded c (run c pre s0) (OMsg m) = true ->
  run c (pre ++ OMsg m :: post) s0 = run c post (step c (run c pre s0) (OMsg m)) /\
  admin_rec (run c pre s0) d = Some (sender m) /\ exists a, addr_of c (sender m) = Some a.
Proof. exact only_admin_hist. Qed.
Print Assumptions only_admin_acts_in_history.

(** Effect form.  In any state the factory can reach ([wf]: a stored admin implies bank metadata —
    true of the empty state and preserved by every op, next theorem), if ANY op changes the admin
    record or the metadata of a denom whose admin is [a], then that op is a delivered privileged
    message on that denom sent by [a], and [a] is a real account.  Other accounts' messages,
    creates, bank sends and other modules cannot. *)
Theorem control_only_by_admin : forall (c : cfg), addr_of c EmptyString = None ->
  forall (s : state) (o : op) (d : denom) (a : string),
  wf s -> admin_rec s d = Some a ->
  admin_rec (step c s o) d <> Some a \/ meta_of (step c s o) d <> meta_of s d ->
  exists m, o = OMsg m /\ sender m = a /\ privileged m = Some d /\ succeeded c s o = true /\
            exists acc, addr_of c a = Some acc.
Proof. exact control_only_by_admin. Qed.
Print Assumptions control_only_by_admin.

Theorem reachable_states_wf : forall (c : cfg), addr_of c EmptyString = None ->
  wf empty_state /\ forall (ops : list op) (s : state), wf s -> wf (run c ops s).
Proof. exact (fun c H => conj wf_empty (wf_run c H)). Qed.
Print Assumptions reachable_states_wf.

(** ---- minting and burning touch the admin's own balance only ---- *)

Theorem mint_burn_touch_admin_only : forall (c : cfg), addr_of c EmptyString = None ->
  (forall (s : state) (cr : string) (d : denom) (x : Z) (s' : state) (r : string),
    deliver c s (MMint cr d x) = (s', Ok r) ->
    exists a, addr_of c cr = Some a /\ admin_rec s d = Some cr /\ 0 < x /\
      bal (led s') a d = bal (led s) a d + x /\
      supply (led s') d = supply (led s) d + x /\
      (forall a' d', (a', d') <> (a, d) -> bal (led s') a' d' = bal (led s) a' d') /\
      (forall d', d' <> d -> supply (led s') d' = supply (led s) d') /\
      metas s' = metas s /\ admins s' = admins s) /\
  (forall (s : state) (cr : string) (d : denom) (x : Z) (s' : state) (r : string),
    deliver c s (MBurn cr d x) = (s', Ok r) ->
    exists a, addr_of c cr = Some a /\ admin_rec s d = Some cr /\ 0 < x <= bal (led s) a d /\
      bal (led s') a d = bal (led s) a d - x /\
      supply (led s') d = supply (led s) d - x /\
      (forall a' d', (a', d') <> (a, d) -> bal (led s') a' d' = bal (led s) a' d') /\
      (forall d', d' <> d -> supply (led s') d' = supply (led s) d') /\
      metas s' = metas s /\ admins s' = admins s).
Proof. exact (fun c H => conj (mint_touches_admin_only c H) (burn_touches_admin_only c H)). Qed.
Print Assumptions mint_burn_touch_admin_only.

(** ---- supply = mints - burns ---- *)

(** Every history, every start state, every denom string: the supply moved by exactly the
    successful factory mints minus the successful factory burns, plus what other modules did. *)
Theorem supply_eq_mints_minus_burns : forall (c : cfg), addr_of c EmptyString = None ->
  forall (ops : list op) (s : state) (d : denom),
  supply (led (run c ops s)) d =
  supply (led s) d + total c (minted_by c d) ops s - total c (burned_by c d) ops s
                   + total c (ext_delta c d) ops s.
Proof. exact supply_accounting. Qed.
Print Assumptions supply_eq_mints_minus_burns.

(** When no other module mints or burns [d] during the history (bank sends are allowed): *)
Theorem supply_eq_mints_minus_burns_closed : forall (c : cfg), addr_of c EmptyString = None ->
  forall (ops : list op) (s : state) (d : denom),
  Forall (no_external d) ops ->
  supply (led (run c ops s)) d =
  supply (led s) d + total c (minted_by c d) ops s - total c (burned_by c d) ops s.
Proof. exact supply_eq_mints_minus_burns_closed. Qed.
Print Assumptions supply_eq_mints_minus_burns_closed.

(** ---- namespace and uniqueness ---- *)

(** A successful create returns exactly factory/<creator>/<sub>; the creator is a valid address
    without '/', the denom deconstructs back to (creator's account, sub), it had no bank metadata
    before, and afterwards it has metadata and the creator as admin. *)
Theorem denom_namespace_and_unique : forall (c : cfg), addr_of c EmptyString = None ->
  (forall (s : state) (cr sub : string) (s' : state) (d : string),
    deliver c s (MCreate cr sub) = (s', Ok d) ->
    d = construct cr sub /\ contains_slash cr = false /\
    (exists a, addr_of c cr = Some a /\ deconstruct (addr_of c) d = Some (a, sub)) /\
    meta_of s d = None /\ meta_of s' d = Some 0 /\ admin_rec s' d = Some cr) /\
  (* nobody else gets a denom inside factory/<cr>/ *)
  (forall (s : state) (cr' sub' : string) (s' : state) (d cr sub : string),
    deliver c s (MCreate cr' sub') = (s', Ok d) ->
    d = construct cr sub -> contains_slash cr = false -> cr' = cr /\ sub' = sub) /\
  (* never twice, and never a denom that already exists *)
  (forall (ops : list op) (s : state), NoDup (created c ops s)) /\
  (forall (ops : list op) (s : state) (d : denom), meta_of s d <> None -> ~ In d (created c ops s)).
Proof.
  exact (fun c H => conj (create_in_own_namespace c)
                   (conj (namespace_exclusive c)
                   (conj (created_once c H) (existing_denom_never_created c H)))).
Qed.
Print Assumptions denom_namespace_and_unique.

(** The codec itself: namespaces of different creators are disjoint, DeconstructDenom inverts
    GetTokenDenom, and a denom that deconstructs IS factory/<valid address>/<sub>. *)
Theorem deconstruct_construct_roundtrip :
  (forall c1 s1 c2 s2 : string,
    contains_slash c1 = false -> contains_slash c2 = false ->
    construct c1 s1 = construct c2 s2 -> c1 = c2 /\ s1 = s2) /\
  (forall (addr_of : string -> option acct) (cr sub d : string) (a : acct),
    get_token_denom cr sub = Ok d -> addr_of cr = Some a -> deconstruct addr_of d = Some (a, sub)) /\
  (forall (addr_of : string -> option acct) (d : string) (a : acct) (sub : string),
    deconstruct addr_of d = Some (a, sub) ->
    exists cr, d = construct cr sub /\ addr_of cr = Some a /\ contains_slash cr = false /\
               validate_denom d = true) /\
  construct "paloma1abc" "foo" = "factory/paloma1abc/foo"%string.
Proof.
  exact (conj construct_injective (conj deconstruct_construct (conj deconstruct_shape eq_refl))).
Qed.
Print Assumptions deconstruct_construct_roundtrip.

(** ---- denoms the factory did not create ---- *)

(** A denom that does not deconstruct (native, ibc/…, malformed, wrong prefix, invalid creator):
    no delivered message changes its supply, admin record or metadata, and its balances move only
    as the creation fee of a create (a transfer from the creator to the community pool). *)
Theorem foreign_denoms_untouchable : forall (c : cfg), addr_of c EmptyString = None ->
  forall (s : state) (m : msg) (d : denom),
  deconstruct (addr_of c) d = None ->
  let s' := fst (deliver c s m) in
  supply (led s') d = supply (led s) d /\ admin_rec s' d = admin_rec s d /\ meta_of s' d = meta_of s d /\
  ((forall a, bal (led s') a d = bal (led s) a d) \/
   (exists cr sub, m = MCreate cr sub /\ In d (map fst (fee c)))).
Proof. exact foreign_step. Qed.
Print Assumptions foreign_denoms_untouchable.

(** Any denom string without an admin record that the history does not itself create — native,
    malformed, or a well-formed factory name nobody created — is never minted or burned through
    the factory, and never acquires an admin. *)
Theorem never_created_never_minted : forall (c : cfg), addr_of c EmptyString = None ->
  forall (ops : list op) (s : state) (d : denom),
  admin_rec s d = None -> ~ In d (created c ops s) ->
  total c (minted_by c d) ops s = 0 /\ total c (burned_by c d) ops s = 0 /\
  admin_rec (run c ops s) d = None.
Proof. exact never_created_never_minted. Qed.
Print Assumptions never_created_never_minted.

(** ---- the model is of the source as it is now ---- *)

(** The guard skeletons the translator reads from x/tokenfactory (ordered calls and conditions of
    every function on the path of the five messages) are the ones the model was written against,
    and the codec constants are the ones below.  Any dropped / added / reordered check makes this
    fail until the model has been looked at again. *)
Theorem model_is_of_current_source :
  (Gen.C16.module_denom_prefix = "factory" /\ Gen.C16.max_subdenom_length = 44 /\
   Gen.C16.max_creator_length = 75 /\ Gen.C16.module_name = "tokenfactory")%string /\
  (Gen.C16.srv_create_denom = ["call:CreateDenom"] /\
   Gen.C16.srv_mint = ["call:GetDenomMetaData"; "if(!denomExists){err:types.ErrDenomDoesNotExist}";
     "call:GetAuthorityMetadata";
     "if(msg.Metadata.Creator != authorityMetadata.GetAdmin()){err:types.ErrUnauthorized}"; "call:mintTo"] /\
   Gen.C16.srv_burn = ["call:GetAuthorityMetadata";
     "if(msg.Metadata.Creator != authorityMetadata.GetAdmin()){err:types.ErrUnauthorized}"; "call:burnFrom"] /\
   Gen.C16.srv_change_admin = ["call:GetAuthorityMetadata";
     "if(msg.Metadata.Creator != authorityMetadata.GetAdmin()){err:types.ErrUnauthorized}"; "call:setAdmin"] /\
   Gen.C16.srv_set_denom_metadata = ["call:Validate"; "call:GetAuthorityMetadata";
     "if(msg.Metadata.Creator != authorityMetadata.GetAdmin()){err:types.ErrUnauthorized}";
     "call:SetDenomMetaData"])%string /\
  (Gen.C16.k_mint_to = ["call:DeconstructDenom"; "call:MintCoins"; "call:AccAddressFromBech32";
     "ret-call:SendCoinsFromModuleToAccount"] /\
   Gen.C16.k_burn_from = ["call:DeconstructDenom"; "call:AccAddressFromBech32";
     "call:SendCoinsFromAccountToModule"; "ret-call:BurnCoins"] /\
   Gen.C16.k_create_denom = ["call:validateCreateDenom"; "call:chargeForCreateDenom";
     "call:createDenomAfterValidation"] /\
   Gen.C16.k_validate_create_denom = ["if(k.bankKeeper.HasSupply(ctx, subdenom)){err:Errorf}";
     "call:GetTokenDenom"; "call:GetDenomMetaData"; "if(found){err:types.ErrDenomExists}"] /\
   Gen.C16.k_charge_for_create_denom = ["assign:creationFee"; "call:AccAddressFromBech32";
     "if(creationFee != nil){call:FundCommunityPool}"] /\
   Gen.C16.k_create_denom_after_validation = ["assign:denomMetaData"; "call:SetDenomMetaData";
     "assign:authorityMetadata"; "call:setAuthorityMetadata"; "call:addDenomFromCreator"] /\
   Gen.C16.k_get_authority_metadata = ["call:Get"; "assign:metadata"; "call:Unmarshal"] /\
   Gen.C16.k_set_authority_metadata = ["call:Validate"; "call:GetDenomPrefixStore"; "call:Marshal"; "call:Set"] /\
   Gen.C16.k_set_admin = ["call:GetAuthorityMetadata"; "assign:metadata.Admin";
     "ret-call:setAuthorityMetadata"])%string /\
  (Gen.C16.t_get_token_denom = ["if(len(subdenom) > MaxSubdenomLength){err:ErrSubdenomTooLong}";
     "if(len(creator) > MaxCreatorLength){err:ErrCreatorTooLong}";
     "if(strings.Contains(creator, ""/"")){err:ErrInvalidCreator}"; "call:Join"; "ret-call:ValidateDenom"] /\
   Gen.C16.t_deconstruct_denom = ["call:ValidateDenom"; "call:Split";
     "if(len(strParts) < 3){err:ErrInvalidDenom}";
     "if(strParts[0] != ModuleDenomPrefix){err:ErrInvalidDenom}"; "assign:creator";
     "call:AccAddressFromBech32"; "call:Join"] /\
   Gen.C16.t_authority_validate = ["if(metadata.Admin != """"){call:AccAddressFromBech32}"])%string /\
  (Gen.C16.vb_create_denom = ["call:ValidateBasic"; "call:GetTokenDenom"] /\
   Gen.C16.vb_mint = ["call:ValidateBasic";
     "if(!m.Amount.IsValid() || m.Amount.Amount.Equal(sdkmath.ZeroInt())){err:sdktypeerrors.ErrInvalidCoins}"] /\
   Gen.C16.vb_burn = ["call:ValidateBasic";
     "if(!m.Amount.IsValid() || m.Amount.Amount.Equal(sdkmath.ZeroInt())){err:sdktypeerrors.ErrInvalidCoins}"] /\
   Gen.C16.vb_change_admin = ["call:ValidateBasic"; "call:DeconstructDenom"] /\
   Gen.C16.vb_set_denom_metadata = ["call:ValidateBasic"; "call:Validate"; "call:DeconstructDenom"])%string.
Proof.
  exact (conj (conj eq_refl (conj eq_refl (conj eq_refl eq_refl))) (conj (conj eq_refl (conj eq_refl (conj eq_refl (conj eq_refl eq_refl)))) (conj (conj eq_refl (conj eq_refl (conj eq_refl (conj eq_refl (conj eq_refl (conj eq_refl (conj eq_refl (conj eq_refl eq_refl)))))))) (conj (conj eq_refl (conj eq_refl eq_refl)) (conj eq_refl (conj eq_refl (conj eq_refl (conj eq_refl eq_refl)))))))).
Qed.
Print Assumptions model_is_of_current_source.
