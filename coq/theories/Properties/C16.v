(** C16 — only a factory token's admin controls it; supply = mints - burns; denoms are
    namespaced and unique.  Only statements closed by [exact]; proofs live in TokenFactory/*Proofs.v.

    Reading aid.
    * [c : cfg] is the environment: [addr_of c] = sdk.AccAddressFromBech32 (an ARBITRARY function
      string -> account; the only thing assumed of it is that the empty string is not an address),
      the tokenfactory and distribution module accounts, the bank's blocked addresses, the fee.
    * [deliver c s m] is one tokenfactory message as the chain delivers it: ValidateBasic, then
      the msg-server handler, committed only when the handler succeeds.  It returns the new state
      and [Ok returned-string] or [Err class]; on [Err] the state is the old one.
    * [op] is a delivered message [OMsg m] or something ELSE happening on the same bank: a send
      between accounts [OXSend], another module minting [OXMint] / burning [OXBurn].
      [step c s o] / [run c ops s] apply one op / a history; [succeeded c s o] says whether it went
      through.
    * [admin_rec s d]: the stored DenomAuthorityMetadata.Admin of [d] (None: nothing stored);
      [meta_of s d]: bank metadata of [d]; [bal], [supply]: the bank ledger.
    * [privileged m = Some d]: m is a mint / burn / change-admin / set-metadata naming [d].
    * [construct cr sub] = "factory/" ++ cr ++ "/" ++ sub;  [deconstruct] = types.DeconstructDenom.
    * [total c f ops s]: sum of [f] over the history, each op evaluated in the state it met;
      [minted_by c d], [burned_by c d]: amount of [d] a SUCCESSFUL factory mint / burn moved;
      [ext_delta c d]: what a successful other-module mint (+) or burn (-) did to [d];
      [created c ops s]: the denoms returned by the successful creates of the history, in order. *)
From Coq Require Import List ZArith Bool String.
From Paloma Require Import TokenFactory.Ledger TokenFactory.LedgerProofs TokenFactory.Denom
  TokenFactory.DenomProofs TokenFactory.Factory TokenFactory.FactoryProofs
  TokenFactory.Chain TokenFactory.ChainProofs.
From Paloma Require Gen.C16.
Import ListNotations.
Open Scope Z_scope.

(** ---- only the current admin ---- *)

(** Whatever the state, a delivered mint / burn / change-admin / set-metadata was sent by the
    stored admin of the denom it names, and that admin is a real account (so a denom whose admin
    is "" — renounced, or never created — obeys nobody). *)
Theorem only_admin_acts : forall (c : cfg), addr_of c EmptyString = None ->
  forall (s : state) (m : msg) (s' : state) (r : string) (d : denom),
  deliver c s m = (s', Ok r) -> privileged m = Some d ->
  admin_rec s d = Some (sender m) /\ exists a, addr_of c (sender m) = Some a.
Proof. exact only_admin_step. Qed.
Print Assumptions only_admin_acts.

(** The same along every history: at every point of every history from every state. *)
Theorem only_admin_acts_in_history : forall (c : cfg), addr_of c EmptyString = None ->
  forall (s0 : state) (pre post : list op) (m : msg) (d : denom),
  privileged m = Some d ->
  succeeded c (run c pre s0) (OMsg m) = true ->
  run c (pre ++ OMsg m :: post) s0 = run c post (step c (run c pre s0) (OMsg m)) /\
  admin_rec (run c pre s0) d = Some (sender m) /\ exists a, addr_of c (sender m) = Some a.
Proof. exact only_admin_hist. Qed.
Print Assumptions only_admin_acts_in_history.

(** Effect form.  In any state the factory can reach ([wf]: a stored admin implies bank metadata —
    true of the empty state and preserved by every op, next theorem), if ANY op changes the admin
    record or the metadata of a denom whose admin is [a], then that op is a delivered privileged
    message on that denom sent by [a], and [a] is a real account.  Other accounts' messages,
    creates, bank sends and other modules cannot. *)
Theorem control_only_by_admin : forall (c : cfg), addr_of c EmptyString = None ->
  forall (s : state) (o : op) (d : denom) (a : string),
  wf s -> admin_rec s d = Some a ->
  admin_rec (step c s o) d <> Some a \/ meta_of (step c s o) d <> meta_of s d ->
  exists m, o = OMsg m /\ sender m = a /\ privileged m = Some d /\ succeeded c s o = true /\
            exists acc, addr_of c a = Some acc.
Proof. exact control_only_by_admin. Qed.
Print Assumptions control_only_by_admin.

Theorem reachable_states_wf : forall (c : cfg), addr_of c EmptyString = None ->
  wf empty_state /\ forall (ops : list op) (s : state), wf s -> wf (run c ops s).
Proof. exact (fun c H => conj wf_empty (wf_run c H)). Qed.
Print Assumptions reachable_states_wf.

(** ---- minting and burning touch the admin's own balance only ---- *)

Theorem mint_burn_touch_admin_only : forall (c : cfg), addr_of c EmptyString = None ->
  (forall (s : state) (cr : string) (d : denom) (x : Z) (s' : state) (r : string),
    deliver c s (MMint cr d x) = (s', Ok r) ->
    exists a, addr_of c cr = Some a /\ admin_rec s d = Some cr /\ 0 < x /\
      bal (led s') a d = bal (led s) a d + x /\
      supply (led s') d = supply (led s) d + x /\
      (forall a' d', (a', d') <> (a, d) -> bal (led s') a' d' = bal (led s) a' d') /\
      (forall d', d' <> d -> supply (led s') d' = supply (led s) d') /\
      metas s' = metas s /\ admins s' = admins s) /\
  (forall (s : state) (cr : string) (d : denom) (x : Z) (s' : state) (r : string),
    deliver c s (MBurn cr d x) = (s', Ok r) ->
    exists a, addr_of c cr = Some a /\ admin_rec s d = Some cr /\ 0 < x <= bal (led s) a d /\
      bal (led s') a d = bal (led s) a d - x /\
      supply (led s') d = supply (led s) d - x /\
      (forall a' d', (a', d') <> (a, d) -> bal (led s') a' d' = bal (led s) a' d') /\
      (forall d', d' <> d -> supply (led s') d' = supply (led s) d') /\
      metas s' = metas s /\ admins s' = admins s).
Proof. exact (fun c H => conj (mint_touches_admin_only c H) (burn_touches_admin_only c H)). Qed.
Print Assumptions mint_burn_touch_admin_only.

(** ---- supply = mints - burns ---- *)

(** Every history, every start state, every denom string: the supply moved by exactly the
    successful factory mints minus the successful factory burns, plus what other modules did. *)
Theorem supply_eq_mints_minus_burns : forall (c : cfg), addr_of c EmptyString = None ->
  forall (ops : list op) (s : state) (d : denom),
  supply (led (run c ops s)) d =
  supply (led s) d + total c (minted_by c d) ops s - total c (burned_by c d) ops s
                   + total c (ext_delta c d) ops s.
Proof. exact supply_accounting. Qed.
Print Assumptions supply_eq_mints_minus_burns.

(** When no other module mints or burns [d] during the history (bank sends are allowed): *)
Theorem supply_eq_mints_minus_burns_closed : forall (c : cfg), addr_of c EmptyString = None ->
  forall (ops : list op) (s : state) (d : denom),
  Forall (no_external d) ops ->
  supply (led (run c ops s)) d =
  supply (led s) d + total c (minted_by c d) ops s - total c (burned_by c d) ops s.
Proof. exact supply_eq_mints_minus_burns_closed. Qed.
Print Assumptions supply_eq_mints_minus_burns_closed.

(** ---- namespace and uniqueness ---- *)

(** A successful create returns exactly factory/<creator>/<sub>; the creator is a valid address
    without '/', the denom deconstructs back to (creator's account, sub), it had no bank metadata
    before, and afterwards it has metadata and the creator as admin. *)
Theorem denom_namespace_and_unique : forall (c : cfg), addr_of c EmptyString = None ->
  (forall (s : state) (cr sub : string) (s' : state) (d : string),
    deliver c s (MCreate cr sub) = (s', Ok d) ->
    d = construct cr sub /\ contains_slash cr = false /\
    (exists a, addr_of c cr = Some a /\ deconstruct (addr_of c) d = Some (a, sub)) /\
    meta_of s d = None /\ meta_of s' d = Some 0 /\ admin_rec s' d = Some cr) /\
  (* nobody else gets a denom inside factory/<cr>/ *)
  (forall (s : state) (cr' sub' : string) (s' : state) (d cr sub : string),
    deliver c s (MCreate cr' sub') = (s', Ok d) ->
    d = construct cr sub -> contains_slash cr = false -> cr' = cr /\ sub' = sub) /\
  (* never twice, and never a denom that already exists *)
  (forall (ops : list op) (s : state), NoDup (created c ops s)) /\
  (forall (ops : list op) (s : state) (d : denom), meta_of s d <> None -> ~ In d (created c ops s)).
Proof.
  exact (fun c H => conj (create_in_own_namespace c)
                   (conj (namespace_exclusive c)
                   (conj (created_once c H) (existing_denom_never_created c H)))).
Qed.
Print Assumptions denom_namespace_and_unique.

(** The codec itself: namespaces of different creators are disjoint, DeconstructDenom inverts
    GetTokenDenom, and a denom that deconstructs IS factory/<valid address>/<sub>. *)
Theorem deconstruct_construct_roundtrip :
  (forall c1 s1 c2 s2 : string,
    contains_slash c1 = false -> contains_slash c2 = false ->
    construct c1 s1 = construct c2 s2 -> c1 = c2 /\ s1 = s2) /\
  (forall (addr_of : string -> option acct) (cr sub d : string) (a : acct),
    get_token_denom cr sub = Ok d -> addr_of cr = Some a -> deconstruct addr_of d = Some (a, sub)) /\
  (forall (addr_of : string -> option acct) (d : string) (a : acct) (sub : string),
    deconstruct addr_of d = Some (a, sub) ->
    exists cr, d = construct cr sub /\ addr_of cr = Some a /\ contains_slash cr = false /\
               validate_denom d = true) /\
  construct "paloma1abc" "foo" = "factory/paloma1abc/foo"%string.
Proof.
  exact (conj construct_injective (conj deconstruct_construct (conj deconstruct_shape eq_refl))).
Qed.
Print Assumptions deconstruct_construct_roundtrip.

(** ---- denoms the factory did not create ---- *)

(** A denom that does not deconstruct (native, ibc/…, malformed, wrong prefix, invalid creator):
    no delivered message changes its supply, admin record or metadata, and its balances move only
    as the creation fee of a create (a transfer from the creator to the community pool). *)
Theorem foreign_denoms_untouchable : forall (c : cfg), addr_of c EmptyString = None ->
  forall (s : state) (m : msg) (d : denom),
  deconstruct (addr_of c) d = None ->
  let s' := fst (deliver c s m) in
  supply (led s') d = supply (led s) d /\ admin_rec s' d = admin_rec s d /\ meta_of s' d = meta_of s d /\
  ((forall a, bal (led s') a d = bal (led s) a d) \/
   (exists cr sub, m = MCreate cr sub /\ In d (map fst (fee c)))).
Proof. exact foreign_step. Qed.
Print Assumptions foreign_denoms_untouchable.

(** Any denom string without an admin record that the history does not itself create — native,
    malformed, or a well-formed factory name nobody created — is never minted or burned through
    the factory, and never acquires an admin. *)
Theorem never_created_never_minted : forall (c : cfg), addr_of c EmptyString = None ->
  forall (ops : list op) (s : state) (d : denom),
  admin_rec s d = None -> ~ In d (created c ops s) ->
  total c (minted_by c d) ops s = 0 /\ total c (burned_by c d) ops s = 0 /\
  admin_rec (run c ops s) d = None.
Proof. exact never_created_never_minted. Qed.
Print Assumptions never_created_never_minted.

(** ---- the model is of the source as it is now ---- *)

(** The guard skeletons the translator reads from x/tokenfactory (ordered calls and conditions of
    every function on the path of the five messages) are the ones the model was written against,
    and the codec constants are the ones below.  Any dropped / added / reordered check makes this
    fail until the model has been looked at again. *)
Theorem model_is_of_current_source :
  (Gen.C16.module_denom_prefix = "factory" /\ Gen.C16.max_subdenom_length = 44 /\
   Gen.C16.max_creator_length = 75 /\ Gen.C16.module_name = "tokenfactory")%string /\
  (Gen.C16.srv_create_denom = ["call:CreateDenom"] /\
   Gen.C16.srv_mint = ["call:GetDenomMetaData"; "if(!denomExists){err:types.ErrDenomDoesNotExist}";
     "call:GetAuthorityMetadata";
     "if(msg.Metadata.Creator != authorityMetadata.GetAdmin()){err:types.ErrUnauthorized}"; "call:mintTo"] /\
   Gen.C16.srv_burn = ["call:GetAuthorityMetadata";
     "if(msg.Metadata.Creator != authorityMetadata.GetAdmin()){err:types.ErrUnauthorized}"; "call:burnFrom"] /\
   Gen.C16.srv_change_admin = ["call:GetAuthorityMetadata";
     "if(msg.Metadata.Creator != authorityMetadata.GetAdmin()){err:types.ErrUnauthorized}"; "call:setAdmin"] /\
   Gen.C16.srv_set_denom_metadata = ["call:Validate"; "call:GetAuthorityMetadata";
     "if(msg.Metadata.Creator != authorityMetadata.GetAdmin()){err:types.ErrUnauthorized}";
     "call:SetDenomMetaData"])%string /\
  (Gen.C16.k_mint_to = ["call:DeconstructDenom"; "call:MintCoins"; "call:AccAddressFromBech32";
     "ret-call:SendCoinsFromModuleToAccount"] /\
   Gen.C16.k_burn_from = ["call:DeconstructDenom"; "call:AccAddressFromBech32";
     "call:SendCoinsFromAccountToModule"; "ret-call:BurnCoins"] /\
   Gen.C16.k_create_denom = ["call:validateCreateDenom"; "call:chargeForCreateDenom";
     "call:createDenomAfterValidation"] /\
   Gen.C16.k_validate_create_denom = ["if(k.bankKeeper.HasSupply(ctx, subdenom)){err:Errorf}";
     "call:GetTokenDenom"; "call:GetDenomMetaData"; "if(found){err:types.ErrDenomExists}"] /\
   Gen.C16.k_charge_for_create_denom = ["assign:creationFee"; "call:AccAddressFromBech32";
     "if(creationFee != nil){call:FundCommunityPool}"] /\
   Gen.C16.k_create_denom_after_validation = ["assign:denomMetaData"; "call:SetDenomMetaData";
     "assign:authorityMetadata"; "call:setAuthorityMetadata"; "call:addDenomFromCreator"] /\
   Gen.C16.k_get_authority_metadata = ["call:Get"; "assign:metadata"; "call:Unmarshal"] /\
   Gen.C16.k_set_authority_metadata = ["call:Validate"; "call:GetDenomPrefixStore"; "call:Marshal"; "call:Set"] /\
   Gen.C16.k_set_admin = ["call:GetAuthorityMetadata"; "assign:metadata.Admin";
     "ret-call:setAuthorityMetadata"])%string /\
  (Gen.C16.t_get_token_denom = ["if(len(subdenom) > MaxSubdenomLength){err:ErrSubdenomTooLong}";
     "if(len(creator) > MaxCreatorLength){err:ErrCreatorTooLong}";
     "if(strings.Contains(creator, ""/"")){err:ErrInvalidCreator}"; "call:Join"; "ret-call:ValidateDenom"] /\
   Gen.C16.t_deconstruct_denom = ["call:ValidateDenom"; "call:Split";
     "if(len(strParts) < 3){err:ErrInvalidDenom}";
     "if(strParts[0] != ModuleDenomPrefix){err:ErrInvalidDenom}"; "assign:creator";
     "call:AccAddressFromBech32"; "call:Join"] /\
   Gen.C16.t_authority_validate = ["if(metadata.Admin != """"){call:AccAddressFromBech32}"])%string /\
  (Gen.C16.vb_create_denom = ["call:ValidateBasic"; "call:GetTokenDenom"] /\
   Gen.C16.vb_mint = ["call:ValidateBasic";
     "if(!m.Amount.IsValid() || m.Amount.Amount.Equal(sdkmath.ZeroInt())){err:sdktypeerrors.ErrInvalidCoins}"] /\
   Gen.C16.vb_burn = ["call:ValidateBasic";
     "if(!m.Amount.IsValid() || m.Amount.Amount.Equal(sdkmath.ZeroInt())){err:sdktypeerrors.ErrInvalidCoins}"] /\
   Gen.C16.vb_change_admin = ["call:ValidateBasic"; "call:DeconstructDenom"] /\
   Gen.C16.vb_set_denom_metadata = ["call:ValidateBasic"; "call:Validate"; "call:DeconstructDenom"])%string.
Proof.
  exact (conj (conj eq_refl (conj eq_refl (conj eq_refl eq_refl))) (conj (conj eq_refl (conj eq_refl (conj eq_refl (conj eq_refl eq_refl)))) (conj (conj eq_refl (conj eq_refl (conj eq_refl (conj eq_refl (conj eq_refl (conj eq_refl (conj eq_refl (conj eq_refl eq_refl)))))))) (conj (conj eq_refl (conj eq_refl eq_refl)) (conj eq_refl (conj eq_refl (conj eq_refl (conj eq_refl eq_refl)))))))).
Qed.
Print Assumptions model_is_of_current_source.

(** ======================================================================================
    Second round.  Reading aid for the extended chain model (TokenFactory/Chain.v):
    * [raw c s m]: the msg-server handler as a Go function — no ValidateBasic, no cache context;
      it returns the state it LEAVES BEHIND (also on failure) and the outcome;
      [deliver_raw] = ValidateBasic, then [raw], kept only on success.
    * [xstate] = the first-round state [st] + [params] (Params.DenomCreationFee, now state) +
      [index] (creator -> denoms store) + [pool] (distribution's community pool).
    * [xop]: [XBase o] a first-round op under the fee in force; [XRaw m] a raw msg-server call;
      [XWasm ct w] contract [ct]'s token_factory_msg through x/tokenfactory/bindings
      ([perform]: WCreate (optional metadata) / WMint d x mint_to / WBurn d x burn_from /
      WChangeAdmin / WSetMeta), under wasmd's commit-on-success; [XParams authority creator fee ok]
      MsgUpdateParams; [XGenesis] ExportGenesis + InitGenesis next to the same bank state.
      [honest o]: o is not a raw call (everything the chain can do).
    * [str_of] = sdk.AccAddress.String().  Assumed of bech32: "" is not an address, and String() of
      an account parses back to that account (both checked on every correspondence case).
    ====================================================================================== *)

(** ---- atomicity at delivery level; the raw msg server characterised ---- *)

(** A delivered message IS ValidateBasic followed by the raw handler with its writes kept only on
    success.  On its own the raw handler is not atomic — but a failed raw call never leaves a changed
    admin record or changed metadata, and a failed raw Mint (panics aside) leaves either nothing or,
    when the recipient is unparsable / blocked, exactly the minted amount on the module account and
    in the supply. *)
Theorem delivery_is_atomic_over_raw_handler : forall (c : cfg),
  (forall s m, deliver c s m = deliver_raw c s m) /\
  (forall s m s' e, raw c s m = (s', Err e) -> metas s' = metas s /\ admins s' = admins s) /\
  (forall s cr d x s' e, raw c s (MMint cr d x) = (s', Err e) -> e <> EPanic ->
     0 <= bal (led s) (mod_tf c) d ->
     s' = s \/
     ((e = EAddr \/ e = EBlocked) /\ metas s' = metas s /\ admins s' = admins s /\
      (forall a' d', bal (led s') a' d' = bal (led s) a' d' + bdelta (mod_tf c) d a' d' x) /\
      (forall d', supply (led s') d' = supply (led s) d' + sdelta d d' x))).
Proof.
  exact (fun c => conj (deliver_is_commit_on_success c)
               (conj (raw_failure_keeps_control c) (raw_mint_failure c))).
Qed.
Print Assumptions delivery_is_atomic_over_raw_handler.

(** The raw handler compares STRINGS: a privileged raw call goes through iff creator = stored admin
    string; for a non-empty creator that is the stored admin.  The empty creator matches the empty
    admin of a never-created (or renounced) denom: the witness below is accepted by [raw] and
    refused by [deliver] — ValidateBasic in front of the handler is needed (every path to the msg
    server has it: translator fact [sdk_router_validates_basic] + harness gate). *)
Theorem raw_handler_admin_match : forall (c : cfg),
  (forall s m s' r d, raw c s m = (s', Ok r) -> privileged m = Some d ->
     sender m = admin_str s d /\ (sender m <> EmptyString -> admin_rec s d = Some (sender m))) /\
  (exists c0 s m s' d, addr_of c0 EmptyString = None /\ privileged m = Some d /\ admin_rec s d = None /\
     raw c0 s m = (s', Ok EmptyString) /\ admin_rec s' d = Some "bob"%string /\
     deliver c0 s m = (s, Err EValidate)).
Proof.
  refine (fun c => conj (raw_admin_string_match c) _).
  exists XEx.cf, empty_state, (MChangeAdmin "" XEx.never "bob"), (set_admin empty_state XEx.never "bob"), XEx.never.
  repeat split.
Qed.
Print Assumptions raw_handler_admin_match.

(** ---- the wasm bindings: a contract is the admin ---- *)

Theorem wasm_only_admin_acts : forall (c : cfg) (str_of : acct -> string),
  addr_of c EmptyString = None -> (forall a, addr_of c (str_of a) = Some a) ->
  forall xs ct w xs' r d,
  perform c str_of xs ct w = (xs', Ok r) -> wprivileged w = Some d ->
  admin_rec (st xs) d = Some (str_of ct).
Proof. exact wasm_only_admin. Qed.
Print Assumptions wasm_only_admin_acts.

(** What "mint credits the admin only" means for MintTokens{mint_to_address}: the binding is the
    factory mint — which credits the admin contract and nobody else (first-round theorem) — followed
    by an ordinary bank send of exactly those coins out of the contract's OWN balance.  Net effect:
    supply +x, the recipient +x, every other balance of every denom unchanged (the admin's too,
    unless it is the recipient): NOBODY IS DEBITED.  BurnTokens debits the contract's own balance
    only ([burn_from_address] must be "" or the contract itself). *)
Theorem wasm_mint_burn_effects : forall (c : cfg) (str_of : acct -> string),
  addr_of c EmptyString = None -> (forall a, addr_of c (str_of a) = Some a) ->
  (forall xs ct d x to xs' r,
    perform c str_of xs ct (WMint d x to) = (xs', Ok r) ->
    exists rc s1,
      addr_of c to = Some rc /\ admin_rec (st xs) d = Some (str_of ct) /\ 0 < x /\
      deliver (cfg_at c xs) (st xs) (MMint (str_of ct) d x) = (s1, Ok EmptyString) /\
      step_out (cfg_at c xs) s1 (OXSend ct rc d x) = (st xs', Ok EmptyString) /\
      (forall a' d', bal (led (st xs')) a' d' = bal (led (st xs)) a' d' + bdelta rc d a' d' x) /\
      (forall d', supply (led (st xs')) d' = supply (led (st xs)) d' + sdelta d d' x) /\
      metas (st xs') = metas (st xs) /\ admins (st xs') = admins (st xs) /\
      params xs' = params xs /\ index xs' = index xs /\ pool xs' = pool xs) /\
  (forall xs ct d x from xs' r,
    perform c str_of xs ct (WBurn d x from) = (xs', Ok r) ->
    (from = EmptyString \/ from = str_of ct) /\ admin_rec (st xs) d = Some (str_of ct) /\
    0 < x <= bal (led (st xs)) ct d /\
    (forall a' d', bal (led (st xs')) a' d' = bal (led (st xs)) a' d' - bdelta ct d a' d' x) /\
    (forall d', supply (led (st xs')) d' = supply (led (st xs)) d' - sdelta d d' x) /\
    metas (st xs') = metas (st xs) /\ admins (st xs') = admins (st xs) /\
    params xs' = params xs /\ index xs' = index xs /\ pool xs' = pool xs).
Proof. exact (fun c str_of H1 H2 => conj (wasm_mint_effect c str_of H1 H2) (wasm_burn_effect c str_of H1 H2)). Qed.
Print Assumptions wasm_mint_burn_effects.

(** CreateDenom through the binding: factory/<contract>/<sub>, fresh, the contract is the admin and
    is indexed, the fee in force is paid by the contract into the community pool, nothing minted. *)
Theorem wasm_create_in_contract_namespace : forall (c : cfg) (str_of : acct -> string),
  (forall a, addr_of c (str_of a) = Some a) ->
  forall xs ct sub md xs' d,
  perform c str_of xs ct (WCreate sub md) = (xs', Ok d) ->
  d = construct (str_of ct) sub /\ meta_of (st xs) d = None /\
  admin_rec (st xs') d = Some (str_of ct) /\ meta_of (st xs') d <> None /\
  In (str_of ct, d) (index xs') /\
  (forall a' d', bal (led (st xs')) a' d' = bal (led (st xs)) a' d'
      - (if a' =? ct then amt_of (params xs) d' else 0)
      + (if a' =? mod_distr c then amt_of (params xs) d' else 0)) /\
  (forall d', supply (led (st xs')) d' = supply (led (st xs)) d') /\
  (forall d', pool_of xs' d' = pool_of xs d' + amt_of (params xs) d') /\
  params xs' = params xs /\
  (forall d', d' <> d -> admin_rec (st xs') d' = admin_rec (st xs) d' /\ meta_of (st xs') d' = meta_of (st xs) d') /\
  deconstruct (addr_of c) d = Some (ct, sub) /\ index xs' = idx_add (index xs) (str_of ct) d.
Proof. exact wasm_create_effect. Qed.
Print Assumptions wasm_create_in_contract_namespace.

(** ---- the creation fee and the params ---- *)

(** A delivered create charges exactly the fee IN FORCE at that moment ([params xs]): per denom,
    creator - amount, distribution module account + amount, community pool + amount; supply of every
    denom unchanged (the fee is not burned); a refused create charges nothing and changes nothing. *)
Theorem creation_fee_exact : forall (c : cfg) (str_of : acct -> string) (authority : string),
  (forall xs cr sub xs' d,
    xstep_out c str_of authority xs (XBase (OMsg (MCreate cr sub))) = (xs', Ok d) ->
    exists a, addr_of c cr = Some a /\
      (forall a' d', bal (led (st xs')) a' d' = bal (led (st xs)) a' d'
          - (if a' =? a then amt_of (params xs) d' else 0)
          + (if a' =? mod_distr c then amt_of (params xs) d' else 0)) /\
      (forall d', supply (led (st xs')) d' = supply (led (st xs)) d') /\
      (forall d', pool_of xs' d' = pool_of xs d' + amt_of (params xs) d') /\
      params xs' = params xs /\ In (cr, d) (index xs')) /\
  (forall xs cr sub xs' e,
    xstep_out c str_of authority xs (XBase (OMsg (MCreate cr sub))) = (xs', Err e) -> xs' = xs).
Proof.
  exact (fun c str_of authority => conj (create_charges_fee_in_force c str_of authority)
                                        (refused_create_charges_nothing c str_of authority)).
Qed.
Print Assumptions creation_fee_exact.

(** The fee changes only by a MsgUpdateParams whose authority AND creator are the keeper's authority
    (a real account) and whose coins validate; nothing else moves. *)
Theorem params_only_by_authority : forall (c : cfg) (str_of : acct -> string) (authority : string),
  forall xs a cr f v xs' r,
  xstep_out c str_of authority xs (XParams a cr f v) = (xs', Ok r) ->
  a = authority /\ cr = authority /\ v = true /\ (exists acc, addr_of c authority = Some acc) /\
  params xs' = f /\ st xs' = st xs /\ index xs' = index xs /\ pool xs' = pool xs.
Proof. exact params_only_authority. Qed.
Print Assumptions params_only_by_authority.

(** ---- all extended histories ---- *)

(** supply = mints - burns over every honest extended history: users' messages, contracts through
    the bindings, fee changes, genesis round trips; other modules' mint / burn as explicit deltas. *)
Theorem supply_eq_mints_minus_burns_extended : forall (c : cfg) (str_of : acct -> string) (authority : string),
  addr_of c EmptyString = None -> (forall a, addr_of c (str_of a) = Some a) ->
  forall (ops : list xop) (xs : xstate) (d : denom), Forall honest ops ->
  supply (led (st (xrun c str_of authority ops xs))) d =
  supply (led (st xs)) d + xtotal c str_of authority (xminted c str_of authority d) ops xs
                         - xtotal c str_of authority (xburned c str_of authority d) ops xs
                         + xtotal c str_of authority (xext c d) ops xs.
Proof. exact xsupply_accounting. Qed.
Print Assumptions supply_eq_mints_minus_burns_extended.

(** An existing denomination is never created again — by a message, a binding, or even a raw call,
    and not after a genesis round trip either: over EVERY extended history. *)
Theorem created_once_extended : forall (c : cfg) (str_of : acct -> string) (authority : string),
  addr_of c EmptyString = None -> (forall a, addr_of c (str_of a) = Some a) ->
  forall (ops : list xop) (xs : xstate), NoDup (xcreated c str_of authority ops xs).
Proof. exact xcreated_once. Qed.
Print Assumptions created_once_extended.

(** Only the current admin, for users (messages) and contracts (bindings) alike. *)
Theorem only_admin_acts_extended : forall (c : cfg) (str_of : acct -> string) (authority : string),
  addr_of c EmptyString = None -> (forall a, addr_of c (str_of a) = Some a) ->
  forall xs o xs' r a d,
  xstep_out c str_of authority xs o = (xs', Ok r) -> xprivileged str_of o = Some (a, d) ->
  admin_rec (st xs) d = Some a /\ exists acc, addr_of c a = Some acc.
Proof. exact xonly_admin_acts. Qed.
Print Assumptions only_admin_acts_extended.

(** ---- creator index and genesis ---- *)

(** [xwf]: first-round [wf] + every admin record is indexed + every index entry is a factory denom
    of the account its creator string parses to + stored admins are "" or addresses.  It holds at
    genesis, survives every honest history, and makes the index exact. *)
Theorem creator_index_exact : forall (c : cfg) (str_of : acct -> string) (authority : string),
  addr_of c EmptyString = None -> (forall a, addr_of c (str_of a) = Some a) ->
  (forall f, xwf c (empty_xstate f)) /\
  (forall ops xs, Forall honest ops -> xwf c xs -> xwf c (xrun c str_of authority ops xs)) /\
  (forall xs, xwf c xs ->
    (forall cr d, In d (denoms_of xs cr) ->
       admin_rec (st xs) d <> None /\ meta_of (st xs) d <> None /\
       exists a sub, deconstruct (addr_of c) d = Some (a, sub) /\ addr_of c cr = Some a) /\
    (forall d, admin_rec (st xs) d <> None -> exists cr, In d (denoms_of xs cr))).
Proof.
  exact (fun c str_of authority H1 H2 =>
    conj (xwf_empty c) (conj (xwf_run c str_of authority H1 H2) (index_exact c))).
Qed.
Print Assumptions creator_index_exact.

(** A genesis export / import never panics on a reachable state and keeps every admin record (of
    every denom string), the whole ledger, the params and the pool.  It RESETS the bank metadata of
    every factory denom to the bare one (observed on the real code: InitGenesis runs after bank's and
    calls createDenomAfterValidation — design/C16.md) and re-keys the index by the canonical spelling
    of the creator. *)
Theorem genesis_roundtrip_keeps_admins : forall (c : cfg) (str_of : acct -> string),
  (forall a, addr_of c (str_of a) = Some a) ->
  forall xs, xwf c xs ->
  exists xs', genesis_roundtrip c str_of xs = (xs', Ok EmptyString) /\
    (forall d, admin_rec (st xs') d = admin_rec (st xs) d) /\
    led (st xs') = led (st xs) /\ params xs' = params xs /\ pool xs' = pool xs /\
    (forall d, admin_rec (st xs) d <> None -> meta_of (st xs') d = Some 0) /\
    (forall d, admin_rec (st xs) d = None -> meta_of (st xs') d = meta_of (st xs) d) /\
    (forall cr d, In (cr, d) (index xs') <->
       exists cr0 a sub, In (cr0, d) (index xs) /\ deconstruct (addr_of c) d = Some (a, sub) /\ cr = str_of a) /\
    xwf c xs'.
Proof. exact genesis_roundtrip_effect. Qed.
Print Assumptions genesis_roundtrip_keeps_admins.

(** Effect form over the extended chain.  In a reachable state ([xwf]), if ANY honest op — a user's
    message, a contract's binding call, a fee change, another module, a genesis round trip — changes
    the admin record of a denom whose admin is [a], or (the genesis round trip aside, which resets
    bank metadata to the bare one) its metadata, then that op is a successful privileged call on that
    denom made by [a] (as a message sender, or as the contract whose address string is [a]). *)
Theorem control_only_by_admin_extended : forall (c : cfg) (str_of : acct -> string) (authority : string),
  addr_of c EmptyString = None -> (forall a, addr_of c (str_of a) = Some a) ->
  forall xs o d a,
  xwf c xs -> honest o -> admin_rec (st xs) d = Some a ->
  admin_rec (st (xstep c str_of authority xs o)) d <> Some a \/
    (o <> XGenesis /\ meta_of (st (xstep c str_of authority xs o)) d <> meta_of (st xs) d) ->
  xprivileged str_of o = Some (a, d) /\ xsucceeded c str_of authority xs o = true.
Proof. exact xcontrol_only_by_admin. Qed.
Print Assumptions control_only_by_admin_extended.

(** ---- third round: whole transactions through the ante decorator ---- *)

(** [deliver_tx xs g tx]: baseapp.runTx for a transaction of tokenfactory messages, each with its
    Metadata.Signers as written (the accounts whose signatures the SDK verifies for it) — ValidateBasic
    of every message, x/paloma's VerifyAuthorisedSignatureDecorator over EVERY message ([g] = the fee
    grants in x/feegrant), then the handlers in order, committed only when all succeed.
    Only the admin, at transaction level: in a delivered transaction every message, wherever it
    stands, has a creator whose account signed it or fee-granted one of its signers
    ([creator_authorised]); and a privileged message's creator is the stored admin of its denom at the
    moment the message runs.  The delivered transaction is an honest history of its messages. *)
Theorem only_admin_acts_at_tx_level : forall (c : cfg) (str_of : acct -> string) (authority : string),
  addr_of c EmptyString = None -> (forall a, addr_of c (str_of a) = Some a) ->
  forall xs g tx xs' r,
  deliver_tx c str_of authority xs g tx = (xs', Ok r) ->
  xs' = xrun c str_of authority (ops_of tx) xs /\
  forall pre t post, tx = pre ++ t :: post ->
    creator_authorised c g t /\
    forall d, privileged (fst t) = Some d ->
      admin_rec (st (xrun c str_of authority (ops_of pre) xs)) d = Some (sender (fst t)) /\
      exists acc, addr_of c (sender (fst t)) = Some acc.
Proof. exact tx_only_admin_acts. Qed.
Print Assumptions only_admin_acts_at_tx_level.

(** A refused transaction leaves nothing; every history of transactions and other honest ops is an
    honest message-level history (so supply accounting, uniqueness, the effect-form theorem and the
    index invariant above apply to it), and [xwf] survives it.  The witness shows the decorator must
    look at EVERY message: a transaction signed by bob alone, [bob's own create; ChangeAdmin in
    alice's name], is refused — its handlers alone would make bob the admin of alice's denom. *)
Theorem tx_histories_are_honest_histories : forall (c : cfg) (str_of : acct -> string) (authority : string),
  addr_of c EmptyString = None -> (forall a, addr_of c (str_of a) = Some a) ->
  (forall xs g tx xs' e, deliver_tx c str_of authority xs g tx = (xs', Err e) -> xs' = xs) /\
  (forall ts xs, Forall thonest ts ->
     exists ops, Forall honest ops /\ trun c str_of authority ts xs = xrun c str_of authority ops xs) /\
  (forall ts xs, Forall thonest ts -> xwf c xs -> xwf c (trun c str_of authority ts xs)) /\
  (exists c0 n0 xs0 tx0 d0, admin_rec (st xs0) d0 = Some "alice"%string /\
     deliver_tx c0 n0 "gov" xs0 [] tx0 = (xs0, Err EAnte) /\
     exists x', run_msgs c0 n0 "gov" xs0 tx0 = Ok x' /\ admin_rec (st x') d0 = Some "bob"%string).
Proof.
  refine (fun c str_of authority H1 H2 =>
    conj (deliver_tx_err c str_of authority)
   (conj (trun_is_honest_history c str_of authority H1 H2)
   (conj (xwf_trun c str_of authority H1 H2) _))).
  exists XEx.cf, XEx.name, XEx.s17, XEx.evil, XEx.dc.
  destruct XEx.tx_ante_needed as (A & B & C & _). auto.
Qed.
Print Assumptions tx_histories_are_honest_histories.

(** ---- the second-round model is of the source as it is now ---- *)

(** The msg service router of the pinned cosmos-sdk calls ValidateBasic before the service method
    (so gov, authz MsgExec, wasm stargate/any messages, ICA host and baseapp itself all do); the only
    functions that build the tokenfactory msg server themselves are the four bindings below (each
    calls ValidateBasic first: their skeletons) and the module's RegisterServices; libmeta.ValidateBasic
    parses the creator together with the signers; bank's genesis runs before tokenfactory's; and the
    guard skeletons of the bindings, UpdateParams, the index and the genesis code are the ones
    Chain.v was written against. *)
Theorem model_is_of_current_source_round2 :
  (Gen.C16.sdk_router_validates_basic = true /\ Gen.C16.bank_genesis_before_tokenfactory = true) /\
  (
   Gen.C16.b_dispatch = ["case(contractMsg.CreateDenom != nil){ret-call:createDenom}"; "case(contractMsg.MintTokens != nil){ret-call:mintTokens}"; "case(contractMsg.ChangeAdmin != nil){ret-call:changeAdmin}"; "case(contractMsg.BurnTokens != nil){ret-call:burnTokens}"; "case(contractMsg.SetMetadata != nil){ret-call:setMetadata}"; "err:libwasm.ErrUnrecognizedMessage"] /\
   Gen.C16.b_perform_create_denom = ["if(createDenom == nil){err:wasmvmtypes.InvalidRequest{Err: ""create denom null create denom""}}"; "call:NewMsgServerImpl"; "call:NewMsgCreateDenom"; "call:ValidateBasic"; "call:CreateDenom"; "if(createDenom.Metadata != nil){assign:newDenom;call:PerformSetMetadata}"; "ret-call:Marshal"] /\
   Gen.C16.b_perform_mint = ["if(mint == nil){err:wasmvmtypes.InvalidRequest{Err: ""mint token null mint""}}"; "call:parseAddress"; "assign:coin"; "call:NewMsgMint"; "call:ValidateBasic"; "call:NewMsgServerImpl"; "call:Mint"; "call:SendCoins"] /\
   Gen.C16.b_change_admin = ["if(changeAdmin == nil){err:wasmvmtypes.InvalidRequest{Err: ""changeAdmin is nil""}}"; "call:parseAddress"; "call:NewMsgChangeAdmin"; "call:ValidateBasic"; "call:NewMsgServerImpl"; "call:ChangeAdmin"] /\
   Gen.C16.b_perform_burn = ["if(burn == nil){err:wasmvmtypes.InvalidRequest{Err: ""burn token null mint""}}"; "if(burn.BurnFromAddress != """" && burn.BurnFromAddress != contractAddr.String()){err:wasmvmtypes.InvalidRequest{Err: ""BurnFromAddress must be \""\""""}}"; "assign:coin"; "call:NewMsgBurn"; "call:ValidateBasic"; "call:NewMsgServerImpl"; "call:Burn"] /\
   Gen.C16.b_perform_set_metadata = ["call:GetAuthorityMetadata"; "if(auth.Admin != contractAddr.String()){err:wasmvmtypes.InvalidRequest{Err: ""only admin can set metadata""}}"; "if(metadata.Base == """"){assign:metadata.Base}"; "else{if(metadata.Base != denom){err:wasmvmtypes.InvalidRequest{Err: ""Base must be the same as denom""}}}"; "call:wasmMetadataToSdk"; "call:Validate"; "call:SetDenomMetaData"] /\
   Gen.C16.b_parse_address = ["call:AccAddressFromBech32"; "call:VerifyAddressFormat"] /\
   Gen.C16.srv_update_params = ["call:ValidateBasic"; "call:Validate"; "if(msg.Authority != msg.Metadata.Creator){err:types.ErrUnauthorized}"; "if(msg.Authority != server.authority){err:types.ErrUnauthorized}"; "call:SetParams"] /\
   Gen.C16.vb_update_params = ["call:ValidateBasic"; "if(m.Authority != m.Metadata.Creator){err:ErrUnauthorized}"; "call:AccAddressFromBech32"; "ret-call:Validate"] /\
   Gen.C16.k_add_denom_from_creator = ["call:GetCreatorPrefixStore"; "call:Set"] /\
   Gen.C16.k_get_denoms_from_creator = ["call:GetCreatorPrefixStore"; "call:Iterator"; "defer"; "assign:denoms"; "loop{call:append}"; "err:denoms"] /\
   Gen.C16.k_init_genesis = ["if(genState.Params.DenomCreationFee == nil){call:NewCoins}"; "call:SetParams"; "range(genState.GetFactoryDenoms()){call:DeconstructDenom;panic-on-err;call:createDenomAfterValidation;panic-on-err;call:setAuthorityMetadata;panic-on-err}"] /\
   Gen.C16.k_export_genesis = ["assign:genDenoms"; "call:GetAllDenomsIterator"; "defer"; "loop{call:string;call:GetAuthorityMetadata;panic-on-err;call:append}"; "err:&types.GenesisState{ FactoryDenoms: genDenoms, Params: k.GetParams(ctx), }"] /\
   Gen.C16.t_genesis_validate = ["call:Validate"; "assign:seenDenoms"; "range(gs.GetFactoryDenoms()){if(seenDenoms[denom.GetDenom()]){err:ErrInvalidGenesis};assign:seenDenoms[denom.GetDenom()];call:DeconstructDenom;if(denom.AuthorityMetadata.Admin != """"){call:AccAddressFromBech32}}"] /\
   Gen.C16.libmeta_validate_basic = ["call:GetSigners"; "call:GetCreator"; "if(len(signers) < 1){err:ErrMissingSigners}"; "range(append(signers, creator)){call:AccAddressFromBech32}"] /\
   Gen.C16.direct_msg_server_callers = ["x/tokenfactory/bindings/msg_plugin.go:ChangeAdmin"; "x/tokenfactory/bindings/msg_plugin.go:PerformBurn"; "x/tokenfactory/bindings/msg_plugin.go:PerformCreateDenom"; "x/tokenfactory/bindings/msg_plugin.go:PerformMint"; "x/tokenfactory/module.go:RegisterServices"])%string.
Proof. repeat split; reflexivity. Qed.
Print Assumptions model_is_of_current_source_round2.

(** The decorator's loop, as the translator reads it from x/paloma/ante.go: no statement inside the
    `for _, msg := range msgs` body hands the transaction on to [next] (it would leave the remaining
    messages unchecked), and the "signed by its own creator" branch ends in `continue`. *)
Theorem model_is_of_current_source_round3 :
  Gen.C16.ante_next_calls_inside_loop = 0 /\
  Gen.C16.ante_signed_by_creator_branch = ["call:Debug"; "continue"]%string /\
  Gen.C16.ante_loop_tail = ["call:AllowancesByGranter"; "call:Debug"; "assign:grantsLkUp"; "range(grants.GetAllowances()){if(v == nil){continue};call:Debug;assign:grantsLkUp[v.GetGrantee()]}"; "call:make"; "range(signers){if(v, found := grantsLkUp[signer.String()]; found){call:Debug;call:append}}"; "if(len(grantees) < 1){err:Errorf}"; "call:Debug"]%string.
Proof. repeat split; reflexivity. Qed.
Print Assumptions model_is_of_current_source_round3.
