(** C10 — validator snapshots are faithful, immutable, correctly projected to chains.
    Only statements closed by [exact]; proofs live in Valset/SnapshotProofs.v and Evm/CompassProofs.v. *)
From Coq Require Import List ZArith Bool.
From Paloma Require Import Base.Num Valset.Snapshot Valset.SnapshotProofs.
Import ListNotations.
Open Scope Z_scope.

Theorem snapshot_faithful : forall st, let sn := create st in
  sn_vals sn = map (snapval_of st) (filter (eligible st) (st_vals st)) /\
  (forall x, In x (sn_vals sn) <->
     exists v, In v (st_vals st) /\
       sv_bonded v = true /\ sv_jailed v = false /\
       (forall c, In c (st_active st) -> exists e, In e (infos_of st (sv_addr v)) /\ ei_chain e = c) /\
       x = {| v_addr := sv_addr v; v_share := sv_tokens v; v_infos := infos_of st (sv_addr v) |}) /\
  sn_total sn = zsum (map v_share (sn_vals sn)) /\
  sn_chains sn = [].
Proof. exact create_faithful. Qed.
Print Assumptions snapshot_faithful.
