(** C10 — validator snapshots are faithful, immutable, correctly projected to chains.
    Only statements closed by [exact]; proofs live in Valset/SnapshotProofs.v and Evm/CompassProofs.v.
    [run ops = fold_left step ops init] ranges over all histories of staking changes, registrations,
    active-chain changes, snapshot builds and on-chain activations; [crun] adds valset sends. *)
From Coq Require Import String.
From Coq Require Import List ZArith Bool Permutation Sorted.
From Paloma Require Import Base.Num Valset.Snapshot Valset.SnapshotProofs Evm.Compass Evm.CompassProofs.
From Paloma Require Import Valset.Worthy Valset.WorthyProofs.
From Paloma Require Valset.WorthyFloat.
From Paloma Require Gen.C10.
Import ListNotations.
Open Scope Z_scope.

(** Every snapshot lists exactly the bonded, unjailed validators that have an account on every
    active chain, each share = the validator's bonded stake, total = their sum. *)
Theorem snapshot_faithful : forall st, let sn := create st in
  sn_vals sn = map (snapval_of st) (filter (eligible st) (st_vals st)) /\
  (forall x, In x (sn_vals sn) <->
     exists v, In v (st_vals st) /\
       sv_bonded v = true /\ sv_jailed v = false /\
       (forall c, In c (st_active st) -> exists e, In e (infos_of st (sv_addr v)) /\ ei_chain e = c) /\
       x = {| v_addr := sv_addr v; v_share := sv_tokens v; v_infos := infos_of st (sv_addr v) |}) /\
  sn_total sn = zsum (map v_share (sn_vals sn)) /\
  sn_chains sn = [].
Proof. exact create_faithful. Qed.
Print Assumptions snapshot_faithful.

(** ... and every snapshot found in the store after any history is such a snapshot: the one
    createNewSnapshot returned at its build, under the id issued then, plus added chains. *)
Theorem stored_snapshot_is_faithful : forall ops id sn,
  find_snapshot (run ops) id = Some sn ->
  exists pre post cs, ops = pre ++ OBuild true :: post /\
    st_counter (run pre) + 1 = id /\
    sn = add_chains cs (with_id id (create (run pre))).
Proof. exact stored_is_created. Qed.
Print Assumptions stored_snapshot_is_faithful.

(** Snapshot ids strictly increase. *)
Theorem ids_strictly_increase : forall ops,
  let st := run ops in
  (let st' := step st (OBuild true) in
   st_counter st' = st_counter st + 1 /\
   (forall id sn, find_snapshot st id = Some sn -> id < st_counter st') /\
   find_snapshot st (st_counter st') = None /\
   exists sn, find_snapshot st' (st_counter st') = Some sn /\ sn_id sn = st_counter st') /\
  (forall o, o <> OBuild true ->
     st_counter (step st o) = st_counter st /\
     forall id, (exists sn, find_snapshot (step st o) id = Some sn) <-> (exists sn, find_snapshot st id = Some sn)) /\
  (forall ops', st_counter st <= st_counter (run (ops ++ ops'))).
Proof. exact ids_increase. Qed.
Print Assumptions ids_strictly_increase.

(** The current snapshot is the one with the highest id. *)
Theorem current_is_max_id : forall ops, let st := run ops in
  (forall id sn, find_snapshot st id = Some sn -> id <= st_counter st /\ sn_id sn = id) /\
  (0 < st_counter st -> exists sn, current st = Some sn /\ sn_id sn = st_counter st) /\
  (st_counter st = 0 -> current st = None /\ forall id, find_snapshot st id = None).
Proof. exact current_max. Qed.
Print Assumptions current_is_max_id.

(** A stored snapshot never changes except that chains are appended. *)
Theorem stored_snapshot_immutable_but_chains : forall ops ops' id sn,
  find_snapshot (run ops) id = Some sn ->
  exists cs, find_snapshot (run (ops ++ ops')) id = Some (add_chains cs sn).
Proof. exact immutable_but_chains. Qed.
Print Assumptions stored_snapshot_immutable_but_chains.

(** The validator set sent to a chain is the snapshot restricted to the validators with an account
    there (one entry each), power = floor (share * 2^32 / total); powers sum to at most 2^32. *)
Theorem powers_floor_and_sum_le_2p32 : forall sn c,
  nonneg (sn_vals sn) ->
  let total := zsum (map v_share (sn_vals sn)) in
  transform sn c = flat_map (ideal_entry c total) (sort_desc (sn_vals sn)) /\
  Permutation (sort_desc (sn_vals sn)) (sn_vals sn) /\
  StronglySorted (fun a b => v_share b <= v_share a) (sort_desc (sn_vals sn)) /\
  Permutation (transform sn c) (flat_map (ideal_entry c total) (sn_vals sn)) /\
  (forall a p, In (a, p) (transform sn c) ->
     exists v e, In v (sn_vals sn) /\ find (on_chain c) (v_infos v) = Some e /\ In e (v_infos v) /\
       ei_evm e = true /\ ei_chain e = c /\ a = ei_addr e /\
       p = v_share v * 4294967296 / total /\ 0 <= p <= 4294967296 /\
       (0 < total -> p * total <= v_share v * 4294967296 < (p + 1) * total)) /\
  (forall v e, In v (sn_vals sn) -> find (on_chain c) (v_infos v) = Some e ->
     In (ei_addr e, v_share v * 4294967296 / total) (transform sn c)) /\
  0 <= zsum (map snd (transform sn c)) <= 4294967296.
Proof. exact powers_floor_sum. Qed.
Print Assumptions powers_floor_and_sum_le_2p32.

(** The gate: isEnoughToReachConsensus holds exactly when the (true, unwrapped) sum reaches 2^33/3. *)
Theorem quorum_gate_exact : forall sn c, nonneg (sn_vals sn) ->
  (is_enough (map snd (transform sn c)) = true <-> 2 ^ 33 / 3 <= zsum (map snd (transform sn c))).
Proof. exact enough_iff_quorum. Qed.
Print Assumptions quorum_gate_exact.

(** It is only sent when those powers sum to at least two thirds of 2^32: every valset message ever
    enqueued is the projection of the snapshot stored under its id at that moment, with quorum. *)
Theorem sent_only_if_quorum : forall ops c id vs,
  ops_nonneg ops ->
  In (c, id, vs) (cs_sent (crun ops)) ->
  exists pre post sn,
    ops = pre ++ CSend id c true :: post /\
    find_snapshot (cs_val (crun pre)) id = Some sn /\ sn_id sn = id /\
    vs = transform sn c /\
    2 ^ 33 / 3 <= zsum (map snd vs) <= 2 ^ 32.
Proof. exact sent_had_quorum. Qed.
Print Assumptions sent_only_if_quorum.

(** The constant: thresholdForConsensus = floor(2^33/3) = 2863311530, two power units short of
    2/3 * 2^32 times 3; maxPower = 2^32. *)
Theorem quorum_constant_exact :
  threshold = 2 ^ 33 / 3 /\ 3 * threshold = 2 * 2 ^ 32 - 2 /\ max_power = 2 ^ 32 /\
  (forall s, threshold <= s <-> 2 * 2 ^ 32 <= 3 * s + 2).
Proof. exact quorum_constant. Qed.
Print Assumptions quorum_constant_exact.

(** The source has the shape the models assume (translator output): integer normalisation, one
    entry per validator, the eligibility conjuncts, the share source, and the only writers of the
    snapshot store. *)
Theorem source_shape_as_modelled :
  Gen.C10.power_uses_float = false /\
  Gen.C10.power_is_integer_mul_quo = true /\
  Gen.C10.account_match_stops_at_first = true /\
  Gen.C10.quorum_comparison = "sum >= thresholdForConsensus"%string /\
  Gen.C10.sort_comparator = "validators[i].ShareCount.GTE(validators[j].ShareCount)"%string /\
  Gen.C10.account_match =
    "strings.ToLower(ext.GetChainType()) == xchainType && ext.GetChainReferenceID() == chainReferenceID"%string /\
  Gen.C10.eligibility_conjuncts =
    ["val.IsBonded()"; "!val.IsJailed()"; "k.ValidatorSupportsAllChains(ctx, bz)"]%string /\
  Gen.C10.share_source = "val.GetBondedTokens()"%string /\
  Gen.C10.total_update = "snapshot.TotalShares.Add(val.GetBondedTokens())"%string /\
  Gen.C10.snapshot_store_writers = ["SaveModifiedSnapshot"; "SetSnapshotOnChain"; "setSnapshotAsCurrent"]%string /\
  Gen.C10.snapshot_id_allocators = ["setSnapshotAsCurrent"]%string /\
  Gen.C10.set_on_chain_mutations = ["snapshot.Chains = append(snapshot.Chains, chainReferenceID)"]%string.
Proof. exact source_shape. Qed.
Print Assumptions source_shape_as_modelled.

(** The order among validators with equal shares (sort.SliceStable with a non-strict comparator:
    algorithm-dependent above 20 elements) is immaterial (round 2): for ANY arrangement of the
    snapshot's validators the entries are a permutation of the projection, with the same sum bounds
    and the same exact gate. *)
Theorem sent_content_independent_of_tie_order : forall sn c vs',
  nonneg (sn_vals sn) -> Permutation vs' (sn_vals sn) ->
  let total := zsum (map v_share (sn_vals sn)) in
  let out := flat_map (entries c total) vs' in
  Permutation out (transform sn c) /\
  Permutation out (flat_map (ideal_entry c total) (sn_vals sn)) /\
  0 <= zsum (map snd out) <= 4294967296 /\
  (is_enough (map snd out) = true <-> 2 ^ 33 / 3 <= zsum (map snd out)).
Proof. exact any_order. Qed.
Print Assumptions sent_content_independent_of_tie_order.

(** "has an account on every active remote chain", down to the comparison of the ids (round 2).
    evm Keeper.MissingChains — the only thing behind ValidatorSupportsAllChains — reports exactly the
    ACTIVE chains whose reference id does not occur, byte for byte, among the ids it is given, in
    store order; ids are Go strings ([string] = byte sequence, [=] = Go's [==]): a spelling that differs
    in letter case, blanks or look-alike letters is another id. *)
Theorem missing_chains_exact : forall input chains,
  (forall c, In c (missing_chains input chains) <-> In (c, true) chains /\ ~ In c input) /\
  missing_chains input chains = filter (fun c => negb (id_in c input)) (map fst (filter snd chains)) /\
  (missing_chains input chains = [] <-> forall c, In (c, true) chains -> In c input).
Proof.
  intros input chains.
  exact (conj (missing_chains_spec input chains) (conj (missing_chains_order input chains) (missing_nil_iff input chains))).
Qed.
Print Assumptions missing_chains_exact.

(** ValidatorSupportsAllChains (= MissingChains of the reference ids of the validator's accounts is
    empty) holds exactly when every active chain's id EQUALS the reference id of one of its accounts. *)
Theorem supports_all_chains_exact : forall st a,
  supports_all st a = true <->
  forall c, In c (st_active st) -> exists e, In e (infos_of st a) /\ ei_chain e = c.
Proof. exact supports_all_spec. Qed.
Print Assumptions supports_all_chains_exact.

(** The source compares ids the way the model does: the set is keyed by the input id as given, the
    lookup uses the chain's id as stored, inactive chains are skipped, no call in MissingChains or
    ValidatorSupportsAllChains rewrites a string; the chain type is lower-cased and compared with
    "evm"; SaveModifiedSnapshot (not an operation of the history model) has no caller outside tests
    and the other store writers are called from where the model says. *)
Theorem source_ids_as_modelled :
  Gen.C10.missing_chains_set_build =
    ["range inputChainReferenceIDs -> chainReferenceID"; "supportedChainMap[chainReferenceID] = true"]%string /\
  Gen.C10.missing_chains_walk =
    ["range allChains -> chain";
     "chainReferenceID := chain.GetChainReferenceID()";
     "if !chain.IsActive() { continue }";
     "if _, found := supportedChainMap[chainReferenceID]; !found { unsuportedChainReferenceIDs = append(unsuportedChainReferenceIDs, chainReferenceID) }"]%string /\
  Gen.C10.missing_chains_calls =
    ["append"; "chain.GetChainReferenceID"; "chain.IsActive"; "k.GetAllChainInfos"; "k.Logger";
     "k.Logger(sdkCtx).Error"; "len"; "make"; "sdk.UnwrapSDKContext"]%string /\
  Gen.C10.missing_chains_normalising_calls = [] /\
  Gen.C10.supports_all_input_element = "v.GetChainReferenceID()"%string /\
  Gen.C10.supports_all_result = "len(missingChains) == 0"%string /\
  Gen.C10.supports_all_returns = ["false"; "len(missingChains) == 0"]%string /\
  Gen.C10.supports_all_normalising_calls = [] /\
  Gen.C10.xchain_type = "evm"%string /\
  Gen.C10.callers_of_SaveModifiedSnapshot = [] /\
  Gen.C10.callers_of_setSnapshotAsCurrent = ["x/valset/keeper:TriggerSnapshotBuild"]%string /\
  Gen.C10.callers_of_SetSnapshotOnChain = ["x/evm/keeper:attest"]%string /\
  Gen.C10.callers_of_TriggerSnapshotBuild = ["x/skyway/keeper:addValidators"; "x/valset:EndBlock"]%string.
Proof. exact source_ids_shape. Qed.
Print Assumptions source_ids_as_modelled.

(** Every sender has the shape of [CSend] (translator, round 2): the three functions that let a
    valset leave for a remote chain each guard the valset they use with isEnoughToReachConsensus and
    return when it fails; nobody else calls SendValsetMsgForChain. *)
Theorem source_gates_as_modelled :
  Gen.C10.quorum_gates =
    ["PublishValsetToChain: valset valset from parameter; gate on valset returns=true before use=true";
     "deploySmartContractToChain: valset valset from transformSnapshotToCompass; gate on valset returns=true before use=true";
     "justInTimeValsetUpdate: valset latestValset from transformSnapshotToCompass; gate on latestValset returns=true before use=true"]%string /\
  Gen.C10.projection_calls =
    ["GetValsetByID: transformSnapshotToCompass(snapshot, req.GetChainReferenceID(), logger)";
     "PublishSnapshotToAllChains: transformSnapshotToCompass(snapshot, chain.GetChainReferenceID(), logger)";
     "attestTransactionIntegrity: transformSnapshotToCompass(snapshot, chainReferenceID, logger)";
     "deploySmartContractToChain: transformSnapshotToCompass(snapshot, chainInfo.GetChainReferenceID(), logger)";
     "justInTimeValsetUpdate: transformSnapshotToCompass(latestSnapshot, chainReferenceID, k.Logger(sdkCtx))"]%string /\
  Gen.C10.callers_of_SendValsetMsgForChain =
    ["x/evm/keeper:PublishValsetToChain"; "x/evm/keeper:justInTimeValsetUpdate"]%string /\
  Gen.C10.callers_of_PublishValsetToChain = ["x/evm/keeper:PublishSnapshotToAllChains"]%string.
Proof. exact source_gates_shape. Qed.
Print Assumptions source_gates_as_modelled.

(** When a snapshot is stored (round 2): isNewSnapshotWorthy is part of the model ([worthy]), so a
    history consists of environment changes, TriggerSnapshotBuild and SetSnapshotOnChain only — the
    model decides by itself whether a build stores.  Every such history is one of the histories
    [run] ranges over, hence every theorem above holds for it. *)
Theorem real_histories_are_histories : forall ops, rrun ops = run (resolve_from init ops).
Proof. exact rrun_is_run. Qed.
Print Assumptions real_histories_are_histories.

(** After every TriggerSnapshotBuild there is a current snapshot: the faithful one just created,
    under the next id — or, when the build was not stored, the previous current snapshot, which
    [unstored_build_leaves_close_snapshot] relates to the faithful one. *)
Theorem current_after_build : forall ops,
  let st := rrun ops in
  let st' := rstep st RBuild in
  exists cur, current st' = Some cur /\
    ((build_verdict st = true /\ cur = with_id (st_counter st + 1) (create st) /\ st_counter st' = st_counter st + 1)
     \/ (build_verdict st = false /\ st' = st /\ current st = Some cur /\ worthy (Some cur) (create st) = false)).
Proof. exact after_build. Qed.
Print Assumptions current_after_build.

(** A build is not stored only if the current snapshot holds the same validators, ranked the same
    by share, every stake fraction (18 decimals) within 1 % of the new one, and every account key
    of every validator still registered; the very first build is always stored. *)
Theorem unstored_build_leaves_close_snapshot : forall cur new,
  worthy (Some cur) new = false ->
  length (sn_vals cur) = length (sn_vals new) /\
  map v_addr (sort_asc (sn_vals cur)) = map v_addr (sort_asc (sn_vals new)) /\
  Permutation (map v_addr (sn_vals cur)) (map v_addr (sn_vals new)) /\
  (forall c n, In (c, n) (combine (sort_asc (sn_vals cur)) (sort_asc (sn_vals new))) ->
     v_addr c = v_addr n /\
     Z.abs (fraction (v_share c) (sn_total cur) - fraction (v_share n) (sn_total new)) < one_percent /\
     length (v_infos c) = length (v_infos n) /\
     forall e, In e (v_infos c) -> exists e', In e' (v_infos n) /\ acc_key e' = acc_key e).
Proof. exact unstored_is_close. Qed.
Print Assumptions unstored_build_leaves_close_snapshot.

(** isNewSnapshotWorthy / TriggerSnapshotBuild have the shape [worthy] / [rstep] follow (translator). *)
Theorem source_worthy_as_modelled :
  Gen.C10.worthy_return_true_conditions =
    ["currentSnapshot == nil";
     "len(currentSnapshot.GetValidators()) != len(newSnapshot.GetValidators())";
     "_, ok := currentMap[val.GetAddress().String()]; !ok";
     "!sortedCurrent[i].GetAddress().Equals(sortedNew[i].GetAddress())";
     "percentageCurrent.Sub(percentageNow).Abs().MustFloat64() >= 0.01";
     "len(currentVal.ExternalChainInfos) != len(newVal.ExternalChainInfos)";
     "!ok";
     "len(newv.Traits) != len(currv.Traits)";
     "_, fnd := newTraitMap[k]; !fnd"]%string /\
  Gen.C10.worthy_sort_less = "ret[i].ShareCount.LT(ret[j].ShareCount)"%string /\
  Gen.C10.worthy_fractions =
    ["percentageCurrent := sdkmath.LegacyNewDecFromInt(sortedCurrent[i].ShareCount).QuoInt(currentSnapshot.TotalShares)";
     "percentageNow := sdkmath.LegacyNewDecFromInt(sortedNew[i].ShareCount).QuoInt(newSnapshot.TotalShares)"]%string /\
  Gen.C10.worthy_account_key =
    "fmt.Sprintf(""%s-%s-%s"", acc.GetChainReferenceID(), acc.GetChainType(), acc.GetAddress())"%string /\
  Gen.C10.trigger_build_calls =
    ["createNewSnapshot"; "GetCurrentSnapshot"; "isNewSnapshotWorthy"; "setSnapshotAsCurrent"; "jailReasonStore"]%string /\
  Gen.C10.trigger_build_guard = "if !worthy { return nil, nil }"%string.
Proof. exact source_worthy_shape. Qed.
Print Assumptions source_worthy_as_modelled.

(** The store layout the id theorems rest on (translator, round 3): per prefix store of x/valset/keeper
    its writers and deleters.  Under prefix "IDs" (snapshot id counter + jail log) and under "snapshot"
    there is no deleter; the counter is written only by the id generator from setSnapshotAsCurrent; no
    store operation of the package is left unresolved. *)
Theorem source_stores_as_modelled :
  Gen.C10.valset_stores =
    ["[]byte(""IDs"") | ider | set: setSnapshotAsCurrent | delete: ";
     "[]byte(""IDs"") | jailLog | set: Jail | delete: ";
     "[]byte(""external-chain-info"") | _externalChainInfoStore | set:  | delete: ";
     "[]byte(""grace-period"") | gracePeriodStore | set: UpdateGracePeriod | delete: ";
     "[]byte(""jail-reasons"") | jailReasonStore | set: Jail | delete: TriggerSnapshotBuild";
     "[]byte(""keep-alive/"") | keepAliveStore | set: KeepValidatorAlive | delete: ";
     "[]byte(""snapshot"") | snapshotStore | set: SaveModifiedSnapshot,SetSnapshotOnChain,setSnapshotAsCurrent | delete: ";
     "[]byte(""unjailed-snapshot"") | unjailedSnapshotStore | set: UpdateGracePeriod | delete: UpdateGracePeriod";
     "_externalChainInfoStore+[]byte( fmt.Sprintf(""val-%s"", val.String()), ) | externalChainInfoStore | set: SetExternalChainInfoState | delete: ";
     "types.PigeonStoreKey | pigeonStore | set: SetPigeonRequirements,SetScheduledPigeonRequirements | delete: SetPigeonRequirements"]%string /\
  Gen.C10.valset_unresolved_store_ops = [].
Proof. exact source_stores_shape. Qed.
Print Assumptions source_stores_as_modelled.

(** The float test of isNewSnapshotWorthy — the 18-decimal difference converted to the nearest
    binary64 and compared with the binary64 nearest to 0.01 — is exactly the integer test of the
    model, for every non-negative difference (Flocq; stdlib real-number axioms). *)
Theorem worthy_float_test_is_exact : forall d : Z, 0 <= d ->
  WorthyFloat.go_test d = float_ge_one_percent d.
Proof. exact WorthyFloat.dec_float_ge_one_percent. Qed.
Print Assumptions worthy_float_test_is_exact.


(* --- source translation tie (GenFn) --- *)
(* The Go function bodies named below are re-translated from the source on every check
   (harness/cmd/extract/gotrans*.go -> GenFn/*.v, semantics of the Go subset: Trans/GoSem.v).
   Each theorem states that the hand-written model function equals the translated body for all
   inputs (hypotheses are Go type ranges / the 256-bit range of math.Int only); the proofs are in
   Trans/C10Fn.v.  A readable change of the Go body breaks the proof, an unreadable one breaks the
   translator.  See design/GoTrans.md. *)
From Paloma Require Trans.GoSem Trans.GoSemFacts Trans.C10Fn.

Theorem power_of_model_is_translation_of_source :
  forall share total : Z,
  GenFn.NormalizePower.normalizePower share total = GoSem.Val (Compass.power_of share total).
Proof. exact Trans.C10Fn.power_of_eq. Qed.
Print Assumptions power_of_model_is_translation_of_source.

Theorem is_enough_model_is_translation_of_source :
  forall powers : list Z,
  GenFn.IsEnoughToReachConsensus.isEnoughToReachConsensus powers = Compass.is_enough powers.
Proof. exact Trans.C10Fn.is_enough_eq. Qed.
Print Assumptions is_enough_model_is_translation_of_source.
