(** C07 — a remote transaction proves delivery of exactly the message it carries, once.
    Only statements closed by [exact]; model in Evm/Attest.v (attestMessageWrapper, routerAttester,
    attestTransactionIntegrity, the five attesters, VerifyAgainstTX's signature-prefix loop, the
    end-blocker loop), proofs in Evm/AttestProofs.v, field lists in Gen/C07.v + Evm/AttestSym.v.

    The Section variables are everything the property does not speak about; NOTHING is assumed of
    them beyond the two hypotheses below (byte comparison is sound, a store key equals itself):
    not the packing, not the hash (collisions allowed), not the follow-ups of the actions.
    [run w n ops] = fold_left step ops (init w n): any initial stores, any first id, any history of
    enqueue / body replacement / signature / gas election / public-access data / evidence / removal /
    arbitrary writes to the other stores / attestRouter on a message. *)
From Coq Require Import String List ZArith Bool.
From Paloma Require Import Cons.Quorum Evm.Attest Evm.AttestProofs Evm.AttestSym Evm.AttestEvidence Evm.AttestEvidenceProofs Evm.UserDeployments.
From Paloma Require Evm.AttestExamples. (* non-vacuity examples, built with the theorems *)
Import ListNotations.
Open Scope Z_scope.

Section C07.
  Variables B S V D H T W E : Type.
  Variable kind_of : B -> kind.
  Variable fees_present : B -> bool.
  Variable expected_calldata : B -> Z -> Z -> V -> list S -> D.
  Variable expected_deploy : B -> D.
  Variable D_eqb : D -> D -> bool.
  Variable H_eqb : H -> H -> bool.
  Variable tx_hash : T -> H.
  Variable tx_data : T -> D.
  Variable valset_at : W -> Z -> V.
  Variable compass_present : W -> bool.
  Variable apply_effect : E -> msg B S T -> T -> W -> option (W * list B).
  Variable on_error_proof : E -> msg B S T -> W -> W * list B.
  Hypothesis D_eqb_true : forall a b, D_eqb a b = true -> a = b.
  Hypothesis H_eqb_refl : forall h, H_eqb h h = true.

  Notation run := (run B S V D H T W E kind_of code_guards fees_present expected_calldata expected_deploy D_eqb H_eqb
                     tx_hash tx_data valset_at compass_present apply_effect on_error_proof).
  Notation step := (step B S V D H T W E kind_of code_guards fees_present expected_calldata expected_deploy D_eqb H_eqb
                      tx_hash tx_data valset_at compass_present apply_effect on_error_proof).
  Notation run_from := (run_from B S V D H T W E kind_of code_guards fees_present expected_calldata expected_deploy D_eqb H_eqb
                          tx_hash tx_data valset_at compass_present apply_effect on_error_proof).
  Notation endblock_ids := (endblock_ids B S V D H T W E kind_of code_guards fees_present expected_calldata expected_deploy D_eqb H_eqb
                              tx_hash tx_data valset_at compass_present apply_effect on_error_proof).

  (** 1. Every committed success follow-up [e] was produced by attestRouter on a message that stood
      in the queue exactly as recorded in [e], whose evidence winner is the transaction of [e] with
      a successful receipt, whose transaction was not yet in the processed set, and whose call data
      equals the expected call of THAT message (its body, id, elected gas estimate, the valset named
      by its public-access data, its relayer) packed with the first [i] of its collected
      signatures, 0 < i <= number of signatures (a compass deployment: bytecode ++ constructor). *)
  Theorem success_effects_only_if_calldata_matches_and_receipt_ok : forall w n ops e,
    In e (effects _ _ _ _ _ _ (run w n ops)) ->
    exists ops1 ops2 env,
      ops = ops1 ++ OpAttest _ _ _ _ _ (m_id _ _ _ (e_msg _ _ _ _ e)) env :: ops2 /\
      let s := run w n ops1 in
      In (e_msg _ _ _ _ e) (queue _ _ _ _ _ _ s) /\
      m_winner _ _ _ (e_msg _ _ _ _ e) = Some (WTx (e_tx _ _ _ _ e) (Some receipt_status_successful)) /\
      ~ In (tx_hash (e_tx _ _ _ _ e)) (processed _ _ _ _ _ _ s) /\
      e_vs _ _ _ _ e = valset_at (world _ _ _ _ _ _ s) (m_vsid _ _ _ (e_msg _ _ _ _ e)) /\
      match kind_of (m_body _ _ _ (e_msg _ _ _ _ e)) with
      | KUploadCompass =>
          e_prefix _ _ _ _ e = O /\ tx_data (e_tx _ _ _ _ e) = expected_deploy (m_body _ _ _ (e_msg _ _ _ _ e))
      | _ =>
          (0 < e_prefix _ _ _ _ e <= length (m_sigs _ _ _ (e_msg _ _ _ _ e)))%nat /\
          tx_data (e_tx _ _ _ _ e) =
            expected_calldata (m_body _ _ _ (e_msg _ _ _ _ e)) (m_id _ _ _ (e_msg _ _ _ _ e))
              (m_gas _ _ _ (e_msg _ _ _ _ e)) (e_vs _ _ _ _ e)
              (firstn (e_prefix _ _ _ _ e) (m_sigs _ _ _ (e_msg _ _ _ _ e)))
      end.
  Proof.
    exact (success_effects_only_if_calldata_matches_and_receipt_ok B S V D H T W E kind_of code_guards fees_present expected_calldata
             expected_deploy D_eqb H_eqb tx_hash tx_data valset_at compass_present apply_effect on_error_proof
             D_eqb_true H_eqb_refl code_guards_full).
  Qed.

  (** 2. The same remote transaction is never accepted for a second message (nor twice for one):
      the hashes of the accepted transactions are pairwise distinct. *)
  Theorem tx_used_at_most_once : forall w n ops,
    NoDup (map (fun e => tx_hash (e_tx _ _ _ _ e)) (effects _ _ _ _ _ _ (run w n ops))).
  Proof.
    exact (tx_used_at_most_once B S V D H T W E kind_of code_guards fees_present expected_calldata expected_deploy D_eqb H_eqb tx_hash
             tx_data valset_at compass_present apply_effect on_error_proof H_eqb_refl code_guards_full).
  Qed.

  (** 3. Each message's success follow-up is applied at most once. *)
  Theorem effects_at_most_once : forall w n ops,
    NoDup (map (fun e => m_id _ _ _ (e_msg _ _ _ _ e)) (effects _ _ _ _ _ _ (run w n ops))).
  Proof.
    exact (effects_at_most_once B S V D H T W E kind_of code_guards fees_present expected_calldata expected_deploy D_eqb H_eqb tx_hash
             tx_data valset_at compass_present apply_effect on_error_proof H_eqb_refl code_guards_full).
  Qed.

  (** 3b. ... because the accepted message has left the queue, its id is never issued again, and its
      transaction stays in the processed set. *)
  Theorem accepted_message_is_gone_and_tx_marked : forall w n ops e,
    In e (effects _ _ _ _ _ _ (run w n ops)) ->
    (~ In (m_id _ _ _ (e_msg _ _ _ _ e)) (map (@m_id B S T) (queue _ _ _ _ _ _ (run w n ops))) /\
     m_id _ _ _ (e_msg _ _ _ _ e) < next_id _ _ _ _ _ _ (run w n ops)) /\
    In (tx_hash (e_tx _ _ _ _ e)) (processed _ _ _ _ _ _ (run w n ops)).
  Proof.
    intros w n ops e He. split.
    - exact (accepted_message_is_gone B S V D H T W E kind_of code_guards fees_present expected_calldata expected_deploy D_eqb H_eqb tx_hash
               tx_data valset_at compass_present apply_effect on_error_proof H_eqb_refl code_guards_full w n ops e He).
    - exact (accepted_tx_is_marked B S V D H T W E kind_of code_guards fees_present expected_calldata expected_deploy D_eqb H_eqb tx_hash
               tx_data valset_at compass_present apply_effect on_error_proof H_eqb_refl code_guards_full w n ops e He).
  Qed.

  (** 4. Any other transaction, a failed receipt, a transaction used before: in every reachable
      state, attestRouter on a message whose winner is a transaction proof either records a new
      success follow-up or leaves the other stores and the id counter untouched (the queue at most
      loses that message; the transaction may be marked processed). *)
  Theorem rejected_tx_changes_only_bookkeeping : forall w n ops id env m t rc,
    let s := run w n ops in
    find_msg _ _ _ id (queue _ _ _ _ _ _ s) = Some m -> m_winner _ _ _ m = Some (WTx t rc) ->
    let s' := step s (OpAttest _ _ _ _ _ id env) in
    effects _ _ _ _ _ _ s' = effects _ _ _ _ _ _ s ->
    world _ _ _ _ _ _ s' = world _ _ _ _ _ _ s /\ next_id _ _ _ _ _ _ s' = next_id _ _ _ _ _ _ s /\
    (queue _ _ _ _ _ _ s' = queue _ _ _ _ _ _ s \/
     queue _ _ _ _ _ _ s' = remove_msg _ _ _ id (queue _ _ _ _ _ _ s)).
  Proof.
    intros w n ops id env m t rc s.
    apply AttestProofs.rejected_tx_changes_only_bookkeeping; try assumption; try exact code_guards_full.
    apply run_inv; try assumption; try exact code_guards_full. apply inv_init.
  Qed.

  (** 5. Zero collected signatures: no compass call is ever accepted. *)
  Theorem no_signatures_never_verified : forall m vs d,
    kind_of (m_body _ _ _ m) <> KUploadCompass -> m_sigs _ _ _ m = [] ->
    verify B S V D T kind_of fees_present expected_calldata expected_deploy D_eqb m vs d = None.
  Proof. exact (no_signatures_never_verified B S V D T kind_of fees_present expected_calldata expected_deploy D_eqb). Qed.

  (** 5b. A submit_logic_call / user contract upload whose fees were never set matches no transaction. *)
  Theorem no_fees_never_verified : forall m vs d,
    (kind_of (m_body _ _ _ m) = KSubmitLogicCall \/ kind_of (m_body _ _ _ m) = KUploadUser) ->
    fees_present (m_body _ _ _ m) = false ->
    verify B S V D T kind_of fees_present expected_calldata expected_deploy D_eqb m vs d = None.
  Proof. exact (no_fees_never_verified B S V D T kind_of fees_present expected_calldata expected_deploy D_eqb). Qed.

  (** 6. The consensus end-blocker loop (CheckAndProcessAttestedMessages) is exactly the run of the
      single attestations of the messages it read at its start, so 1-4 hold for it as well. *)
  Theorem endblock_is_a_run_of_attests : forall l s env,
    endblock_ids s l env = run_from s (map (fun i => OpAttest _ _ _ _ _ i (env i)) l).
  Proof.
    exact (endblock_is_a_run_of_attests B S V D H T W E kind_of code_guards fees_present expected_calldata expected_deploy D_eqb H_eqb tx_hash
             tx_data valset_at compass_present apply_effect on_error_proof).
  Qed.
End C07.

(** Second round — the seam between evidence consensus (C04) and the attester.  Theorems 1-6 take
    "the winner VerifyEvidence elected" as an input of the history.  Here the history consists of
    the validators' single reports (AddMessageEvidence) and attestRouter elects the winner itself,
    at that moment, with C04's model of VerifyEvidence over the bytes TxExecutedProof.BytesToHash
    returns (Evm/AttestEvidence.v).  [hash] (sha256 inside the group key) and [enc] (the
    serialisation of what BytesToHash covers) are arbitrary; their collisions are explicit
    disjuncts.  [snapshot_of]: the snapshot current in a given state of the stores, arbitrary. *)
Section C07Evidence.
  Variables B S V D H T W E : Type.
  Variable kind_of : B -> kind.
  Variable fees_present : B -> bool.
  Variable expected_calldata : B -> Z -> Z -> V -> list S -> D.
  Variable expected_deploy : B -> D.
  Variable D_eqb : D -> D -> bool.
  Variable H_eqb : H -> H -> bool.
  Variable tx_hash : T -> H.
  Variable tx_data : T -> D.
  Variable valset_at : W -> Z -> V.
  Variable compass_present : W -> bool.
  Variable apply_effect : E -> msg B S T -> T -> W -> option (W * list B).
  Variable on_error_proof : E -> msg B S T -> W -> W * list B.
  Variable K : Type.
  Variable keqb : K -> K -> bool.
  Variable hash : Z -> Z -> K.
  Variable enc : payload T -> Z.
  Variable snapshot_of : W -> snapshot.
  Hypothesis H_eqb_refl : forall h, H_eqb h h = true.
  Hypothesis T_eq_dec : forall a b : T, {a = b} + {a <> b}.
  Hypothesis keqb_spec : forall a b, keqb a b = true <-> a = b.

  Notation run := (run B S V D H T W E kind_of code_guards fees_present expected_calldata expected_deploy D_eqb H_eqb
                     tx_hash tx_data valset_at compass_present apply_effect on_error_proof).
  Notation rrun := (rrun B S V D H T W E kind_of code_guards fees_present expected_calldata expected_deploy D_eqb H_eqb
                      tx_hash tx_data valset_at compass_present apply_effect on_error_proof keqb hash enc snapshot_of).
  Notation rrun_from := (rrun_from B S V D H T W E kind_of code_guards fees_present expected_calldata expected_deploy D_eqb H_eqb
                           tx_hash tx_data valset_at compass_present apply_effect on_error_proof keqb hash enc snapshot_of).
  Notation flatten := (flatten B S V D H T W E kind_of code_guards fees_present expected_calldata expected_deploy D_eqb H_eqb
                         tx_hash tx_data valset_at compass_present apply_effect on_error_proof keqb hash enc snapshot_of).
  Notation rendblock_ids := (rendblock_ids B S V D H T W E kind_of code_guards fees_present expected_calldata expected_deploy D_eqb H_eqb
                               tx_hash tx_data valset_at compass_present apply_effect on_error_proof keqb hash enc snapshot_of).

  (** 9. Success effects only if the SUCCESSFUL receipt of exactly that transaction was reported by
      2/3 of the snapshot.  For every committed success follow-up [e] there is the attestation that
      committed it, and at that moment, among the reports stored with the message, validators
      holding at least 2/3 of the current snapshot's recorded total had each handed in the proof
      (transaction of [e], receipt [r]) with r.Status = 1 — the identical transaction and the
      identical receipt, status included.  (Or the group-key hash / the serialisation collide.)
      Every [ord] in the history stands for an iteration order of Go's map of groups. *)
  Theorem success_effects_only_if_two_thirds_reported_success : forall w n (rops : list (@rop B S T W E K)) e,
    Forall (fun o => match o with RAttest _ _ ord => forall gs, Permutation.Permutation (ord gs) gs | _ => True end) rops ->
    In e (effects _ _ _ _ _ _ (abs (rrun w n rops))) ->
    exists rops1 rops2 env ord r,
      rops = rops1 ++ RAttest (m_id _ _ _ (e_msg _ _ _ _ e)) env ord :: rops2 /\
      r_status r = receipt_status_successful /\
      let s := rrun w n rops1 in
      let evs := get_reports T (m_id _ _ _ (e_msg _ _ _ _ e)) (evid s) in
      let sn := snapshot_of (world _ _ _ _ _ _ (abs s)) in
      (exists t d t' d' : Z, (t, d) <> (t', d') /\ hash t d = hash t' d') \/
      (exists a b : payload T, a <> b /\ enc a = enc b) \/
      exists vals, NoDup vals /\
                   (forall u, In u vals -> In (u, PTx (e_tx _ _ _ _ e) (Some r)) evs) /\
                   2 * sn_total sn <= 3 * power sn vals.
  Proof.
    intros w n rops e Hok.
    apply (AttestEvidenceProofs.success_effects_only_if_two_thirds_reported_success B S V D H T W E kind_of code_guards fees_present
             expected_calldata expected_deploy D_eqb H_eqb tx_hash tx_data valset_at compass_present apply_effect
             on_error_proof keqb hash enc snapshot_of H_eqb_refl code_guards_full T_eq_dec keqb_spec w n rops e
             (eq_refl : Gen.C07.bth_covers_full_tx = true) (eq_refl : Gen.C07.bth_covers_full_receipt = true)).
    eapply Forall_impl; [|exact Hok]. intros [] Ho; try exact I. exact Ho.
  Qed.

  (** 10. A history of reports is a history of theorems 1-6: its state is the state of the run in
      which the elected winner is filed right before every attestation. *)
  Theorem history_of_reports_is_a_history : forall w n rops,
    abs (rrun w n rops) = run w n (flatten (rinit B S V H T W w n) rops).
  Proof.
    intros w n rops.
    exact (refined_run_is_a_run B S V D H T W E kind_of code_guards fees_present expected_calldata expected_deploy D_eqb H_eqb
             tx_hash tx_data valset_at compass_present apply_effect on_error_proof keqb hash enc snapshot_of
             rops (rinit B S V H T W w n)).
  Qed.

  (** 11. What is stored with a message is, per validator, the latest proof that validator handed in
      while the message was queued (later submissions for it were refused: not queued any more). *)
  Theorem stored_report_is_the_validators_latest : forall w n (rops : list (@rop B S T W E K)) id v p,
    In (v, p) (get_reports T id (evid (rrun w n rops))) ->
    exists rops1 rops2,
      rops = rops1 ++ RAddEvidence id v p :: rops2 /\
      (exists m, find_msg B S T id (queue _ _ _ _ _ _ (abs (rrun w n rops1))) = Some m) /\
      (forall p' a b, rops2 = a ++ RAddEvidence id v p' :: b ->
         find_msg B S T id (queue _ _ _ _ _ _ (abs (rrun w n (rops1 ++ RAddEvidence id v p :: a)))) = None).
  Proof.
    exact (AttestEvidenceProofs.stored_report_is_the_validators_latest B S V D H T W E kind_of code_guards fees_present
             expected_calldata expected_deploy D_eqb H_eqb tx_hash tx_data valset_at compass_present apply_effect
             on_error_proof keqb hash enc snapshot_of H_eqb_refl code_guards_full).
  Qed.

  (** 12. The end-blocker loop on histories of reports: the run of the single attestations. *)
  Theorem endblock_over_reports_is_a_run_of_attests : forall l s env ord,
    rendblock_ids s l env ord = rrun_from s (map (fun i => RAttest i (env i) (ord i)) l).
  Proof.
    exact (rendblock_is_a_run_of_attests B S V D H T W E kind_of code_guards fees_present expected_calldata expected_deploy D_eqb H_eqb
             tx_hash tx_data valset_at compass_present apply_effect on_error_proof keqb hash enc snapshot_of).
  Qed.
  (** 15. The second clause on the level of the reports: once validators holding 2/3 of a well-formed
      current snapshot stand behind one report that is NOT a transaction proof with a successful
      receipt (a failed receipt, no receipt, an error proof, another proof type), attestRouter commits
      no success follow-up for that message, whoever reported what first (or hash / serialisation collide). *)
  Theorem agreed_failure_report_blocks_success : forall w n (rops : list (@rop B S T W E K)) id env ord vals p,
    (forall gs, Permutation.Permutation (ord gs) gs) ->
    let s := rrun w n rops in
    let sn := snapshot_of (world _ _ _ _ _ _ (abs s)) in
    0 < sn_total sn /\ sn_total sn = Base.Num.zsum (map snd (sn_vals sn)) /\ Forall (fun p => 0 <= snd p) (sn_vals sn) ->
    NoDup vals -> (forall u, In u vals -> In (u, p) (get_reports T id (evid s))) ->
    2 * sn_total sn <= 3 * power sn vals ->
    (forall t r, p = PTx t (Some r) -> r_status r <> receipt_status_successful) ->
    (exists t d t' d' : Z, (t, d) <> (t', d') /\ hash t d = hash t' d') \/
    (exists a b : payload T, a <> b /\ enc a = enc b) \/
    effects _ _ _ _ _ _ (abs (rrun w n (rops ++ [RAttest id env ord]))) = effects _ _ _ _ _ _ (abs s).
  Proof.
    intros w n rops id env ord vals p Ho s sn Hsn Hnd Hrep Hq Hfail.
    unfold AttestEvidence.rrun. rewrite (rrun_from_snoc B S V D H T W E kind_of code_guards fees_present expected_calldata expected_deploy
      D_eqb H_eqb tx_hash tx_data valset_at compass_present apply_effect on_error_proof keqb hash enc snapshot_of).
    apply (AttestEvidenceProofs.agreed_failure_report_blocks_success B S V D H T W E kind_of code_guards fees_present expected_calldata
             expected_deploy D_eqb H_eqb tx_hash tx_data valset_at compass_present apply_effect on_error_proof keqb hash enc
             snapshot_of H_eqb_refl code_guards_full T_eq_dec keqb_spec _ id env ord vals p
             (eq_refl : Gen.C07.bth_covers_full_tx = true) (eq_refl : Gen.C07.bth_covers_full_receipt = true)); try assumption.
    apply (rrun_inv B S V D H T W E kind_of code_guards fees_present expected_calldata expected_deploy D_eqb H_eqb tx_hash tx_data valset_at
             compass_present apply_effect on_error_proof keqb hash enc snapshot_of H_eqb_refl code_guards_full). apply rinv_init.
  Qed.
End C07Evidence.

(** 13. T — the seam as extracted: what the bytes the reports are grouped by cover (the WHOLE
    serialised transaction and the WHOLE serialised receipt, hence the receipt status), how the
    proof's byte fields are decoded, that the winner handed out is the evidence that opened the
    winning group, and what attestMessageWrapper does before it calls the attester. *)
Theorem evidence_seam_as_modelled :
  G.bth_tx_proof_parts = ["h.GetTX().MarshalBinary()"; "h.GetReceipt().MarshalBinary()"]%string /\
  G.bth_without_receipt = "h.GetTX().MarshalBinary()"%string /\
  G.bth_covers_full_tx = true /\ G.bth_covers_full_receipt = true /\
  G.get_tx_decodes = "tx.UnmarshalBinary(h.SerializedTX)"%string /\
  G.get_receipt_decodes = "receipt.UnmarshalBinary(h.SerializedReceipt)"%string /\
  G.bth_error_proof = "[]byte(h.ErrorMessage)"%string /\
  G.winner_is = "first evidence of the group"%string /\
  G.evidence_seam = ["no evidence => nil"; "VerifyEvidence over all stored evidence"; "consensus not achieved => nil";
                     "other error => returned"; "attester gets result.Winner"]%string /\
  G.consensus_checker = "libcons.New(k.Valset.GetCurrentSnapshot, k.cdc)"%string /\
  G.add_evidence_shape = "replace the validator's proof in place, else append"%string.
Proof. repeat split; reflexivity. Qed.

(** 14. The 2/3 clause of theorem 9 needs the receipt status among the hashed bytes: with
    rlp [PostState; CumulativeGasUsed; Bloom; Logs] in place of the serialised receipt, a 20-share
    validator's "success" report, handed in first, is what the attester sees although 80 shares
    reported the failed receipt (replayed on the real code by the harness: C07:effects-against-agreed-receipt). *)
Theorem two_thirds_clause_refuted_when_status_is_not_hashed :
  elect_with Corr.C07.tx Corr.C07.ckeqb Corr.C07.chash Corr.C07.c_enc AttestExamples.cov_without_status Corr.C07.c_ord
    AttestExamples.sn3 AttestExamples.reports_dissent = Some (WTx (500, AttestExamples.d1) (Some 1)) /\
  elect Corr.C07.tx Corr.C07.ckeqb Corr.C07.chash Corr.C07.c_enc Corr.C07.c_ord
    AttestExamples.sn3 AttestExamples.reports_dissent = Some (WTx (500, AttestExamples.d1) (Some 0)) /\
  power AttestExamples.sn3 (map fst (filter (fun vp => match snd vp with PTx _ (Some r) => r_status r =? 1 | _ => false end)
                                       AttestExamples.reports_dissent)) = 20.
Proof. exact AttestExamples.status_out_of_the_hash_lets_a_minority_report_win. Qed.

(** Third round.  16. T + model: for EVERY action type, the attester hands a transaction proof
    straight to its [attest], whose first statement runs the shared attestTransactionIntegrity --
    processed-tx check, last compass, VerifyAgainstTX, in this order -- and returns on its error.
    The guard lists are what the model's [attest_msg] runs ([code_guards], Evm/AttestSym.v), and
    theorems 1-4, 9, 15 are proved for these lists: an attester that loses a guard breaks them. *)
Theorem every_attester_runs_all_guards :
  G.integrity_guards = ["processed"; "compass"; "verify"]%string /\
  G.guards_submit_logic_call = G.integrity_guards /\
  G.guards_update_valset = G.integrity_guards /\
  G.guards_upload_smart_contract = G.integrity_guards /\
  G.guards_upload_user_smart_contract = G.integrity_guards /\
  G.guards_compass_handover = G.integrity_guards /\
  G.user_deployment_lookup = ["ChainReferenceId~targetChain"; "CreatedAtBlockHeight~blockHeight"]%string /\
  G.user_lookup_by_created = true /\
  G.user_deployment_created = "appended, IN_FLIGHT, created = updated = current height"%string.
Proof. exact AttestSym.every_attester_runs_all_guards. Qed.

(** 17. The success effect of a user contract upload is a write to the record OF THAT MESSAGE:
    finishUserSmartContractDeployment (Evm/UserDeployments.v, lookup key from the source) changes
    exactly one deployment record -- the first one of the message's contract on the message's chain
    that was put in flight at the message's block height --, keeps its identity, sets status and
    update height, and leaves every other record as it was. *)
Theorem user_deployment_success_lands_on_own_record : forall l cid chain h st now l',
  finish l cid chain h st now = Some l' ->
  exists a r b, l = a ++ r :: b /\ l' = a ++ settle r st now :: b /\ own_record cid chain h r /\
                forall x, In x a -> ~ own_record cid chain h x.
Proof.
  intros l cid chain h st now l'.
  exact (finish_writes_own_record l cid chain h st now l' (eq_refl : Gen.C07.user_lookup_by_created = true)).
Qed.

(** 18. ... and the key must be the creation height: keyed by the height of the last update, the
    success of a second deployment requested in the block in which the first was settled is
    written to the first one's record (replayed on the real code: C07:effect-on-another-record). *)
Theorem own_record_clause_refuted_when_keyed_by_update_height :
  let d1 := {| u_cid := 7; u_chain := 0; u_created := 5; u_updated := 9; u_status := 2 |} in
  let d2 := {| u_cid := 7; u_chain := 0; u_created := 9; u_updated := 9; u_status := 0 |} in
  finish_with false [d1; d2] 7 0 9 1 12 = Some [settle d1 1 12; d2] /\
  finish_with true [d1; d2] 7 0 9 1 12 = Some [d1; settle d2 1 12].
Proof. exact lookup_by_update_height_hits_another_record. Qed.

(** 19. T: writer and reader of the processed-tx store derive the key by the SAME expression from
    the SAME decoded object.  The key routerAttester's deferred function records a used transaction
    under, and the key attestTransactionIntegrity looks up, each resolved through the callee's
    parameter and the caller's locals: both are tx.Hash().Bytes() of the transaction DECODED from the
    proof (the model's [tx_hash t :: processed] / [mem_hash (tx_hash t)] on one and the same [t]).
    A key computed from the undecoded bytes (equal for type 0/1/2 transactions, different for a blob
    transaction carried with its sidecar) breaks this. *)
Theorem processed_key_written_is_the_key_read :
  G.processed_key_written = G.processed_key_read /\
  G.processed_key_read = "<proof>.GetTX().Hash().Bytes()"%string.
Proof. split; reflexivity. Qed.

(** 20. T: the compass upload's follow-up decides between "first deployment on this chain" (the
    current snapshot is listed on the chain and the contract is the active compass at once -- the
    effects an update_valset / a handover otherwise need their own transactions for) and "upgrade"
    (deployment waits, handover scheduled) by GetLatestSnapshotOnChain = ErrNotFound, and that walk
    looks at EVERY stored snapshot -- as the model's [live_on] (Corr/C07.v) has it.  A bounded walk,
    an early exit, another mapping of the error: unknown shape. *)
Theorem upload_follow_up_decision_as_modelled :
  G.latest_snapshot_on_chain_walk =
    "every stored snapshot, from the last id down to 1; found => that snapshot; none => ErrNotFound"%string /\
  G.upload_first_deployment_decision =
    "ErrNotFound => current snapshot listed on the chain, contract active; found => handover scheduled"%string.
Proof. split; reflexivity. Qed.

(** 21. T: no state of the evm keeper outside the store that the model does not know.  The fields of
    the Keeper struct are the collaborators, the codec, the id generator, the listeners and the
    consensus checker -- no map, cache or memo (a remembered projection of a snapshot would have to
    be keyed by everything the projection depends on, the chain included); and
    attestTransactionIntegrity projects the named snapshot for the MESSAGE'S OWN chain by calling
    transformSnapshotToCompass itself (the model's [valset_at], per chain in the correspondence). *)
Theorem evm_keeper_has_no_unmodelled_memory :
  G.evm_keeper_fields =
    ["cdc codec.BinaryCodec"; "storeKey corestore.KVStoreService"; "authority string";
     "ConsensusKeeper types.ConsensusKeeper"; "SchedulerKeeper types.SchedulerKeeper"; "Valset types.ValsetKeeper";
     "Skyway types.SkywayKeeper"; "ider keeperutil.IDGenerator"; "msgSender types.MsgSender";
     "msgAssigner types.MsgAssigner"; "AddressCodec address.Codec";
     "onMessageAttestedListeners []metrixtypes.OnConsensusMessageAttestedListener";
     "consensusChecker *libcons.ConsensusChecker"]%string /\
  G.integrity_valset_projection = "transformSnapshotToCompass(snapshot, chainReferenceID, logger)"%string.
Proof. split; reflexivity. Qed.

(** 7. T — over the argument lists extracted from eth_txable.go: every action-bearing field is
    packed, and equal expected calls mean the same call. *)
Theorem packed_covers_action_fields : forall k f, In f (required k) -> In f (packed_of k).
Proof. exact AttestSym.packed_covers_action_fields. Qed.

Theorem calldata_match_means_same_call : forall b id gas v sigs b' id' gas' v' sigs',
  AttestSym.expected_calldata b id gas v sigs = AttestSym.expected_calldata b' id' gas' v' sigs' ->
  b_kind b = b_kind b' /\
  forall f, In f (required (b_kind b)) -> field_val b id gas v sigs f = field_val b' id' gas' v' sigs' f.
Proof. exact AttestSym.calldata_match_means_same_call. Qed.

(** 8. T — the gates of attest.go are the ones the model has. *)
Theorem gates_as_modelled :
  G.flush_on = ["nil"; "ErrEthTxNotVerified"; "ErrEthTxFailed"]%string /\
  G.attester_and_removal_on_cache_ctx = true /\
  G.receipt_gate = "receipt.Status != ethtypes.ReceiptStatusSuccessful => types.ErrEthTxFailed"%string /\
  G.receipt_gate_before_actions = true /\
  G.processed_check_before_verify = true /\
  G.processed_set_keyed_by_tx_hash = true /\
  G.sig_prefix_loop = "i := len(msg.GetSignData()); i > 0; i--"%string /\
  G.relay_success_means = "winner is a transaction proof"%string /\
  (* the processed set only grows and membership is pure key presence, as [processed] / [mem_hash] have it *)
  G.is_tx_processed_consults = "key presence"%string /\
  G.processed_store_users = ["isTxProcessed"; "setTxAsAlreadyProcessed"; "txAlreadyProcessedStore"]%string /\
  G.processed_store_deleters = [] /\
  (* CheckAndProcessAttestedMessages: a failing message is logged and the loop goes on, see [endblock_ids] *)
  G.endblock_on_attest_error = "continue"%string /\
  G.nil_fees_not_verified = ["SubmitLogicCall"; "UploadUserSmartContract"]%string.
Proof. exact AttestSym.gates_as_modelled. Qed.

Print Assumptions success_effects_only_if_calldata_matches_and_receipt_ok.
Print Assumptions tx_used_at_most_once.
Print Assumptions effects_at_most_once.
Print Assumptions accepted_message_is_gone_and_tx_marked.
Print Assumptions rejected_tx_changes_only_bookkeeping.
Print Assumptions no_signatures_never_verified.
Print Assumptions no_fees_never_verified.
Print Assumptions endblock_is_a_run_of_attests.
Print Assumptions packed_covers_action_fields.
Print Assumptions calldata_match_means_same_call.
Print Assumptions gates_as_modelled.
Print Assumptions success_effects_only_if_two_thirds_reported_success.
Print Assumptions history_of_reports_is_a_history.
Print Assumptions stored_report_is_the_validators_latest.
Print Assumptions endblock_over_reports_is_a_run_of_attests.
Print Assumptions agreed_failure_report_blocks_success.
Print Assumptions evidence_seam_as_modelled.
Print Assumptions two_thirds_clause_refuted_when_status_is_not_hashed.
Print Assumptions every_attester_runs_all_guards.
Print Assumptions user_deployment_success_lands_on_own_record.
Print Assumptions own_record_clause_refuted_when_keyed_by_update_height.
Print Assumptions processed_key_written_is_the_key_read.
Print Assumptions upload_follow_up_decision_as_modelled.
Print Assumptions evm_keeper_has_no_unmodelled_memory.
