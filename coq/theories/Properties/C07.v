(** C07 — a remote transaction proves delivery of exactly the message it carries, once.
    Only statements closed by [exact]; model in Evm/Attest.v (attestMessageWrapper, routerAttester,
    attestTransactionIntegrity, the five attesters, VerifyAgainstTX's signature-prefix loop, the
    end-blocker loop), proofs in Evm/AttestProofs.v, field lists in Gen/C07.v + Evm/AttestSym.v.

    The Section variables are everything the property does not speak about; NOTHING is assumed of
    them beyond the two hypotheses below (byte comparison is sound, a store key equals itself):
    not the packing, not the hash (collisions allowed), not the follow-ups of the actions.
    [run w n ops] = fold_left step ops (init w n): any initial stores, any first id, any history of
    enqueue / body replacement / signature / gas election / public-access data / evidence / removal /
    arbitrary writes to the other stores / attestRouter on a message. *)
From Coq Require Import String List ZArith Bool.
From Paloma Require Import Evm.Attest Evm.AttestProofs Evm.AttestSym.
From Paloma Require Evm.AttestExamples. (* non-vacuity examples, built with the theorems *)
Import ListNotations.
Open Scope Z_scope.

Section C07.
  Variables B S V D H T W E : Type.
  Variable kind_of : B -> kind.
  Variable fees_present : B -> bool.
  Variable expected_calldata : B -> Z -> Z -> V -> list S -> D.
  Variable expected_deploy : B -> D.
  Variable D_eqb : D -> D -> bool.
  Variable H_eqb : H -> H -> bool.
  Variable tx_hash : T -> H.
  Variable tx_data : T -> D.
  Variable valset_at : W -> Z -> V.
  Variable compass_present : W -> bool.
  Variable apply_effect : E -> msg B S T -> T -> W -> option (W * list B).
  Variable on_error_proof : E -> msg B S T -> W -> W * list B.
  Hypothesis D_eqb_true : forall a b, D_eqb a b = true -> a = b.
  Hypothesis H_eqb_refl : forall h, H_eqb h h = true.

  Notation run := (run B S V D H T W E kind_of fees_present expected_calldata expected_deploy D_eqb H_eqb
                     tx_hash tx_data valset_at compass_present apply_effect on_error_proof).
  Notation step := (step B S V D H T W E kind_of fees_present expected_calldata expected_deploy D_eqb H_eqb
                      tx_hash tx_data valset_at compass_present apply_effect on_error_proof).
  Notation run_from := (run_from B S V D H T W E kind_of fees_present expected_calldata expected_deploy D_eqb H_eqb
                          tx_hash tx_data valset_at compass_present apply_effect on_error_proof).
  Notation endblock_ids := (endblock_ids B S V D H T W E kind_of fees_present expected_calldata expected_deploy D_eqb H_eqb
                              tx_hash tx_data valset_at compass_present apply_effect on_error_proof).

  (** 1. Every committed success follow-up [e] was produced by attestRouter on a message that stood
      in the queue exactly as recorded in [e], whose evidence winner is the transaction of [e] with
      a successful receipt, whose transaction was not yet in the processed set, and whose call data
      equals the expected call of THAT message (its body, id, elected gas estimate, the valset named
      by its public-access data, its relayer) packed with the first [i] of its collected
      signatures, 0 < i <= number of signatures (a compass deployment: bytecode ++ constructor). *)
  Theorem success_effects_only_if_calldata_matches_and_receipt_ok : forall w n ops e,
    In e (effects _ _ _ _ _ _ (run w n ops)) ->
    exists ops1 ops2 env,
      ops = ops1 ++ OpAttest _ _ _ _ _ (m_id _ _ _ (e_msg _ _ _ _ e)) env :: ops2 /\
      let s := run w n ops1 in
      In (e_msg _ _ _ _ e) (queue _ _ _ _ _ _ s) /\
      m_winner _ _ _ (e_msg _ _ _ _ e) = Some (WTx (e_tx _ _ _ _ e) (Some receipt_status_successful)) /\
      ~ In (tx_hash (e_tx _ _ _ _ e)) (processed _ _ _ _ _ _ s) /\
      e_vs _ _ _ _ e = valset_at (world _ _ _ _ _ _ s) (m_vsid _ _ _ (e_msg _ _ _ _ e)) /\
      match kind_of (m_body _ _ _ (e_msg _ _ _ _ e)) with
      | KUploadCompass =>
          e_prefix _ _ _ _ e = O /\ tx_data (e_tx _ _ _ _ e) = expected_deploy (m_body _ _ _ (e_msg _ _ _ _ e))
      | _ =>
          (0 < e_prefix _ _ _ _ e <= length (m_sigs _ _ _ (e_msg _ _ _ _ e)))%nat /\
          tx_data (e_tx _ _ _ _ e) =
            expected_calldata (m_body _ _ _ (e_msg _ _ _ _ e)) (m_id _ _ _ (e_msg _ _ _ _ e))
              (m_gas _ _ _ (e_msg _ _ _ _ e)) (e_vs _ _ _ _ e)
              (firstn (e_prefix _ _ _ _ e) (m_sigs _ _ _ (e_msg _ _ _ _ e)))
      end.
  Proof.
    exact (success_effects_only_if_calldata_matches_and_receipt_ok B S V D H T W E kind_of fees_present expected_calldata
             expected_deploy D_eqb H_eqb tx_hash tx_data valset_at compass_present apply_effect on_error_proof
             D_eqb_true H_eqb_refl).
  Qed.

  (** 2. The same remote transaction is never accepted for a second message (nor twice for one):
      the hashes of the accepted transactions are pairwise distinct. *)
  Theorem tx_used_at_most_once : forall w n ops,
    NoDup (map (fun e => tx_hash (e_tx _ _ _ _ e)) (effects _ _ _ _ _ _ (run w n ops))).
  Proof.
    exact (tx_used_at_most_once B S V D H T W E kind_of fees_present expected_calldata expected_deploy D_eqb H_eqb tx_hash
             tx_data valset_at compass_present apply_effect on_error_proof H_eqb_refl).
  Qed.

  (** 3. Each message's success follow-up is applied at most once. *)
  Theorem effects_at_most_once : forall w n ops,
    NoDup (map (fun e => m_id _ _ _ (e_msg _ _ _ _ e)) (effects _ _ _ _ _ _ (run w n ops))).
  Proof.
    exact (effects_at_most_once B S V D H T W E kind_of fees_present expected_calldata expected_deploy D_eqb H_eqb tx_hash
             tx_data valset_at compass_present apply_effect on_error_proof H_eqb_refl).
  Qed.

  (** 3b. ... because the accepted message has left the queue, its id is never issued again, and its
      transaction stays in the processed set. *)
  Theorem accepted_message_is_gone_and_tx_marked : forall w n ops e,
    In e (effects _ _ _ _ _ _ (run w n ops)) ->
    (~ In (m_id _ _ _ (e_msg _ _ _ _ e)) (map (@m_id B S T) (queue _ _ _ _ _ _ (run w n ops))) /\
     m_id _ _ _ (e_msg _ _ _ _ e) < next_id _ _ _ _ _ _ (run w n ops)) /\
    In (tx_hash (e_tx _ _ _ _ e)) (processed _ _ _ _ _ _ (run w n ops)).
  Proof.
    intros w n ops e He. split.
    - exact (accepted_message_is_gone B S V D H T W E kind_of fees_present expected_calldata expected_deploy D_eqb H_eqb tx_hash
               tx_data valset_at compass_present apply_effect on_error_proof H_eqb_refl w n ops e He).
    - exact (accepted_tx_is_marked B S V D H T W E kind_of fees_present expected_calldata expected_deploy D_eqb H_eqb tx_hash
               tx_data valset_at compass_present apply_effect on_error_proof H_eqb_refl w n ops e He).
  Qed.

  (** 4. Any other transaction, a failed receipt, a transaction used before: in every reachable
      state, attestRouter on a message whose winner is a transaction proof either records a new
      success follow-up or leaves the other stores and the id counter untouched (the queue at most
      loses that message; the transaction may be marked processed). *)
  Theorem rejected_tx_changes_only_bookkeeping : forall w n ops id env m t rc,
    let s := run w n ops in
    find_msg _ _ _ id (queue _ _ _ _ _ _ s) = Some m -> m_winner _ _ _ m = Some (WTx t rc) ->
    let s' := step s (OpAttest _ _ _ _ _ id env) in
    effects _ _ _ _ _ _ s' = effects _ _ _ _ _ _ s ->
    world _ _ _ _ _ _ s' = world _ _ _ _ _ _ s /\ next_id _ _ _ _ _ _ s' = next_id _ _ _ _ _ _ s /\
    (queue _ _ _ _ _ _ s' = queue _ _ _ _ _ _ s \/
     queue _ _ _ _ _ _ s' = remove_msg _ _ _ id (queue _ _ _ _ _ _ s)).
  Proof.
    intros w n ops id env m t rc s.
    apply AttestProofs.rejected_tx_changes_only_bookkeeping; try assumption.
    apply run_inv; try assumption. apply inv_init.
  Qed.

  (** 5. Zero collected signatures: no compass call is ever accepted. *)
  Theorem no_signatures_never_verified : forall m vs d,
    kind_of (m_body _ _ _ m) <> KUploadCompass -> m_sigs _ _ _ m = [] ->
    verify B S V D T kind_of fees_present expected_calldata expected_deploy D_eqb m vs d = None.
  Proof. exact (no_signatures_never_verified B S V D T kind_of fees_present expected_calldata expected_deploy D_eqb). Qed.

  (** 5b. A submit_logic_call / user contract upload whose fees were never set matches no transaction. *)
  Theorem no_fees_never_verified : forall m vs d,
    (kind_of (m_body _ _ _ m) = KSubmitLogicCall \/ kind_of (m_body _ _ _ m) = KUploadUser) ->
    fees_present (m_body _ _ _ m) = false ->
    verify B S V D T kind_of fees_present expected_calldata expected_deploy D_eqb m vs d = None.
  Proof. exact (no_fees_never_verified B S V D T kind_of fees_present expected_calldata expected_deploy D_eqb). Qed.

  (** 6. The consensus end-blocker loop (CheckAndProcessAttestedMessages) is exactly the run of the
      single attestations of the messages it read at its start, so 1-4 hold for it as well. *)
  Theorem endblock_is_a_run_of_attests : forall l s env,
    endblock_ids s l env = run_from s (map (fun i => OpAttest _ _ _ _ _ i (env i)) l).
  Proof.
    exact (endblock_is_a_run_of_attests B S V D H T W E kind_of fees_present expected_calldata expected_deploy D_eqb H_eqb tx_hash
             tx_data valset_at compass_present apply_effect on_error_proof).
  Qed.
End C07.

(** 7. T — over the argument lists extracted from eth_txable.go: every action-bearing field is
    packed, and equal expected calls mean the same call. *)
Theorem packed_covers_action_fields : forall k f, In f (required k) -> In f (packed_of k).
Proof. exact AttestSym.packed_covers_action_fields. Qed.

Theorem calldata_match_means_same_call : forall b id gas v sigs b' id' gas' v' sigs',
  AttestSym.expected_calldata b id gas v sigs = AttestSym.expected_calldata b' id' gas' v' sigs' ->
  b_kind b = b_kind b' /\
  forall f, In f (required (b_kind b)) -> field_val b id gas v sigs f = field_val b' id' gas' v' sigs' f.
Proof. exact AttestSym.calldata_match_means_same_call. Qed.

(** 8. T — the gates of attest.go are the ones the model has. *)
Theorem gates_as_modelled :
  G.flush_on = ["nil"; "ErrEthTxNotVerified"; "ErrEthTxFailed"]%string /\
  G.attester_and_removal_on_cache_ctx = true /\
  G.receipt_gate = "receipt.Status != ethtypes.ReceiptStatusSuccessful => types.ErrEthTxFailed"%string /\
  G.receipt_gate_before_actions = true /\
  G.processed_check_before_verify = true /\
  G.processed_set_keyed_by_tx_hash = true /\
  G.sig_prefix_loop = "i := len(msg.GetSignData()); i > 0; i--"%string /\
  G.relay_success_means = "winner is a transaction proof"%string /\
  (* the processed set only grows and membership is pure key presence, as [processed] / [mem_hash] have it *)
  G.is_tx_processed_consults = "key presence"%string /\
  G.processed_store_users = ["isTxProcessed"; "setTxAsAlreadyProcessed"; "txAlreadyProcessedStore"]%string /\
  G.processed_store_deleters = [] /\
  (* CheckAndProcessAttestedMessages: a failing message is logged and the loop goes on, see [endblock_ids] *)
  G.endblock_on_attest_error = "continue"%string /\
  G.nil_fees_not_verified = ["SubmitLogicCall"; "UploadUserSmartContract"]%string.
Proof. exact AttestSym.gates_as_modelled. Qed.

Print Assumptions success_effects_only_if_calldata_matches_and_receipt_ok.
Print Assumptions tx_used_at_most_once.
Print Assumptions effects_at_most_once.
Print Assumptions accepted_message_is_gone_and_tx_marked.
Print Assumptions rejected_tx_changes_only_bookkeeping.
Print Assumptions no_signatures_never_verified.
Print Assumptions no_fees_never_verified.
Print Assumptions endblock_is_a_run_of_attests.
Print Assumptions packed_covers_action_fields.
Print Assumptions calldata_match_means_same_call.
Print Assumptions gates_as_modelled.
