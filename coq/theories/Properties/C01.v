(** C01 — skyway bridge: escrow conservation and all-or-nothing transfer lifecycle, under injected
    collaborator faults.  Only statements closed by [exact]; proofs live in Skyway/BridgeProofs.v,
    non-vacuity examples in Skyway/BridgeExamples.v.

    Reading aid.  [run (init tb b0 sup0) ops] is the state after the history [ops] (Skyway/Bridge.v)
    started from an empty bridge with denom table [tb], arbitrary user balances [b0] and supplies
    [sup0].  An [op] is a send / cancel message (delivered in a transaction), a batch build, batch
    cancellation, gas-estimate update, an executed-batch or deposit attestation (the handler runs
    once), or an end-block step (createBatch, cleanupTimedOutBatches, the whole EndBlocker).  EVERY
    op carries its own fault oracle [f : nat -> bool] — "the n-th fallible collaborator call made by
    this operation fails" (bank transfer / mint / burn, chain-info lookup, relayer selection,
    relayer address lookup) — so [forall ops] quantifies over all interleavings AND all fault
    sequences.  [pending s] = pool ++ transfers of all open batches; [sum_for tb d l] adds
    amount + tax over the transfers of [l] whose (chain, contract) is mapped to denom [d];
    [occ l i] counts occurrences of id [i].  [table_wf tb]: the two indexes of the denom table agree
    (one denom per (chain, contract)); it is decidable ([BridgeExamples.table_wf_b_sound]).

    Round 2.  The denom table is part of the state: [OMapGov c d k] is setDenomToERC20 as the
    governance paths call it (no guard in the code), [OMapAdmin c d k auth f] is
    msgServer.SetERC20ToTokenDenom (refuses a contract already bound on that chain).
    [guarded s0 ops] says: every [OMapGov] of the history binds a contract that is, at that moment,
    unbound on that chain or bound to the same denom ([gov_ok]); it constrains nothing else
    (histories without [OMapGov] are guarded).  Theorem [escrow_eq_pending_unguarded_refuted]
    shows the guard is needed.  [OSend] carries the transfer-limit decision [lim] (C15) as an
    input.  [OEndBlockFull h now groups ests f pf] is the whole EndBlocker (createBatch, tally of
    the observed claims [groups] per active chain, the elected estimates [ests], the timeout
    sweep) under an error oracle [f] and a PANIC oracle [pf]. *)
From Coq Require Import List ZArith Bool String Sorted Permutation.
From Paloma Require Import Skyway.Bridge Skyway.BridgeProofs Skyway.BridgeOrder Skyway.BridgeExamples.
From Paloma Require Gen.C01.
Import ListNotations.
Open Scope Z_scope.

(** 1. For every bridged token the escrow balance equals the sum of amount + tax over all pending
    outbound transfers — after every history and every fault sequence. *)
Theorem escrow_eq_pending : forall tb b0 sup0 ops d,
  table_wf tb -> guarded (init tb b0 sup0) ops = true ->
  let s := run (init tb b0 sup0) ops in
  escrow s d = sum_for (table s) d (pending s).
Proof. exact escrow_eq_pending_proof. Qed.
Print Assumptions escrow_eq_pending.

(** 1a. The guard on governance writes of the denom table is needed: the governance paths
    (SetERC20ToDenomProposal handler, MsgSetERC20MappingProposal) call setDenomToERC20 without
    it; binding the contract of a pending transfer to another denom breaks the equation (the
    transfer would be refunded / burned in the other denom).  Witness replayed on the real keeper:
    harness/corpus/C01/G1_gov_remap_contract_with_pending.json (known finding). *)
Theorem escrow_eq_pending_unguarded_refuted :
  exists tb b0 sup0 ops d, table_wf tb /\
    let s := run (init tb b0 sup0) ops in escrow s d <> sum_for (table s) d (pending s).
Proof. exact escrow_eq_pending_unguarded_refuted_proof. Qed.
Print Assumptions escrow_eq_pending_unguarded_refuted.

(** 1b. Under the guard no write of the denom table changes the denom a pending transfer is
    refunded / burned in; and the invariant behind theorems 1-3 ([InvT]: the conservation
    equation, one place per id, the table's two indexes agree, every pending transfer is mapped)
    is kept by every guarded step. *)
Theorem pending_denom_stable : forall s o t,
  InvT s -> gov_ok s o = true -> In t (pending s) ->
  tx_denom (table (fst (step s o))) t = tx_denom (table s) t.
Proof. exact pending_denom_stable_proof. Qed.
Print Assumptions pending_denom_stable.

Theorem guarded_step_keeps_invariant : forall s o, InvT s -> gov_ok s o = true -> InvT (fst (step s o)).
Proof. exact step_InvT. Qed.
Print Assumptions guarded_step_keeps_invariant.

(** the token-admin path needs no hypothesis: the handler enforces the guard itself *)
Theorem admin_mapping_is_guarded : forall s c d k auth f, gov_ok s (OMapAdmin c d k auth f) = true.
Proof. reflexivity. Qed.
Print Assumptions admin_mapping_is_guarded.

(** 2. Every accepted transfer (ids 1 .. last_tx) is in exactly one place: the pool, exactly one
    open batch (once), refunded, or burned; the four counts add up to 1.  Ids never accepted are
    nowhere. *)
Theorem transfer_in_exactly_one_place : forall tb b0 sup0 ops i,
  table_wf tb -> guarded (init tb b0 sup0) ops = true ->
  let s := run (init tb b0 sup0) ops in
  accepted s i ->
  (occ (pool_ids s) i + occ (batch_ids s) i + occ (refunded s) i + occ (burned s) i = 1)%nat.
Proof. exact transfer_in_exactly_one_place_proof. Qed.
Print Assumptions transfer_in_exactly_one_place.

Theorem unaccepted_transfer_is_nowhere : forall tb b0 sup0 ops i,
  table_wf tb -> guarded (init tb b0 sup0) ops = true ->
  let s := run (init tb b0 sup0) ops in
  ~ accepted s i ->
  (occ (pool_ids s) i + occ (batch_ids s) i + occ (refunded s) i + occ (burned s) i = 0)%nat.
Proof. exact unaccepted_nowhere_proof. Qed.
Print Assumptions unaccepted_transfer_is_nowhere.

(** What the four places mean (the ghost lists [refunded] / [burned] are written only here):
    a successful send takes the next id, locks amount + tax and pools the transfer; *)
Theorem send_ok_locks_and_pools : forall s u c d a tax lim f s',
  step s (OSend u c d a tax lim f) = (s', Ok) ->
  exists k, erc20_of (table s) c d = Some k /\
    last_tx s' = last_tx s + 1 /\
    pool s' = pool_insert (mkT (last_tx s + 1) u c k a tax) (pool s) /\
    bal s' u d = bal s u d - (a + tax) /\ escrow s' d = escrow s d + (a + tax) /\
    batches s' = batches s /\ supply s' = supply s.
Proof. exact send_ok_locks_and_pools_proof. Qed.
Print Assumptions send_ok_locks_and_pools.

(** "refunded" = a successful cancel by the sender, who receives amount + tax in full from escrow; *)
Theorem cancel_ok_refunds_in_full : forall s u i f s',
  step s (OCancel u i f) = (s', Ok) ->
  exists t d, In t (pool s) /\ t_id t = i /\ t_sender t = u /\ tx_denom (table s) t = Some d /\
    bal s' u d = bal s u d + owed t /\ escrow s' d = escrow s d - owed t /\
    refunded s' = i :: refunded s /\ burned s' = burned s /\ supply s' = supply s /\
    pool s' = remove_first (fun t => t_id t =? i) (pool s) /\ batches s' = batches s.
Proof. exact cancel_ok_refunds_in_full_proof. Qed.
Print Assumptions cancel_ok_refunds_in_full.

(** "burned" = an executed-batch attestation from the batch's own chain removed the batch and
    burned exactly its amount + tax from escrow and supply; *)
Theorem executed_ok_burns_batch : forall s c k n eth f s',
  step s (OExecuted c k n eth f) = (s', Ok) ->
  exists b d, find_batch k n (batches s) = Some b /\ b_chain b = c /\ denom_of (table s) c k = Some d /\
    escrow s' d = escrow s d - total_owed (b_txs b) /\ supply s' d = supply s d - total_owed (b_txs b) /\
    burned s' = map t_id (b_txs b) ++ burned s /\ refunded s' = refunded s /\
    batches s' = remove_first (is_batch k n) (batches s) /\ pool s' = pool s /\ bal s' = bal s.
Proof. exact executed_ok_burns_batch_proof. Qed.
Print Assumptions executed_ok_burns_batch.

(** and nothing else ever marks a transfer refunded or burned (a whole end-block,
    [OEndBlockFull], is a run of such steps: [housekeeping_is_atomic_steps]); ids are never reused. *)
Theorem fates_only_by_cancel_and_executed : forall s o s' out,
  is_full o = false -> step s o = (s', out) ->
  (refunded s' = refunded s \/ exists u i f, o = OCancel u i f /\ out = Ok /\ refunded s' = i :: refunded s) /\
  (burned s' = burned s \/ exists c k n eth f b, o = OExecuted c k n eth f /\ out = Ok /\
      find_batch k n (batches s) = Some b /\ burned s' = map t_id (b_txs b) ++ burned s).
Proof. exact fates_only_by_cancel_and_executed_proof. Qed.
Print Assumptions fates_only_by_cancel_and_executed.

Theorem transfer_ids_never_reused : forall s o, last_tx s <= last_tx (fst (step s o)).
Proof. exact last_tx_monotone_proof. Qed.
Print Assumptions transfer_ids_never_reused.

(** What a pending transfer owes (amount and the tax charged when it was sent) is fixed at send
    time: no operation — in particular no governance change of the tax rate / exemption list, [OGov],
    which does not touch the bridge's fund state at all — rewrites a pending record; a record pending
    after a step was pending before it or was just created by a successful send from that send's own
    amount and tax.  With the two theorems above (refund and burn are [owed] of the STORED record)
    the refund always equals what was locked, whatever the settings are at cancel time. *)
Theorem pending_records_immutable : forall s o s' out t,
  step s o = (s', out) -> In t (pending s') ->
  In t (pending s) \/
  exists u c d a tax lim f k, o = OSend u c d a tax lim f /\ out = Ok /\ erc20_of (table s) c d = Some k /\
                          t = mkT (last_tx s + 1) u c k a tax.
Proof. exact pending_records_immutable_proof. Qed.
Print Assumptions pending_records_immutable.

Theorem governance_leaves_bridge_funds_alone : forall s, step s OGov = (s, Ok).
Proof. reflexivity. Qed.
Print Assumptions governance_leaves_bridge_funds_alone.

(** 3. Total supply changes only by attested deposits (+ amount, once per handler run that
    succeeded) and attested executed batches (- amount - tax of the batch's transfers).
    [deposits_of] / [executed_of] read the history: they add, for every ODeposit / OExecuted
    operation that reported success, the claim's amount / the batch's amount + tax. *)
Theorem supply_delta_only_attested : forall tb b0 sup0 ops d,
  table_wf tb -> guarded (init tb b0 sup0) ops = true ->
  let s0 := init tb b0 sup0 in
  supply (run s0 ops) d - sup0 d = deposits_of s0 ops d - executed_of s0 ops d.
Proof. exact supply_delta_only_attested_proof. Qed.
Print Assumptions supply_delta_only_attested.

(** 4. An operation that reports failure leaves the whole state (pool, batches, every balance,
    supply, counters) exactly as it was — for every message and every single batch build / batch
    cancellation / estimate update / attestation, at every fault point. *)
Theorem failed_op_is_noop : forall s o s',
  atomic_op o = true -> step s o = (s', Err) -> s' = s.
Proof. exact failed_op_is_noop_proof. Qed.
Print Assumptions failed_op_is_noop.

(** End-of-block housekeeping (createBatch, cleanupTimedOutBatches, EndBlocker) is nothing but a
    sequence of such all-or-nothing builds and batch cancellations (so each one that fails is a
    no-op by theorem 4), and it never moves a coin or changes a transfer's fate.  The same holds
    for the whole EndBlocker [OEndBlockFull] with the attestation handlers and estimate updates it
    runs — also when a collaborator PANICS in the middle: what EndBlocker's recover leaves behind
    is exactly what the sub-steps completed before the panic left ([end_block_is_run_of_substeps]:
    the trace [eb_tr] lists them; the sub-step that panicked is not among them). *)
Theorem housekeeping_is_atomic_steps : forall s o,
  atomic_op o = false ->
  exists subs, Forall (fun x => atomic_op x = true) subs /\ fst (step s o) = run s subs.
Proof. exact housekeeping_is_atomic_steps_proof. Qed.
Print Assumptions housekeeping_is_atomic_steps.

Theorem end_block_is_run_of_substeps : forall s h now groups ests f pf,
  let x := end_block_full f pf h now groups ests s in
  fst (step s (OEndBlockFull h now groups ests f pf)) = run s (eb_tr x) /\
  Forall (fun o => sub_op o = true) (eb_tr x).
Proof. exact end_block_is_run_of_substeps_proof. Qed.
Print Assumptions end_block_is_run_of_substeps.

Theorem batching_moves_no_coins : forall s o,
  moves_no_coins o = true ->
  let s' := fst (step s o) in
  bal s' = bal s /\ escrow s' = escrow s /\ comm s' = comm s /\ supply s' = supply s /\
  refunded s' = refunded s /\ burned s' = burned s /\ last_tx s' = last_tx s.
Proof. exact batching_moves_no_coins_proof. Qed.
Print Assumptions batching_moves_no_coins.

(** The model is the model of the code as it is now: which functions run on a cached context, the
    order of writes and fallible calls inside them (the fault indices of the model), the chain
    filters, the deposit fallback, the end-blocker order and the three constants are re-read from
    the source on every check. *)
Theorem code_shape_matches_model :
  Gen.C01.cached_context_fns = ["BuildOutgoingTXBatch"; "CancelOutgoingTXBatch"; "OutgoingTxBatchExecuted"; "UpdateBatchGasEstimate"; "processAttestation"]%string
  /\ Gen.C01.order_AddToOutgoingPool = ["GetERC20OfDenom"; "SendCoinsFromAccountToModule"; "autoIncrementID"; "addUnbatchedTX"; "GetChainInfo"]%string
  /\ Gen.C01.order_RemoveFromOutgoingPoolAndRefund = ["GetUnbatchedTxById"; "removeUnbatchedTX"; "GetDenomOfERC20"; "SendCoinsFromModuleToAccount"; "GetChainInfo"]%string
  /\ Gen.C01.order_BuildOutgoingTXBatch = ["pickUnbatchedTxs"; "GetChainInfo"; "autoIncrementID"; "PickValidatorForMessage"; "GetEthAddressByValidator"; "StoreBatch"]%string
  /\ Gen.C01.order_CancelOutgoingTXBatch = ["GetOutgoingTXBatch"; "addUnbatchedTX"; "DeleteBatch"; "GetChainInfo"]%string
  /\ Gen.C01.order_OutgoingTxBatchExecuted = ["GetOutgoingTXBatch"; "GetDenomOfERC20"; "BurnCoins"; "DeleteBatch"]%string
  /\ Gen.C01.order_handleSendToPaloma = ["GetDenomOfERC20"; "MintCoins"; "sendCoinToLocalAddress"; "SendToCommunityPool"]%string
  /\ Gen.C01.order_EndBlocker = ["createBatch"; "attestationTally"; "pruneAttestations"; "processGasEstimates"; "cleanupTimedOutBatches"]%string
  /\ Gen.C01.pick_filters_chain = true /\ Gen.C01.executed_checks_chain = true /\ Gen.C01.executed_checks_timeout = true
  /\ Gen.C01.deposit_fallback_on_send_error = true /\ Gen.C01.sweep_cancels_when_timeout_lt_now = true
  /\ Gen.C01.batch_size = 100 /\ Gen.C01.batch_period = 50 /\ Gen.C01.batch_timeout_secs = 600.
Proof. exact code_shape_proof. Qed.
Print Assumptions code_shape_matches_model.

(** Round 2 (b): batches at the cap and the fill order.  A successful build that finds something
    opens ONE batch with the first [max] transfers of that (chain, contract) in pool order
    ([matches c k]), with the next batch nonce, and leaves the other transfers in the pool; *)
Theorem build_takes_first_in_pool_order : forall s c k max now f s',
  step s (OBuild c k max now f) = (s', Ok) ->
  let picked := firstn (Z.to_nat max) (filter (matches c k) (pool s)) in
  0 < max /\
  (picked = [] -> s' = s) /\
  (picked <> [] ->
     batches s' = batch_insert (mkB (last_batch s + 1) c k (now + Gen.C01.batch_timeout_secs) 0 picked) (batches s) /\
     pool s' = snd (pick c k (Z.to_nat max) (pool s)) /\
     filter (matches c k) (pool s') = skipn (Z.to_nat max) (filter (matches c k) (pool s)) /\
     last_batch s' = last_batch s + 1).
Proof. exact build_takes_first_in_pool_order_proof. Qed.
Print Assumptions build_takes_first_in_pool_order.

(** after every history (no hypothesis on table or governance) the pool is in descending
    (contract, amount, id) order — [tx_key_lt a b = false]: a's key is not below b's; *)
Theorem pool_in_fee_order : forall tb b0 sup0 ops,
  StronglySorted (fun a b => tx_key_lt a b = false) (pool (run (init tb b0 sup0) ops)).
Proof. exact pool_in_fee_order_proof. Qed.
Print Assumptions pool_in_fee_order.

(** hence a batch holds the highest-keyed transfers of its token: nothing it took is keyed below
    a matching transfer it left in the pool; *)
Theorem build_takes_the_highest : forall tb b0 sup0 ops c k max now f s' t t',
  let s := run (init tb b0 sup0) ops in
  step s (OBuild c k max now f) = (s', Ok) ->
  In t (firstn (Z.to_nat max) (filter (matches c k) (pool s))) ->
  In t' (pool s') -> matches c k t' = true ->
  tx_key_lt t t' = false.
Proof. exact build_takes_the_highest_proof. Qed.
Print Assumptions build_takes_the_highest.

(** and no open batch is ever empty or holds more than OutgoingTxBatchSize transfers, whatever the
    end-blocker does ([build_capped]: direct builds of the history ask for at most the cap; the
    end-blocker's builds ask for exactly the cap). *)
Theorem open_batches_capped : forall tb b0 sup0 ops,
  Forall build_capped ops ->
  Forall (fun b => (1 <= List.length (b_txs b) <= Z.to_nat Gen.C01.batch_size)%nat) (batches (run (init tb b0 sup0) ops)).
Proof. exact open_batches_capped_proof. Qed.
Print Assumptions open_batches_capped.

(** Round 2 facts re-read from the source on every check: which cached-context functions cannot
    commit while a panic unwinds (either the tree before the fix: only processAttestation — the
    harness then reports the known finding and injects no panic — or all five, what the model's
    [eb_sub] assumes), EndBlocker's recover, setDenomToERC20 as the only writer of the denom table
    and nothing deleting from it, its callers and the only one that checks the binding first, the
    transfer-limit check before any write of a send, the steps of createBatch / TryAttestation /
    emitObservedEvent / processGasEstimates the model's [end_block_full] follows. *)
Theorem code_shape_matches_model_round2 :
  (Gen.C01.panic_safe_commit_fns = ["processAttestation"]%string
   \/ Gen.C01.panic_safe_commit_fns = ["BuildOutgoingTXBatch"; "CancelOutgoingTXBatch"; "OutgoingTxBatchExecuted"; "UpdateBatchGasEstimate"; "processAttestation"]%string)
  /\ Gen.C01.endblocker_recovers_panics = true
  /\ Gen.C01.denom_table_writers = ["setDenomToERC20"]%string /\ Gen.C01.denom_table_deleters = []
  /\ Gen.C01.setDenomToERC20_callers = ["CreateTestEnv"; "InitGenesis"; "NewSkywayProposalHandler"; "SetERC20MappingProposal"; "SetERC20ToTokenDenom"]%string
  /\ Gen.C01.setDenomToERC20_callers_checking_binding = ["SetERC20ToTokenDenom"]%string
  /\ Gen.C01.order_setDenomToERC20 = ["GetDenomToERC20Key"; "GetERC20ToDenomKey"]%string
  /\ Gen.C01.order_SetERC20ToTokenDenom = ["GetChainInfo"; "GetAuthorityMetadata"; "GetDenomOfERC20"; "setDenomToERC20"]%string
  /\ Gen.C01.order_AddToOutgoingPool_checks = ["UpdateBridgeTransferUsageWithLimit"; "bridgeTaxAmount"; "GetERC20OfDenom"; "SendCoinsFromAccountToModule"]%string
  /\ Gen.C01.order_createBatch = ["GetAllERC20ToDenoms"; "GetERC20OfDenom"; "BuildOutgoingTXBatch"]%string
  /\ Gen.C01.order_TryAttestation = ["SetLastObservedEthereumBlockHeight"; "setLastObservedSkywayNonce"; "SetAttestation"; "processAttestation"; "emitObservedEvent"]%string
  /\ Gen.C01.order_emitObservedEvent = ["GetChainInfo"]%string
  /\ Gen.C01.order_processGasEstimates = ["IterateOutgoingTxBatches"; "GetBatchGasEstimateByNonceAndTokenContract"; "VerifyGasEstimates"; "UpdateBatchGasEstimate"]%string
  /\ Gen.C01.processAttestation_commits_only_on_handler_success_and_returns_nil = true.
Proof. exact code_shape2_proof. Qed.
Print Assumptions code_shape_matches_model_round2.

(** Round 3: the all-or-nothing wrapper of the four batch functions is tied to its RESULT: the
    deferred commit reads the named error result, which every return statement assigns (a refactor
    to a local variable lets a `return nil, fmt.Errorf(…)` commit a half-done build). *)
Theorem deferred_commit_reads_the_result :
  Gen.C01.deferred_commit_reads_named_result =
    ["BuildOutgoingTXBatch"; "CancelOutgoingTXBatch"; "OutgoingTxBatchExecuted"; "UpdateBatchGasEstimate"]%string.
Proof. exact code_shape3_proof. Qed.
Print Assumptions deferred_commit_reads_the_result.

(** Round 4: the chain is restarted from an exported genesis ([OGenesis] = ExportGenesis, module
    store wiped, InitGenesis) in the middle of a history.  [OGenesis] is an operation like any other,
    so [escrow_eq_pending], [transfer_in_exactly_one_place], [unaccepted_transfer_is_nowhere] and
    [supply_delta_only_attested] above hold for histories with round trips at any point, also after
    governance / token admins re-pointed a denom while transfers of the old contract wait
    ([BridgeExamples.genesis_round_trip_nonvacuous]).  Across the round trip itself: the pending
    records are the same records (pool, batches and all pending as multisets — the store re-sorts
    them under the same keys; [pool_in_fee_order] gives the order), and nothing else moves. *)
Theorem genesis_round_trip_keeps_every_pending_transfer : forall s,
  let s' := fst (step s OGenesis) in
  snd (step s OGenesis) = Ok /\
  Permutation (pool s') (pool s) /\ Permutation (batches s') (batches s) /\
  Permutation (pending s') (pending s) /\
  table s' = table s /\ bal s' = bal s /\ escrow s' = escrow s /\ comm s' = comm s /\ supply s' = supply s /\
  last_tx s' = last_tx s /\ last_batch s' = last_batch s /\ refunded s' = refunded s /\ burned s' = burned s.
Proof. exact genesis_round_trip_proof. Qed.
Print Assumptions genesis_round_trip_keeps_every_pending_transfer.

(** what ExportGenesis reads and InitGenesis writes, re-read from the source on every check: the
    whole pool and all batches through whole-prefix iterators, the denom table (one or, after the
    fix, both indexes), no entry skipped. *)
Theorem genesis_code_shape :
  (Gen.C01.genesis_export_reads = ["GetUnbatchedTransactions"; "GetOutgoingTxBatches"; "GetAllERC20ToDenoms"]%string
   \/ Gen.C01.genesis_export_reads = ["GetUnbatchedTransactions"; "GetOutgoingTxBatches"; "GetAllERC20ToDenoms"; "GetAllERC20ToDenomsByContract"]%string)
  /\ Gen.C01.genesis_export_skips_entries = false
  /\ Gen.C01.pool_read_is_whole_prefix = true /\ Gen.C01.batches_read_is_whole_prefix = true
  /\ Gen.C01.order_InitGenesis = ["setID"; "setID"; "initBridgeDataFromGenesis"; "addUnbatchedTX"; "setDenomToERC20"]%string
  /\ Gen.C01.order_initBridgeDataFromGenesis = ["StoreBatch"]%string.
Proof. exact code_shape4_proof. Qed.
Print Assumptions genesis_code_shape.
