(** C01 — skyway bridge: escrow conservation and all-or-nothing transfer lifecycle, under injected
    collaborator faults.  Only statements closed by [exact]; proofs live in Skyway/BridgeProofs.v,
    non-vacuity examples in Skyway/BridgeExamples.v.

    Reading aid.  [run (init tb b0 sup0) ops] is the state after the history [ops] (Skyway/Bridge.v)
    started from an empty bridge with denom table [tb], arbitrary user balances [b0] and supplies
    [sup0].  An [op] is a send / cancel message (delivered in a transaction), a batch build, batch
    cancellation, gas-estimate update, an executed-batch or deposit attestation (the handler runs
    once), or an end-block step (createBatch, cleanupTimedOutBatches, the whole EndBlocker).  EVERY
    op carries its own fault oracle [f : nat -> bool] — "the n-th fallible collaborator call made by
    this operation fails" (bank transfer / mint / burn, chain-info lookup, relayer selection,
    relayer address lookup) — so [forall ops] quantifies over all interleavings AND all fault
    sequences.  [pending s] = pool ++ transfers of all open batches; [sum_for tb d l] adds
    amount + tax over the transfers of [l] whose (chain, contract) is mapped to denom [d];
    [occ l i] counts occurrences of id [i].  [table_wf tb]: the two indexes of the denom table agree
    (one denom per (chain, contract)); it is decidable ([BridgeExamples.table_wf_b_sound]). *)
From Coq Require Import List ZArith Bool String.
From Paloma Require Import Skyway.Bridge Skyway.BridgeProofs Skyway.BridgeExamples.
From Paloma Require Gen.C01.
Import ListNotations.
Open Scope Z_scope.

(** 1. For every bridged token the escrow balance equals the sum of amount + tax over all pending
    outbound transfers — after every history and every fault sequence. *)
Theorem escrow_eq_pending : forall tb b0 sup0 ops d,
  table_wf tb ->
  let s := run (init tb b0 sup0) ops in
  escrow s d = sum_for tb d (pending s).
Proof. exact escrow_eq_pending_proof. Qed.
Print Assumptions escrow_eq_pending.

(** 2. Every accepted transfer (ids 1 .. last_tx) is in exactly one place: the pool, exactly one
    open batch (once), refunded, or burned; the four counts add up to 1.  Ids never accepted are
    nowhere. *)
Theorem transfer_in_exactly_one_place : forall tb b0 sup0 ops i,
  table_wf tb ->
  let s := run (init tb b0 sup0) ops in
  accepted s i ->
  (occ (pool_ids s) i + occ (batch_ids s) i + occ (refunded s) i + occ (burned s) i = 1)%nat.
Proof. exact transfer_in_exactly_one_place_proof. Qed.
Print Assumptions transfer_in_exactly_one_place.

Theorem unaccepted_transfer_is_nowhere : forall tb b0 sup0 ops i,
  table_wf tb ->
  let s := run (init tb b0 sup0) ops in
  ~ accepted s i ->
  (occ (pool_ids s) i + occ (batch_ids s) i + occ (refunded s) i + occ (burned s) i = 0)%nat.
Proof. exact unaccepted_nowhere_proof. Qed.
Print Assumptions unaccepted_transfer_is_nowhere.

(** What the four places mean (the ghost lists [refunded] / [burned] are written only here):
    a successful send takes the next id, locks amount + tax and pools the transfer; *)
Theorem send_ok_locks_and_pools : forall s u c d a tax f s',
  step s (OSend u c d a tax f) = (s', Ok) ->
  exists k, erc20_of (table s) c d = Some k /\
    last_tx s' = last_tx s + 1 /\
    pool s' = pool_insert (mkT (last_tx s + 1) u c k a tax) (pool s) /\
    bal s' u d = bal s u d - (a + tax) /\ escrow s' d = escrow s d + (a + tax) /\
    batches s' = batches s /\ supply s' = supply s.
Proof. exact send_ok_locks_and_pools_proof. Qed.
Print Assumptions send_ok_locks_and_pools.

(** "refunded" = a successful cancel by the sender, who receives amount + tax in full from escrow; *)
Theorem cancel_ok_refunds_in_full : forall s u i f s',
  step s (OCancel u i f) = (s', Ok) ->
  exists t d, In t (pool s) /\ t_id t = i /\ t_sender t = u /\ tx_denom (table s) t = Some d /\
    bal s' u d = bal s u d + owed t /\ escrow s' d = escrow s d - owed t /\
    refunded s' = i :: refunded s /\ burned s' = burned s /\ supply s' = supply s /\
    pool s' = remove_first (fun t => t_id t =? i) (pool s) /\ batches s' = batches s.
Proof. exact cancel_ok_refunds_in_full_proof. Qed.
Print Assumptions cancel_ok_refunds_in_full.

(** "burned" = an executed-batch attestation from the batch's own chain removed the batch and
    burned exactly its amount + tax from escrow and supply; *)
Theorem executed_ok_burns_batch : forall s c k n eth f s',
  step s (OExecuted c k n eth f) = (s', Ok) ->
  exists b d, find_batch k n (batches s) = Some b /\ b_chain b = c /\ denom_of (table s) c k = Some d /\
    escrow s' d = escrow s d - total_owed (b_txs b) /\ supply s' d = supply s d - total_owed (b_txs b) /\
    burned s' = map t_id (b_txs b) ++ burned s /\ refunded s' = refunded s /\
    batches s' = remove_first (is_batch k n) (batches s) /\ pool s' = pool s /\ bal s' = bal s.
Proof. exact executed_ok_burns_batch_proof. Qed.
Print Assumptions executed_ok_burns_batch.

(** and nothing else ever marks a transfer refunded or burned; ids are never reused. *)
Theorem fates_only_by_cancel_and_executed : forall s o s' out,
  step s o = (s', out) ->
  (refunded s' = refunded s \/ exists u i f, o = OCancel u i f /\ out = Ok /\ refunded s' = i :: refunded s) /\
  (burned s' = burned s \/ exists c k n eth f b, o = OExecuted c k n eth f /\ out = Ok /\
      find_batch k n (batches s) = Some b /\ burned s' = map t_id (b_txs b) ++ burned s).
Proof. exact fates_only_by_cancel_and_executed_proof. Qed.
Print Assumptions fates_only_by_cancel_and_executed.

Theorem transfer_ids_never_reused : forall s o, last_tx s <= last_tx (fst (step s o)).
Proof. exact last_tx_monotone_proof. Qed.
Print Assumptions transfer_ids_never_reused.

(** What a pending transfer owes (amount and the tax charged when it was sent) is fixed at send
    time: no operation — in particular no governance change of the tax rate / exemption list, [OGov],
    which does not touch the bridge's fund state at all — rewrites a pending record; a record pending
    after a step was pending before it or was just created by a successful send from that send's own
    amount and tax.  With the two theorems above (refund and burn are [owed] of the STORED record)
    the refund always equals what was locked, whatever the settings are at cancel time. *)
Theorem pending_records_immutable : forall s o s' out t,
  step s o = (s', out) -> In t (pending s') ->
  In t (pending s) \/
  exists u c d a tax f k, o = OSend u c d a tax f /\ out = Ok /\ erc20_of (table s) c d = Some k /\
                          t = mkT (last_tx s + 1) u c k a tax.
Proof. exact pending_records_immutable_proof. Qed.
Print Assumptions pending_records_immutable.

Theorem governance_leaves_bridge_funds_alone : forall s, step s OGov = (s, Ok).
Proof. reflexivity. Qed.
Print Assumptions governance_leaves_bridge_funds_alone.

(** 3. Total supply changes only by attested deposits (+ amount, once per handler run that
    succeeded) and attested executed batches (- amount - tax of the batch's transfers).
    [deposits_of] / [executed_of] read the history: they add, for every ODeposit / OExecuted
    operation that reported success, the claim's amount / the batch's amount + tax. *)
Theorem supply_delta_only_attested : forall tb b0 sup0 ops d,
  table_wf tb ->
  let s0 := init tb b0 sup0 in
  supply (run s0 ops) d - sup0 d = deposits_of s0 ops d - executed_of s0 ops d.
Proof. exact supply_delta_only_attested_proof. Qed.
Print Assumptions supply_delta_only_attested.

(** 4. An operation that reports failure leaves the whole state (pool, batches, every balance,
    supply, counters) exactly as it was — for every message and every single batch build / batch
    cancellation / estimate update / attestation, at every fault point. *)
Theorem failed_op_is_noop : forall s o s',
  atomic_op o = true -> step s o = (s', Err) -> s' = s.
Proof. exact failed_op_is_noop_proof. Qed.
Print Assumptions failed_op_is_noop.

(** End-of-block housekeeping (createBatch, cleanupTimedOutBatches, EndBlocker) is nothing but a
    sequence of such all-or-nothing builds and batch cancellations (so each one that fails is a
    no-op by theorem 4), and it never moves a coin or changes a transfer's fate. *)
Theorem housekeeping_is_atomic_steps : forall s o,
  atomic_op o = false ->
  exists subs, Forall (fun x => atomic_op x = true) subs /\ fst (step s o) = run s subs.
Proof. exact housekeeping_is_atomic_steps_proof. Qed.
Print Assumptions housekeeping_is_atomic_steps.

Theorem batching_moves_no_coins : forall s o,
  moves_no_coins o = true ->
  let s' := fst (step s o) in
  bal s' = bal s /\ escrow s' = escrow s /\ comm s' = comm s /\ supply s' = supply s /\
  refunded s' = refunded s /\ burned s' = burned s /\ last_tx s' = last_tx s.
Proof. exact batching_moves_no_coins_proof. Qed.
Print Assumptions batching_moves_no_coins.

(** The model is the model of the code as it is now: which functions run on a cached context, the
    order of writes and fallible calls inside them (the fault indices of the model), the chain
    filters, the deposit fallback, the end-blocker order and the three constants are re-read from
    the source on every check. *)
Theorem code_shape_matches_model :
  Gen.C01.cached_context_fns = ["BuildOutgoingTXBatch"; "CancelOutgoingTXBatch"; "OutgoingTxBatchExecuted"; "UpdateBatchGasEstimate"; "processAttestation"]%string
  /\ Gen.C01.order_AddToOutgoingPool = ["GetERC20OfDenom"; "SendCoinsFromAccountToModule"; "autoIncrementID"; "addUnbatchedTX"; "GetChainInfo"]%string
  /\ Gen.C01.order_RemoveFromOutgoingPoolAndRefund = ["GetUnbatchedTxById"; "removeUnbatchedTX"; "GetDenomOfERC20"; "SendCoinsFromModuleToAccount"; "GetChainInfo"]%string
  /\ Gen.C01.order_BuildOutgoingTXBatch = ["pickUnbatchedTxs"; "GetChainInfo"; "autoIncrementID"; "PickValidatorForMessage"; "GetEthAddressByValidator"; "StoreBatch"]%string
  /\ Gen.C01.order_CancelOutgoingTXBatch = ["GetOutgoingTXBatch"; "addUnbatchedTX"; "DeleteBatch"; "GetChainInfo"]%string
  /\ Gen.C01.order_OutgoingTxBatchExecuted = ["GetOutgoingTXBatch"; "GetDenomOfERC20"; "BurnCoins"; "DeleteBatch"]%string
  /\ Gen.C01.order_handleSendToPaloma = ["GetDenomOfERC20"; "MintCoins"; "sendCoinToLocalAddress"; "SendToCommunityPool"]%string
  /\ Gen.C01.order_EndBlocker = ["createBatch"; "attestationTally"; "pruneAttestations"; "processGasEstimates"; "cleanupTimedOutBatches"]%string
  /\ Gen.C01.pick_filters_chain = true /\ Gen.C01.executed_checks_chain = true /\ Gen.C01.executed_checks_timeout = true
  /\ Gen.C01.deposit_fallback_on_send_error = true /\ Gen.C01.sweep_cancels_when_timeout_lt_now = true
  /\ Gen.C01.batch_size = 100 /\ Gen.C01.batch_period = 50 /\ Gen.C01.batch_timeout_secs = 600.
Proof. exact code_shape_proof. Qed.
Print Assumptions code_shape_matches_model.
