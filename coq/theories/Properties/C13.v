(** C13 — validators are never punished for doing what the chain asked.
    Only statements closed by [exact]; proofs live in Skyway/EvidenceProofs.v and Cons/PruneProofs.v.

    Reading aid (bad-signature evidence).  [run cp recover code_cfg ops] is the state of the skyway
    module after the history [ops] (batches built, re-estimated, removed = cancelled / executed /
    timed out, compass redeployed, validators re-registering remote addresses, unjailing, evidence
    messages by anybody), starting from the empty store.  [cp tid body est] is the checkpoint
    (keccak of the ABI encoding) and [recover c sg] the signer address recovered from a signature:
    both ARBITRARY functions, nothing is assumed about keccak or secp256k1.  [st_issued] is every
    value the chain ever published for signing through ANY channel: stored as a batch's BytesToSign
    (build, re-estimate) or handed out by a batch query ([OQuery]: LastPendingBatchRequestByAddr,
    OutgoingTxBatches, BatchRequestByNonce, LastPendingBatchForGasEstimation) by the chain instance
    that is running; [OGenesis] is a restart from an exported genesis (batch records come back, the
    archive is not part of the genesis state), after which [st_issued] is what the new instance shows
    from its first block on; [st_ever] is never reset (any instance, ever).  [genesis_safe g ops] :=
    InitGenesis archives the BytesToSign of the batches it imports, or [ops] contains no restart
    (the histories of the first round).  [st_archive] the
    PastEthSignatureCheckpoint set.  [code_cfg] says which functions archive and whether the
    evidence handler consults the archive — it is TRANSLATED FROM THE SOURCE on every run
    (Gen.C13), the [eq_refl]s below are where a source that stops archiving stops checking.

    Reading aid (pruning).  [prune_all keqb gk ord jail_ok sn j ms] is the set of jailed validators
    after PruneOldMessages walked the messages [ms] under snapshot [sn], starting from [j];
    [jail_ok] is valset.Jail's own decision (arbitrary), [gk]/[keqb]/[ord] the evidence group key,
    its equality and Go's map order (arbitrary).  [power sn vs] = sum of snapshot shares of [vs]
    (0 for outsiders); [voters m] = validators with an evidence entry on [m]. *)
From Coq Require Import List ZArith Bool String.
From Paloma Require Import Base.Num Cons.Quorum Cons.Prune Cons.PruneProofs Skyway.Evidence Skyway.EvidenceProofs.
From Paloma Require Gen.C13.
Import ListNotations.
Open Scope Z_scope.

(** What the model takes from the source, spelled out: if any of this changes the statement no
    longer type-checks by [eq_refl] and the model has to be looked at again. *)
Theorem model_is_of_current_source :
  code_cfg = {| c_build_archives := true; c_reissue_archives := true; c_rejects_archived := true; c_set_once := true;
                c_queries_stored := true; c_confirm_recomputes := true;
                c_genesis_archives_live := true; c_redeploy_reissues := true; c_stale_publishes := false |} /\
  Gen.C13.batch_queries = ["BatchRequestByNonce"; "LastPendingBatchForGasEstimation"; "LastPendingBatchRequestByAddr";
                           "OutgoingTxBatches"]%string /\
  Gen.C13.add_evidence_one_entry_per_validator = true /\
  Gen.C13.evidence_lookup_is_live_registry = true /\
  Gen.C13.evidence_list_written_only_by_add_evidence = true /\
  Gen.C13.dummy_gas_estimate = 300000 /\ Gen.C13.estimate_zero_means_dummy = true /\
  Gen.C13.checkpoint_fields =
    ["i.TokenContract.GetAddress()"; "args"; "big.NewInt(int64(i.BatchNonce))"; "turnstoneBytes32";
     "big.NewInt(int64(i.BatchTimeout))"; "i.AssigneeRemoteAddress"; "estimate"]%string /\
  Gen.C13.prune_floor_factor = 10 /\ Gen.C13.prune_floor_strict = true /\
  Gen.C13.undelivered_is_no_public_and_no_error = true /\
  Gen.C13.prune_jails_snapshot_vals_without_evidence = true.
Proof. exact (conj eq_refl (conj eq_refl (conj eq_refl (conj eq_refl (conj eq_refl (conj eq_refl (conj eq_refl (conj eq_refl (conj eq_refl (conj eq_refl (conj eq_refl eq_refl))))))))))). Qed.
Print Assumptions model_is_of_current_source.

(** Every checkpoint the chain ever published for signing — at build time or when a gas estimate
    was elected, under whatever deployment id was in force — is in the archive, after every history. *)
Theorem issued_subset_archive :
  forall (Sig : Type) (cp : Z -> Z -> Z -> Z) (recover : Z -> Sig -> option addr) (ops : list (op Sig)) (c : Z),
  genesis_safe code_cfg ops ->
  In c (st_issued (run cp recover code_cfg ops)) -> In c (st_archive (run cp recover code_cfg ops)).
Proof. exact (fun Sig cp recover => issued_incl_archive cp recover code_cfg eq_refl eq_refl eq_refl). Qed.
Print Assumptions issued_subset_archive.

(** In particular what a stored batch shows as BytesToSign right now was published (hence archived),
    and neither the published set nor the archive ever shrinks. *)
Theorem stored_bytes_to_sign_were_issued :
  forall (Sig : Type) (cp : Z -> Z -> Z -> Z) (recover : Z -> Sig -> option addr) (ops : list (op Sig)) (b : batch),
  In b (st_batches (run cp recover code_cfg ops)) -> In (b_bts b) (st_issued (run cp recover code_cfg ops)).
Proof. exact (fun Sig cp recover => stored_bytes_to_sign_issued cp recover code_cfg). Qed.
Print Assumptions stored_bytes_to_sign_were_issued.

Theorem issued_and_archive_never_shrink :
  forall (Sig : Type) (cp : Z -> Z -> Z -> Z) (recover : Z -> Sig -> option addr) (later : list (op Sig)) (s : state),
  (~ In (@OGenesis Sig) later ->
   incl (st_issued s) (st_issued (run_from cp recover code_cfg s later)) /\
   incl (st_archive s) (st_archive (run_from cp recover code_cfg s later))) /\
  incl (st_ever s) (st_ever (run_from cp recover code_cfg s later)).
Proof.
  exact (fun Sig cp recover later s =>
    conj (fun NG => issued_and_archive_only_grow cp recover code_cfg later NG s) (ever_only_grows cp recover code_cfg later s)).
Qed.
Print Assumptions issued_and_archive_never_shrink.

(** The headline.  After ANY history, let [c] be a checkpoint the chain published at any earlier
    time and [k] a key such that every remote address validator [v] has registered on [chain] is
    [k]'s.  If somebody submits [sign k c] as bad-signature evidence — with any subject (body,
    estimate) and on any chain — and [v] gets jailed by it, then the signature scheme's binding is
    broken: that one signature also recovers to [k]'s address under a checkpoint different from [c]. *)
Theorem honest_signer_never_jailed :
  forall (Sig Key : Type) (cp : Z -> Z -> Z -> Z) (recover : Z -> Sig -> option addr)
         (sign : Key -> Z -> Sig) (addr_of : Key -> addr)
         (ops : list (op Sig)) (chain body est : Z) (k : Key) (c : Z) (v : val),
  genesis_safe code_cfg ops ->
  In c (st_issued (run cp recover code_cfg ops)) ->
  uses_only_key addr_of (run cp recover code_cfg ops) chain v k ->
  newly_jailed (run cp recover code_cfg ops)
               (step cp recover code_cfg (run cp recover code_cfg ops) (OEvidence chain body est (sign k c))) v ->
  recover_binding_broken recover sign addr_of.
Proof.
  exact (fun Sig Key cp recover sign addr_of =>
           honest_never_jailed_bb cp recover sign addr_of code_cfg eq_refl eq_refl eq_refl eq_refl).
Qed.
Print Assumptions honest_signer_never_jailed.

(** The same with NO hypothesis about who registered what (the [uses_only_key] premise above is only
    needed to name the signer's own address in the alternative): a signature over a published
    checkpoint jails nobody at all -- not its signer, not any other validator -- unless that one
    signature recovers, under a message different from the one signed, to an address the jailed
    validator registered. *)
Theorem published_signature_is_useless_as_evidence :
  forall (Sig Key : Type) (cp : Z -> Z -> Z -> Z) (recover : Z -> Sig -> option addr) (sign : Key -> Z -> Sig)
         (ops : list (op Sig)) (chain body est : Z) (k : Key) (c : Z) (v : val),
  genesis_safe code_cfg ops ->
  In c (st_issued (run cp recover code_cfg ops)) ->
  newly_jailed (run cp recover code_cfg ops)
               (step cp recover code_cfg (run cp recover code_cfg ops) (OEvidence chain body est (sign k c))) v ->
  exists m' a, m' <> c /\ recover m' (sign k c) = Some a /\ In (chain, v, a) (st_reg (run cp recover code_cfg ops)).
Proof.
  exact (fun Sig Key cp recover sign =>
           published_signature_jails_nobody cp recover sign code_cfg eq_refl eq_refl eq_refl eq_refl).
Qed.
Print Assumptions published_signature_is_useless_as_evidence.

(** Who does get jailed by evidence: the first validator registered (on that chain) with the
    address the signature recovers to under the SUBJECT's checkpoint, and that checkpoint was
    never published nor archived. *)
Theorem bad_sig_jails_only_registered_signer_of_unissued :
  forall (Sig : Type) (cp : Z -> Z -> Z -> Z) (recover : Z -> Sig -> option addr)
         (ops : list (op Sig)) (chain body est : Z) (sg : Sig) (v : val),
  genesis_safe code_cfg ops ->
  newly_jailed (run cp recover code_cfg ops)
               (step cp recover code_cfg (run cp recover code_cfg ops) (OEvidence chain body est sg)) v ->
  exists tid a,
    chain_tid (st_chains (run cp recover code_cfg ops)) chain = Some tid /\
    ~ In (cp tid body (eff_est est)) (st_issued (run cp recover code_cfg ops)) /\
    ~ In (cp tid body (eff_est est)) (st_archive (run cp recover code_cfg ops)) /\
    recover (cp tid body (eff_est est)) sg = Some a /\
    val_of_addr (st_reg (run cp recover code_cfg ops)) chain a = Some v /\
    In (chain, v, a) (st_reg (run cp recover code_cfg ops)).
Proof.
  exact (fun Sig cp recover =>
           bad_sig_jails_registered_signer_of_unissued cp recover code_cfg eq_refl eq_refl eq_refl eq_refl).
Qed.
Print Assumptions bad_sig_jails_only_registered_signer_of_unissued.

(** Evidence jails at most one validator and changes nothing else; no other operation of the
    module jails anybody; so every validator jailed at the end of a history was jailed by one
    identifiable evidence message (to which the two theorems above apply). *)
Theorem evidence_changes_one_jailed_flag_at_most :
  forall (Sig : Type) (cp : Z -> Z -> Z -> Z) (recover : Z -> Sig -> option addr) (s : state) (chain body est : Z) (sg : Sig),
  let s' := step cp recover code_cfg s (OEvidence chain body est sg) in
  st_chains s' = st_chains s /\ st_batches s' = st_batches s /\ st_archive s' = st_archive s /\
  st_issued s' = st_issued s /\ st_reg s' = st_reg s /\
  (st_jailed s' = st_jailed s \/ exists v, ~ In v (st_jailed s) /\ st_jailed s' = v :: st_jailed s).
Proof. exact (fun Sig cp recover => evidence_frame cp recover code_cfg). Qed.
Print Assumptions evidence_changes_one_jailed_flag_at_most.

Theorem every_jailing_has_an_evidence_message :
  forall (Sig : Type) (cp : Z -> Z -> Z -> Z) (recover : Z -> Sig -> option addr) (ops : list (op Sig)) (v : val),
  In v (st_jailed (run cp recover code_cfg ops)) ->
  exists pre chain body est sg post,
    ops = pre ++ OEvidence chain body est sg :: post /\
    newly_jailed (run cp recover code_cfg pre)
                 (step cp recover code_cfg (run cp recover code_cfg pre) (OEvidence chain body est sg)) v.
Proof. exact (fun Sig cp recover => jailed_has_cause cp recover code_cfg). Qed.
Print Assumptions every_jailing_has_an_evidence_message.

(** Why the archive entry for the re-issued checkpoint is needed (the defect of the pinned tree,
    F10): with UpdateBatchGasEstimate not archiving, there is a history after which the honest
    confirmation of the re-issued checkpoint jails its signer although the binding is intact. *)
Theorem without_rearchiving_an_honest_signer_is_jailed :
  let s := run ex_cp ex_recover old_cfg ex_history in
  In ex_reissued (st_issued s) /\ ~ In ex_reissued (st_archive s) /\
  uses_only_key ex_addr s 1 5 5 /\
  newly_jailed s (step ex_cp ex_recover old_cfg s (OEvidence 1 42 21000 (ex_sign 5 ex_reissued))) 5 /\
  ~ recover_binding_broken ex_recover ex_sign ex_addr.
Proof. exact honest_jailed_without_rearchive. Qed.
Print Assumptions without_rearchiving_an_honest_signer_is_jailed.

(** Queries are a channel through which the chain asks for signatures.  Whatever one of the batch
    queries hands out as BytesToSign had been published when the record was written and is archived:
    reading a query never asks for a signature over anything new ... *)
Theorem queries_serve_only_archived_checkpoints :
  forall (Sig : Type) (cp : Z -> Z -> Z -> Z) (recover : Z -> Sig -> option addr) (ops : list (op Sig)) (key c : Z),
  genesis_safe code_cfg ops ->
  served_bts cp code_cfg (run cp recover code_cfg ops) key = Some c ->
  In c (st_issued (run cp recover code_cfg ops)) /\ In c (st_archive (run cp recover code_cfg ops)).
Proof. exact (fun Sig cp recover => query_serves_issued cp recover code_cfg eq_refl eq_refl eq_refl). Qed.
Print Assumptions queries_serve_only_archived_checkpoints.

(** ... and why that is needed: were the queries to recompute BytesToSign for the deployment id in
    force at query time (on a tree that does not re-issue open batches on activation, where seeded
    change C was made), then after a redeploy the validator that signs what the query gave it is
    jailed by the replay, with the binding provably intact. *)
Theorem with_recomputing_queries_an_honest_signer_is_jailed :
  let s0 := run ex_cp ex_recover recomputing_queries_cfg ex_redeploy_history in
  let s := step ex_cp ex_recover recomputing_queries_cfg s0 (OQuery 1) in
  served_bts ex_cp recomputing_queries_cfg s0 1 = Some ex_served_after_redeploy /\
  In ex_served_after_redeploy (st_issued s) /\ ~ In ex_served_after_redeploy (st_archive s) /\
  confirm_checks_against ex_cp recomputing_queries_cfg s 1 = Some ex_served_after_redeploy /\
  uses_only_key ex_addr s 1 5 5 /\
  newly_jailed s (step ex_cp ex_recover recomputing_queries_cfg s
                    (OEvidence 1 42 0 (ex_sign 5 ex_served_after_redeploy))) 5 /\
  ~ recover_binding_broken ex_recover ex_sign ex_addr.
Proof. exact honest_jailed_with_recomputing_queries. Qed.
Print Assumptions with_recomputing_queries_an_honest_signer_is_jailed.

(** Issued versus verified (ConfirmBatch verifies against the checkpoint recomputed for the id in
    force NOW, the queries serve the stored BytesToSign).  They coincide while the id the record was
    written under is in force -- and every stored BytesToSign is the record's checkpoint under some
    id ... (this much holds whether or not open batches are re-issued on activation) *)
Theorem confirm_checks_the_published_checkpoint_while_id_unchanged :
  forall (Sig : Type) (cp : Z -> Z -> Z -> Z) (recover : Z -> Sig -> option addr) (ops : list (op Sig)) (key : Z) (b : batch),
  find_batch (st_batches (run cp recover code_cfg ops)) key = Some b ->
  (exists tid0, b_bts b = cp tid0 (b_body b) (eff_est (b_est b))) /\
  forall tid0, b_bts b = cp tid0 (b_body b) (eff_est (b_est b)) ->
    chain_tid (st_chains (run cp recover code_cfg ops)) (b_chain b) = Some tid0 ->
    confirm_checks_against cp code_cfg (run cp recover code_cfg ops) key = Some (b_bts b) /\
    served_bts cp code_cfg (run cp recover code_cfg ops) key = Some (b_bts b).
Proof.
  exact (fun Sig cp recover ops key b F =>
    conj (stored_bts_is_a_checkpoint cp recover code_cfg ops b (proj1 (find_batch_in _ _ _ F)))
         (fun tid0 E T => conj (confirm_checks_published_while_id_unchanged cp recover code_cfg ops key b tid0 F E T)
                               (f_equal (fun o => match o with Some b => Some (served cp code_cfg (run cp recover code_cfg ops) b) | None => None end) F))).
Qed.
Print Assumptions confirm_checks_the_published_checkpoint_while_id_unchanged.

(** ... and, since skyway re-issues every open batch of a chain when a compass is activated for it
    (refreshOpenBatchCheckpoints: recomputed for the new id, stored AND archived; shape checked by T),
    and since a stale activation is no longer announced to skyway (fix a10a974d, shape read by T),
    for ALL histories -- stale activations included: what ConfirmBatch verifies against IS what the
    queries serve -- issued = verified, also across redeploys, restarts, re-estimates. *)
Theorem confirm_checks_what_the_queries_serve :
  forall (Sig : Type) (cp : Z -> Z -> Z -> Z) (recover : Z -> Sig -> option addr) (ops : list (op Sig)) (key : Z),
  confirm_checks_against cp code_cfg (run cp recover code_cfg ops) key = served_bts cp code_cfg (run cp recover code_cfg ops) key.
Proof.
  exact (fun Sig cp recover ops key =>
    confirm_checks_what_is_served cp recover code_cfg eq_refl ops key (stale_ok_all code_cfg eq_refl ops)).
Qed.
Print Assumptions confirm_checks_what_the_queries_serve.

(** Why the re-issue is needed for that (a tree without it, main before a05a08cf): for a batch that
    outlives a compass change the published (archived) checkpoint is no longer what ConfirmBatch
    accepts, and the one it accepts was never published nor archived, so its signer can be jailed by
    evidence. *)
Theorem confirm_after_redeploy_verifies_an_unpublished_checkpoint :
  let s := run ex_cp ex_recover no_reissue_cfg ex_redeploy_history in
  served_bts ex_cp no_reissue_cfg s 1 = Some (ex_cp 7 42 300000) /\
  confirm_checks_against ex_cp no_reissue_cfg s 1 = Some (ex_cp 8 42 300000) /\
  In (ex_cp 7 42 300000) (st_archive s) /\
  ~ In (ex_cp 8 42 300000) (st_issued s) /\ ~ In (ex_cp 8 42 300000) (st_archive s) /\
  newly_jailed s (step ex_cp ex_recover no_reissue_cfg s (OEvidence 1 42 0 (ex_sign 5 (ex_cp 8 42 300000)))) 5.
Proof. exact confirm_after_redeploy_checks_unpublished. Qed.
Print Assumptions confirm_after_redeploy_verifies_an_unpublished_checkpoint.

(** A stale activation (ActivateChainReferenceID with a contract version not above the active one).
    The code as it is does not announce it: for skyway it is a step in which NOTHING happens -- the
    issued and archived sets, the batches, everything stays as it was ... *)
Theorem stale_activation_changes_nothing :
  forall (Sig : Type) (cp : Z -> Z -> Z -> Z) (recover : Z -> Sig -> option addr) (s : state) (chain tid : Z),
  step cp recover code_cfg s (OStaleActivate chain tid) = s.
Proof. exact (fun Sig cp recover s chain tid => stale_activation_is_a_noop cp recover code_cfg s chain tid eq_refl). Qed.
Print Assumptions stale_activation_changes_nothing.

(** ... whereas on a tree where evm still published the activation event for it (main before
    a10a974d; defect found by C06) skyway re-issued the open batches for the id the EVENT carried:
    everything published was archived (no clause of C13 touched), but issued <> verified again. *)
Theorem stale_activation_reissues_for_an_id_not_in_force :
  let s := run ex_cp ex_recover stale_publishing_cfg
             [OSetTid 1 7; OSetReg [(1, 5, 210); (1, 6, 212)]; OBuild 1 1 42; OStaleActivate 1 9] in
  served_bts ex_cp stale_publishing_cfg s 1 = Some (ex_cp 9 42 300000) /\
  confirm_checks_against ex_cp stale_publishing_cfg s 1 = Some (ex_cp 7 42 300000) /\
  In (ex_cp 9 42 300000) (st_archive s) /\ In (ex_cp 7 42 300000) (st_archive s).
Proof. exact stale_activation_desyncs_when_announced. Qed.
Print Assumptions stale_activation_reissues_for_an_id_not_in_force.

(** Chain restart from an exported genesis.  [genesis_safe] holds for EVERY history once InitGenesis
    archives what it imports (the flag is read from the source) ... *)
Theorem genesis_safe_for_all_histories_once_import_archives :
  Gen.C13.genesis_archives_live = true -> forall (Sig : Type) (ops : list (op Sig)), genesis_safe code_cfg ops.
Proof. exact (fun H Sig ops => or_introl H). Qed.
Print Assumptions genesis_safe_for_all_histories_once_import_archives.

(** On the code as it is (fix 0ef010d7 merged: initBridgeDataFromGenesis archives intBatch.BytesToSign,
    shape read by T) the premise [genesis_safe] of the theorems above holds for every history; this
    is where a tree that stops archiving at import stops checking. *)
Theorem every_history_is_genesis_safe :
  forall (Sig : Type) (ops : list (op Sig)), genesis_safe code_cfg ops.
Proof. exact (fun Sig ops => or_introl eq_refl). Qed.
Print Assumptions every_history_is_genesis_safe.

(** ... and is needed: with an InitGenesis that does not, the restarted chain serves (and
    ConfirmBatch verifies against) bytes to sign that are not in its archive, and the validator
    that signs them is jailed by the replay. *)
Theorem after_an_unarchiving_genesis_import_an_honest_signer_is_jailed :
  let s := run ex_cp ex_recover unarchiving_genesis_cfg ex_genesis_history in
  served_bts ex_cp unarchiving_genesis_cfg s 1 = Some (ex_cp 7 42 300000) /\
  confirm_checks_against ex_cp unarchiving_genesis_cfg s 1 = Some (ex_cp 7 42 300000) /\
  In (ex_cp 7 42 300000) (st_issued s) /\ ~ In (ex_cp 7 42 300000) (st_archive s) /\
  uses_only_key ex_addr s 1 5 5 /\
  newly_jailed s (step ex_cp ex_recover unarchiving_genesis_cfg s (OEvidence 1 42 0 (ex_sign 5 (ex_cp 7 42 300000)))) 5 /\
  ~ recover_binding_broken ex_recover ex_sign ex_addr.
Proof. exact honest_jailed_after_unarchiving_genesis. Qed.
Print Assumptions after_an_unarchiving_genesis_import_an_honest_signer_is_jailed.

(** KNOWN FINDING (C13:retired-checkpoint-unprotected-after-genesis), not repairable without
    carrying the archive in the genesis state: "everything any instance ever published is archived"
    holds without a restart ([st_ever] = [st_issued] then) and is REFUTED across one, even with an
    InitGenesis that archives what it imports -- the checkpoint of a batch retired before the export
    is gone from the archive and its genuine confirmation jails the signer. *)
Theorem ever_published_is_archived_without_restart :
  forall (Sig : Type) (cp : Z -> Z -> Z -> Z) (recover : Z -> Sig -> option addr) (ops : list (op Sig)) (c : Z),
  ~ In (@OGenesis Sig) ops ->
  In c (st_ever (run cp recover code_cfg ops)) -> In c (st_archive (run cp recover code_cfg ops)).
Proof.
  exact (fun Sig cp recover ops c NG H =>
    issued_incl_archive cp recover code_cfg eq_refl eq_refl eq_refl ops c (or_intror NG)
      (eq_ind _ (fun l => In c l) H _ (ever_is_issued_without_genesis cp recover code_cfg ops NG))).
Qed.
Print Assumptions ever_published_is_archived_without_restart.

Theorem ever_published_is_archived_across_restart_refuted :
  let s := run ex_cp ex_recover archiving_genesis_cfg ex_retired_history in
  In (ex_cp 7 42 300000) (st_ever s) /\ ~ In (ex_cp 7 42 300000) (st_issued s) /\ ~ In (ex_cp 7 42 300000) (st_archive s) /\
  uses_only_key ex_addr s 1 5 5 /\
  newly_jailed s (step ex_cp ex_recover archiving_genesis_cfg s (OEvidence 1 42 0 (ex_sign 5 (ex_cp 7 42 300000)))) 5 /\
  ~ recover_binding_broken ex_recover ex_sign ex_addr.
Proof. exact retired_checkpoint_unprotected_after_genesis. Qed.
Print Assumptions ever_published_is_archived_across_restart_refuted.

(** Pruning.  Whoever is jailed after PruneOldMessages and was not jailed before: there is one
    pruned message that was delivered (public-access or error data), failed consensus, on which at
    least 10 % of the snapshot's total attested, and for which this validator IS in the snapshot
    and supplied NO evidence. *)
Theorem prune_jails_only_silent_snapshot_vals :
  forall (K : Type) (keqb : K -> K -> bool) (gk : Z -> Z -> K) (ord : list (@group K) -> list (@group K))
         (jail_ok : list val -> val -> bool) (sn : snapshot) (ms : list pmsg) (j : list val) (v : val),
  In v (prune_all keqb gk ord jail_ok sn j ms) -> ~ In v j ->
  exists m, In m ms /\
    (pm_public m || pm_error m = true) /\
    verify_evidence keqb gk ord sn (pm_evs m) = NotAchieved /\
    In v (map fst (sn_vals sn)) /\ insider (sn_vals sn) v = true /\
    ~ In v (voters m) /\
    sn_total sn <= 10 * power sn (voters m) /\
    existsb (insider (sn_vals sn)) (voters m) = true.
Proof.
  exact (fun K keqb gk ord jail_ok sn ms j v H N =>
    match prune_all_sound keqb gk ord jail_ok sn ms j v H with
    | or_introl Hin => False_ind _ (N Hin)
    | or_intror X => X
    end).
Qed.
Print Assumptions prune_jails_only_silent_snapshot_vals.

(** A validator that supplied evidence for every pruned message is not jailed. *)
Theorem evidence_suppliers_never_jailed_by_prune :
  forall (K : Type) (keqb : K -> K -> bool) (gk : Z -> Z -> K) (ord : list (@group K) -> list (@group K))
         (jail_ok : list val -> val -> bool) (sn : snapshot) (ms : list pmsg) (j : list val) (v : val),
  ~ In v j -> (forall m, In m ms -> In v (voters m)) -> ~ In v (prune_all keqb gk ord jail_ok sn j ms).
Proof. exact (fun K keqb gk ord jail_ok sn ms j v => evidence_suppliers_safe keqb gk ord jail_ok sn ms j v). Qed.
Print Assumptions evidence_suppliers_never_jailed_by_prune.

(** Fewer than 10 % of the snapshot's shares attested (in particular: nobody from the snapshot):
    pruning that message jails nobody. *)
Theorem ten_percent_floor :
  forall (K : Type) (keqb : K -> K -> bool) (gk : Z -> Z -> K) (ord : list (@group K) -> list (@group K))
         (jail_ok : list val -> val -> bool) (sn : snapshot) (m : pmsg) (j : list val),
  10 * power sn (voters m) < sn_total sn \/ existsb (insider (sn_vals sn)) (voters m) = false ->
  prune_calls keqb gk ord sn m = [] /\ prune_job keqb gk ord jail_ok sn j m = j.
Proof.
  exact (fun K keqb gk ord jail_ok sn m j H =>
    match H with
    | or_introl L => conj (ten_percent_floor_calls keqb gk ord sn m L)
                          (prune_job_noop keqb gk ord jail_ok sn j m (ten_percent_floor_calls keqb gk ord sn m L))
    | or_intror E => conj (no_insider_vote_calls keqb gk ord sn m E)
                          (prune_job_noop keqb gk ord jail_ok sn j m (no_insider_vote_calls keqb gk ord sn m E))
    end).
Qed.
Print Assumptions ten_percent_floor.

(** An undelivered message (no public-access data, no error data) jails nobody when pruned, and
    neither does a message whose evidence does reach consensus. *)
Theorem undelivered_prune_jails_nobody :
  forall (K : Type) (keqb : K -> K -> bool) (gk : Z -> Z -> K) (ord : list (@group K) -> list (@group K))
         (jail_ok : list val -> val -> bool) (sn : snapshot) (m : pmsg) (j : list val),
  pm_public m = false -> pm_error m = false ->
  prune_calls keqb gk ord sn m = [] /\ prune_job keqb gk ord jail_ok sn j m = j.
Proof.
  exact (fun K keqb gk ord jail_ok sn m j A B =>
    conj (undelivered_calls keqb gk ord sn m A B)
         (prune_job_noop keqb gk ord jail_ok sn j m (undelivered_calls keqb gk ord sn m A B))).
Qed.
Print Assumptions undelivered_prune_jails_nobody.

Theorem consensus_prune_jails_nobody :
  forall (K : Type) (keqb : K -> K -> bool) (gk : Z -> Z -> K) (ord : list (@group K) -> list (@group K))
         (jail_ok : list val -> val -> bool) (sn : snapshot) (m : pmsg) (j : list val) (w : evidence),
  verify_evidence keqb gk ord sn (pm_evs m) = Winner w ->
  prune_calls keqb gk ord sn m = [] /\ prune_job keqb gk ord jail_ok sn j m = j.
Proof.
  exact (fun K keqb gk ord jail_ok sn m j w H =>
    conj (consensus_calls keqb gk ord sn m w H)
         (prune_job_noop keqb gk ord jail_ok sn j m (consensus_calls keqb gk ord sn m w H))).
Qed.
Print Assumptions consensus_prune_jails_nobody.

(** Exactness of the pruning rule (so the soundness statements are not vacuously about an empty
    set): past the guards, exactly the silent snapshot validators are handed to valset.Jail. *)
Theorem prune_calls_exactly_silent_snapshot_vals :
  forall (K : Type) (keqb : K -> K -> bool) (gk : Z -> Z -> K) (ord : list (@group K) -> list (@group K))
         (sn : snapshot) (m : pmsg),
  delivered m = true -> verify_evidence keqb gk ord sn (pm_evs m) = NotAchieved -> below_floor sn m = false ->
  sn_vals sn <> [] -> sn_total sn <> 0 ->
  prune_calls keqb gk ord sn m = filter (silent m) (map fst (sn_vals sn)).
Proof. exact (fun K keqb gk ord => prune_calls_complete keqb gk ord). Qed.
Print Assumptions prune_calls_exactly_silent_snapshot_vals.

(** Re-submitted evidence.  A message's evidence list is built by MsgAddEvidence sent by anybody
    any number of times ([msg_of_submissions]: Queue.AddEvidence keeps one entry per validator, the
    shape T checks).  [attested_power sn subs] counts every attester ONCE.  Fewer than 10 % of the
    snapshot's shares attested -- however often they re-sent -- : pruning jails nobody; and whoever
    sent evidence at least once (first, later, again, with the same or another proof) is never
    handed to Jail. *)
Theorem ten_percent_floor_counts_each_attester_once :
  forall (K : Type) (keqb : K -> K -> bool) (gk : Z -> Z -> K) (ord : list (@group K) -> list (@group K))
         (sn : snapshot) (public error : bool) (subs : list evidence),
  power sn (voters (msg_of_submissions public error subs)) = attested_power sn subs /\
  (10 * attested_power sn subs < sn_total sn -> prune_calls keqb gk ord sn (msg_of_submissions public error subs) = []).
Proof.
  exact (fun K keqb gk ord sn p e subs =>
    conj (stored_power_is_attested_power sn p e subs) (floor_counts_each_attester_once keqb gk ord sn p e subs)).
Qed.
Print Assumptions ten_percent_floor_counts_each_attester_once.

Theorem whoever_sent_evidence_is_not_jailed_by_prune :
  forall (K : Type) (keqb : K -> K -> bool) (gk : Z -> Z -> K) (ord : list (@group K) -> list (@group K))
         (sn : snapshot) (public error : bool) (subs : list evidence) (v : val),
  In v (map ev_val subs) -> ~ In v (prune_calls keqb gk ord sn (msg_of_submissions public error subs)).
Proof. exact (fun K keqb gk ord => submitter_not_called keqb gk ord). Qed.
Print Assumptions whoever_sent_evidence_is_not_jailed_by_prune.

(** The whole life of a message: error report, delivery report (in any order, each honoured or
    ignored as Queue.SetErrorData / SetPublicAccessData do) and evidence at ANY time
    ([msg_of_history]).  Only AddEvidence writes the evidence list (T enumerates the writers), so the
    list only grows or replaces a proof per validator: it is the stored form of the submissions
    alone, and whoever is in it stays in it whatever happens later. *)
Theorem message_evidence_list_only_grows_or_replaces :
  forall (ops later : list mop) (v : val),
  pm_evs (msg_of_history ops) = stored_evidence (submissions ops) /\
  (In v (voters (msg_of_history ops)) -> In v (voters (msg_of_history (ops ++ later)))).
Proof. exact (fun ops later v => conj (history_evidence_is_stored_submissions ops) (evidence_never_lost ops later v)). Qed.
Print Assumptions message_evidence_list_only_grows_or_replaces.

(** Whoever supplied evidence for the message at any time -- before or after an error report,
    before or after a delivery report -- is never handed to Jail when it is pruned; and the floor
    counts the distinct attesters of the whole history. *)
Theorem whoever_sent_evidence_at_any_time_is_not_jailed_by_prune :
  forall (K : Type) (keqb : K -> K -> bool) (gk : Z -> Z -> K) (ord : list (@group K) -> list (@group K))
         (sn : snapshot) (ops : list mop) (v : val),
  (In v (map ev_val (submissions ops)) -> ~ In v (prune_calls keqb gk ord sn (msg_of_history ops))) /\
  (10 * attested_power sn (submissions ops) < sn_total sn -> prune_calls keqb gk ord sn (msg_of_history ops) = []).
Proof.
  exact (fun K keqb gk ord sn ops v =>
    conj (supplier_at_any_time_not_called keqb gk ord sn ops v) (history_floor keqb gk ord sn ops)).
Qed.
Print Assumptions whoever_sent_evidence_at_any_time_is_not_jailed_by_prune.
