(** C18 — light-node licence funds: escrowed 1:1, released once, vesting, to the licensee.
    Only statements closed by [exact]; the proofs are in Paloma/LightNodeProofs.v.

    Reading aid.  [step s o] is one operation on the model state of Paloma/LightNode.v and returns
    the new state and the outcome; [run s0 ops] folds [step] over a history, [trace] lists the
    outcomes.  Operations: [AddLicence creator client denom amount months] (MsgAddLightNodeClientLicense),
    [Register who] (MsgRegisterLightNodeClient signed by [who]), [Auth], [Sale chain contract client
    amount] (an observed MsgLightNodeSaleClaim handled inside processAttestation's cache context),
    [Send] (any bank transfer; to [escrow] it is a gift), [Grant] (any fee grant), the governance
    setters and [Tick].  An address STRING is [(id, upper)], the address BYTES are [id]: the licence
    and client stores are keyed by the string, accounts and balances by the bytes.  [escrow] is the
    x/paloma module account.  [inv_struct]: the module account exists, every stored licence is for a
    plain base account, has a positive amount, and no two licences are for the same address.
    [inv]: [inv_struct] and the escrow equation; both hold in [init t0 b] (no licences, any
    balances) — Example [ex_inv] — and are preserved by every operation.  [op_wf]: the module account
    is never a message creator / bank sender / configured funder (it has no key). *)
From Coq Require Import List ZArith Bool String.
From Paloma Require Import Base.Dec Paloma.LightNode Paloma.LightNodeProofs.
From Paloma Require Import Paloma.CalendarProofs Paloma.LightNodeExt Paloma.LightNodeExtProofs.
From Paloma Require Gen.C18.
Import ListNotations.
Open Scope Z_scope.

(** Clause 1.  After any history the module account holds, per denom, exactly the sum of the
    not-yet-activated licences plus what was given to it from outside; so it always covers the
    licences, and equals them when there were no gifts. *)
Theorem escrow_covers_licences : forall (s0 : state) (ops : list op),
  inv s0 -> Forall op_wf ops ->
  let s := run s0 ops in
  forall d, bal s escrow d = lic_sum d (lics s) + gifts s d /\
            lic_sum d (lics s) <= bal s escrow d /\
            gifts s0 d <= gifts s d /\
            (gifts s d = 0 -> bal s escrow d = lic_sum d (lics s)).
Proof. exact escrow_covers_licences_thm. Qed.
Print Assumptions escrow_covers_licences.

(** Clause 2.  A licence (by message or by sale) is created only for an address that has no
    account and no licence under either spelling; the step gives it a base account and exactly
    one licence with a positive amount, and touches no other account. *)
Theorem licence_creation_guard : forall (s s' : state) (o : op) (client : key),
  inv_struct s -> creates o client -> step s o = (s', Ok) ->
  acct s (fst client) = None /\
  (forall up, lic_get (lics s) (fst client, up) = None) /\
  (exists l, lics s' = (client, l) :: lics s /\ 0 < l_amount l) /\
  acct s' (fst client) = Some Base /\
  (forall a, a <> fst client -> acct s' a = acct s a).
Proof. exact licence_creation_guard_thm. Qed.
Print Assumptions licence_creation_guard.

(** ... and in every reachable state there is at most one licence per address, each on a plain
    base account (never on a vesting or module account). *)
Theorem licences_unique_and_on_base_accounts : forall (s0 : state) (ops : list op),
  inv_struct s0 ->
  let s := run s0 ops in
  NoDup (lic_ids (lics s)) /\
  forall k l, In (k, l) (lics s) -> acct s (fst k) = Some Base /\ 0 < l_amount l.
Proof. exact licences_unique_on_base_accounts. Qed.
Print Assumptions licences_unique_and_on_base_accounts.

(** ... and nothing but the two creation operations ever adds a licence. *)
Theorem only_creation_adds_a_licence : forall (s : state) (o : op),
  acct s escrow = Some Module -> (forall client, ~ creates o client) ->
  incl (lics (fst (step s o))) (lics s).
Proof. exact only_creation_adds_licences. Qed.
Print Assumptions only_creation_adds_a_licence.

(** Clause 3.  Along any history an address is activated at most once ... *)
Theorem activation_once_by_licensee : forall (ops : list op) (s0 : state) (a : addr),
  inv_struct s0 -> (List.length (filter (activation_of a) (trace s0 ops)) <= 1)%nat.
Proof. exact activation_at_most_once_thm. Qed.
Print Assumptions activation_once_by_licensee.

(** ... and a licence stays exactly as it is under every operation except the registration
    message created by its own address string: nobody else can activate, spend or alter it. *)
Theorem licence_untouched_by_others : forall (s : state) (o : op) (k : key) (l : licence),
  acct s escrow = Some Module ->
  lic_get (lics s) k = Some l -> o <> Register k -> lic_get (lics (fst (step s o))) k = Some l.
Proof. exact licence_persists. Qed.
Print Assumptions licence_untouched_by_others.

(** Clause 4.  A successful activation by [who] uses the licence stored for [who]: exactly its
    amount moves from the module account to that address, no other balance and no other account
    changes, the address becomes a continuous vesting account whose original vesting is the licensed
    amount, starting at the block time and ending [months] calendar months later, and the licence
    is gone. *)
Theorem activation_moves_exact_amount : forall (s s' : state) (who : key),
  acct s escrow = Some Module -> step s (Register who) = (s', Ok) ->
  exists l, lic_get (lics s) who = Some l /\
    fst who <> escrow /\ acct s (fst who) = Some Base /\
    acct s' (fst who) = Some (Vesting (now s) (add_months (now s) (l_months l)) (l_amount l) (l_denom l)) /\
    bal s' (fst who) (l_denom l) = bal s (fst who) (l_denom l) + l_amount l /\
    bal s' escrow (l_denom l) = bal s escrow (l_denom l) - l_amount l /\
    (forall a d, (a <> fst who /\ a <> escrow) \/ d <> l_denom l -> bal s' a d = bal s a d) /\
    (forall a, a <> fst who -> acct s' a = acct s a) /\
    lic_get (lics s') who = None /\
    (forall k, k <> who -> lic_get (lics s') k = lic_get (lics s) k) /\
    0 < l_amount l.
Proof. exact activation_moves_exact_amount_thm. Qed.
Print Assumptions activation_moves_exact_amount.

(** Clause 4b.  What the bank keeps locked on such an account at block time t is
    original − vested(t), where [vested] is the SDK's continuous-vesting formula with its decimal
    rounding: nothing up to the start, everything from the end on, in between within [0, original],
    never decreasing ... *)
Theorem vesting_schedule : forall (st en orig : Z), 0 <= orig ->
  (forall t, t <= st -> vested st en orig t = 0) /\
  (forall t, st < t -> en <= t -> vested st en orig t = orig) /\
  (forall t, 0 <= vested st en orig t <= orig) /\
  (forall t t', t <= t' -> vested st en orig t <= vested st en orig t').
Proof. exact vesting_schedule_thm. Qed.
Print Assumptions vesting_schedule.

Theorem locked_is_original_minus_vested : forall (s : state) (a : addr) (st en orig : Z) (d : denom),
  acct s a = Some (Vesting st en orig d) -> locked s a d = orig - vested st en orig (now s).
Proof. exact locked_vesting. Qed.
Print Assumptions locked_is_original_minus_vested.

(** ... and linear: |vested·(end−start) − original·(t−start)| ≤ (end−start)·(1/2 + (1 + original)/(2·10^18)
    + original/10^36), i.e. the exact linear share up to half a unit for any realistic amount. *)
Theorem vesting_is_linear : forall (st en orig t : Z), 0 <= orig -> st < t -> t < en ->
  2 * 1000000000000000000 * 1000000000000000000 * Z.abs (vested st en orig t * (en - st) - orig * (t - st))
    <= (en - st) * (2 * orig + orig * 1000000000000000000 + 1000000000000000000
                    + 1000000000000000000 * 1000000000000000000).
Proof. exact vesting_linear_thm. Qed.
Print Assumptions vesting_is_linear.

(** Clause 5.  A reported sale either fails and changes nothing at all (whatever the point of
    failure: unknown chain, wrong contract, no fee granter, no funder, no funder rich enough,
    client already known, funder's coins locked, duplicate grant, hostile amount), or succeeds, and
    then the sale contract of that chain is the reporting contract, a fee granter and a funder with
    enough spendable balance were configured, the client had neither account nor licence, and exactly
    one licence (amount × 10^6 of the bond denom, 24 months) and one fee grant were added, paid by
    that funder into the module account. *)
Theorem sale_all_or_nothing : forall (s : state) (chain contract : Z) (client : key) (amount : Z),
  let r := step s (Sale chain contract client amount) in
  (snd r <> Ok -> fst r = s) /\
  (acct s escrow = Some Module -> snd r = Ok ->
     contracts s chain = Some contract /\
     0 < amount /\
     exists g fs f, feegranter s = Some g /\ funders s = Some fs /\ In f fs /\
       amount * Gen.C18.sale_multiplier <= bal s f bond - locked s f bond /\
       acct s (fst client) = None /\ lic_get (lics s) client = None /\
       lics (fst r) = (client, {| l_denom := bond; l_amount := amount * Gen.C18.sale_multiplier;
                                  l_months := Gen.C18.sale_vesting_months |}) :: lics s /\
       grants s g (fst client) = false /\ grants (fst r) g (fst client) = true /\
       acct (fst r) = upd1 (acct s) (fst client) (Some Base) /\
       bal (fst r) = sent_bal s f escrow bond (amount * Gen.C18.sale_multiplier)).
Proof. exact sale_all_or_nothing_thm. Qed.
Print Assumptions sale_all_or_nothing.

(** Every refused operation of any kind leaves the state exactly as it was. *)
Theorem refused_operation_changes_nothing : forall (s : state) (o : op),
  snd (step s o) <> Ok -> fst (step s o) = s.
Proof. exact failed_op_is_noop. Qed.
Print Assumptions refused_operation_changes_nothing.

(** ======================= second round =======================
    Reading aid.  [add_months t k] is Go's [time.Unix(t,0).UTC().AddDate(0,k,0).Unix()].
    [xstep] extends [step]: [XOp o] is [o]; [XFault n kd o] is [o] with the n-th call the keeper
    makes through its AccountKeeper / BankKeeper / FeegrantKeeper interfaces failing (kd = FErr: an
    error where the method can return one, FPanic: a panic); [XSetLegacy n kd] is
    MsgSetLegacyLightNodeClients; [XGenesis] is ExportGenesis + InitGenesis on a wiped x/paloma store.
    [create_licence_f] / [activate_f] / [sale_licence_f] are the RAW keeper functions (no message
    or attestation wrapper) with the fault; [fstep] is the operation as the chain runs it.
    [xinv s] = [inv s] and "funders is not the empty list" (an empty list is stored as absent).
    [inv_sched s]: block time >= 0, licences have months >= 0, vesting accounts have 0 <= start <= end;
    true of [init t0 b] for t0 >= 0.  [xop_typed]: VestingMonths of a message is a uint32.
    [try_sale] is attestationTally/TryAttestation/processAttestation around the sale handler inside
    skyway's EndBlocker, once the votes suffice; [oracle] = (last observed nonce per chain, observed set). *)

(** The calendar.  k calendar months after any instant lie between 28*k and 31*k days later, at the
    same time of day — for every instant and every k >= 0 (Gregorian leap rules, Go's overflow of
    the day of the month into the next month included).  So start <= end needs no side condition. *)
Theorem calendar_months_forward : forall (t k : Z), 0 <= k ->
  t + 28 * 86400 * k <= add_months t k <= t + 31 * 86400 * k /\ add_months t k mod 86400 = t mod 86400.
Proof. exact (fun t k H => conj (add_months_forward t k H) (add_months_clock t k)). Qed.
Print Assumptions calendar_months_forward.

Theorem calendar_round_trip : forall (z : Z),
  let '(y, m, d) := civil_from_days z in days_from_civil y m d = z.
Proof. exact civil_round_trip. Qed.
Print Assumptions calendar_round_trip.

(** Clause 4, the period: a successful activation sets the end of vesting [months] calendar months
    after the block time, i.e. 28..31 days per month later, same time of day. *)
Theorem activation_period : forall (s s' : state) (who : key),
  acct s escrow = Some Module -> step s (Register who) = (s', Ok) ->
  exists l en, lic_get (lics s) who = Some l /\
    acct s' (fst who) = Some (Vesting (now s) en (l_amount l) (l_denom l)) /\
    en = add_months (now s) (l_months l) /\ en mod 86400 = now s mod 86400 /\
    (0 <= l_months l ->
       now s + 28 * 86400 * l_months l <= en <= now s + 31 * 86400 * l_months l).
Proof. exact activation_period_thm. Qed.
Print Assumptions activation_period.

(** ... in every reachable state (faults, legacy imports, genesis round trips included) every
    vesting account has 0 <= start <= end, and the "end time cannot be negative" refusal of
    BaseVestingAccount.Validate never happens. *)
Theorem vesting_schedules_forward : forall (s0 : state) (xs : list xop),
  inv_struct s0 -> funders s0 <> Some [] -> inv_sched s0 -> Forall xop_typed xs ->
  let s := xrun s0 xs in
  forall a st en o d, acct s a = Some (Vesting st en o d) -> 0 <= st <= en.
Proof. exact vesting_schedules_forward_thm. Qed.
Print Assumptions vesting_schedules_forward.

Theorem vesting_error_unreachable : forall (s : state) (who : key),
  inv_struct s -> inv_sched s -> snd (step s (Register who)) <> Err EVesting.
Proof. exact vesting_error_unreachable_thm. Qed.
Print Assumptions vesting_error_unreachable.

(** Collaborator faults, transaction level.  Whichever call fails and however (error or panic):
    the operation either ran exactly as without the fault (the call was not reached) or was refused
    and changed nothing; a fault index <= 0 is no fault. *)
Theorem faulted_operation_all_or_nothing : forall (kd : fkind) (n : Z) (s : state) (o : op),
  (fstep kd n s o = step s o \/ (fst (fstep kd n s o) = s /\ snd (fstep kd n s o) <> Ok)) /\
  (n <= 0 -> fstep kd n s o = step s o).
Proof. exact (fun kd n s o => conj (fstep_dichotomy kd n s o) (fstep_nofault kd n s o)). Qed.
Print Assumptions faulted_operation_all_or_nothing.

Theorem refused_extended_operation_changes_nothing : forall (s : state) (x : xop),
  snd (xstep s x) <> Ok -> fst (xstep s x) = s.
Proof. exact xstep_refused_noop. Qed.
Print Assumptions refused_extended_operation_changes_nothing.

(** Collaborator faults, raw keeper level: what the three functions leave behind on the branch they
    ran on when they fail — exactly.  Licence creation: nothing, or the new base account and nothing
    else, the latter precisely when all guards passed and the payment failed (by itself or injected). *)
Theorem raw_creation_leftovers : forall (kd : fkind) (n : Z) (cr cl : key) (d : denom) (amt m : Z) (s : state),
  let r := fst (create_licence_f kd n cr cl d amt m s) in
  snd r <> Ok ->
  (fst r = s /\ (snd r = Panic \/ snd r = Err EInvalidAddr \/ snd r = Err EInvalidParams \/
                 snd r = Err ELicenseExists \/ snd r = Err EAccountExists)) \/
  (fst r = base_added s (fst cl) /\ fst r <> s /\
   acct s (fst cl) = None /\ lic_get (lics s) cl = None /\ str_valid cr = true /\ str_valid cl = true /\
   (snd r = injected kd \/
    exists e, snd r = Err e /\ send (base_added s (fst cl)) (fst cr) escrow d amt = inr e)).
Proof. exact create_leftovers. Qed.
Print Assumptions raw_creation_leftovers.

(** Activation: nothing, or the account already turned into the vesting account without the coins. *)
Theorem raw_activation_leftovers : forall (kd : fkind) (n : Z) (who : key) (s : state),
  let r := fst (activate_f kd n who s) in
  snd r <> Ok ->
  fst r = s \/
  (exists l, lic_get (lics s) who = Some l /\ acct s (fst who) = Some Base /\
     fst r = vesting_set s (fst who) l /\
     (snd r = injected kd \/ (snd r = Err EUnauthorized /\ fst who = escrow) \/
      exists e, snd r = Err e /\ send (vesting_set s (fst who) l) escrow (fst who) (l_denom l) (l_amount l) = inr e)).
Proof. exact activate_leftovers. Qed.
Print Assumptions raw_activation_leftovers.

(** Sale: nothing, the bare base account, or the complete paid licence without its fee grant. *)
Theorem raw_sale_leftovers : forall (kd : fkind) (n : Z) (client : key) (amount : Z) (s : state),
  let r := fst (sale_licence_f kd n client amount s) in
  snd r <> Ok ->
  fst r = s \/ fst r = base_added s (fst client) \/
  (exists f, create_licence_raw (f, false) client bond (amount * Gen.C18.sale_multiplier)
                                Gen.C18.sale_vesting_months s = (fst r, Ok)).
Proof. exact sale_leftovers. Qed.
Print Assumptions raw_sale_leftovers.

(** Clauses 1-3 over histories that contain faults at any call of any operation, legacy-client
    imports and genesis round trips. *)
Theorem escrow_covers_licences_under_faults : forall (s0 : state) (xs : list xop),
  xinv s0 -> Forall xop_wf xs ->
  let s := xrun s0 xs in
  (forall d, bal s escrow d = lic_sum d (lics s) + gifts s d /\
             lic_sum d (lics s) <= bal s escrow d /\
             gifts s0 d <= gifts s d /\
             (gifts s d = 0 -> bal s escrow d = lic_sum d (lics s))) /\
  NoDup (lic_ids (lics s)) /\
  (forall k l, In (k, l) (lics s) -> acct s (fst k) = Some Base /\ 0 < l_amount l).
Proof. exact escrow_under_faults_thm. Qed.
Print Assumptions escrow_covers_licences_under_faults.

Theorem activation_once_under_faults : forall (xs : list xop) (s0 : state) (a : addr),
  inv_struct s0 -> funders s0 <> Some [] ->
  (List.length (filter (xactivation_of a) (xtrace s0 xs)) <= 1)%nat.
Proof. exact activation_once_x_thm. Qed.
Print Assumptions activation_once_under_faults.

Theorem licence_untouched_by_other_extended_operations : forall (s : state) (x : xop) (k : key) (l : licence),
  inv_struct s -> funders s <> Some [] ->
  lic_get (lics s) k = Some l -> xop_base x <> Some (Register k) ->
  lic_get (lics (fst (xstep s x))) k = Some l.
Proof. exact licence_persists_x. Qed.
Print Assumptions licence_untouched_by_other_extended_operations.

(** MsgSetLegacyLightNodeClients touches client records only: it changes nothing, or adds records
    (never alters one) dated now for grantees of the fee granter without record and without licence. *)
Theorem legacy_import_effect : forall (n : Z) (kd : fkind) (s : state),
  let r := xstep s (XSetLegacy n kd) in
  ((fst r = s /\ (snd r <> Ok \/ feegranter s = None)) \/
   (snd r = Ok /\ exists g, feegranter s = Some g /\ fst r = set_clients s (legacy_clients s g))) /\
  (forall g k c, clients s k = Some c -> legacy_clients s g k = Some c) /\
  (forall g k c, clients s k = None -> legacy_clients s g k = Some c ->
     c = (now s, now s) /\ snd k = false /\ str_valid k = true /\ grants s g (fst k) = true /\
     lic_get (lics s) k = None).
Proof. exact (fun n kd s => conj (set_legacy_effect n kd s) (conj (legacy_keeps s) (legacy_new s))). Qed.
Print Assumptions legacy_import_effect.

(** Genesis: exporting and importing gives back the same state; in a hand-written file the last
    entry per address string wins (nothing else is checked: Example ex_unchecked_genesis). *)
Theorem genesis_export_import_identity : forall (s : state),
  NoDup (lic_ids (lics s)) -> funders s <> Some [] -> init_genesis (export_genesis s) s = s.
Proof. exact genesis_round_trip. Qed.
Print Assumptions genesis_export_import_identity.

Theorem genesis_last_entry_wins : forall (l : list (key * licence)) (k : key),
  lic_get (import_lics l) k = lic_get (rev l) k.
Proof. exact import_get. Qed.
Print Assumptions genesis_last_entry_wins.

(** The sale inside the attestation machinery.  Once the votes suffice, the attestation is marked
    observed and the nonce cursor moved BEFORE the handler runs, on the end blocker's own context;
    the handler's writes live on a cache context.  Whatever the handler does (success, error,
    panic) the effect on licences / accounts / coins / grants is exactly the [Sale] step ... *)
Theorem attested_sale_effect : forall (chain nonce contract : Z) (client : key) (amount : Z) (o : oracle) (s : state),
  nonce = o_last o chain + 1 ->
  snd (fst (try_sale chain nonce contract client amount (o, s))) = fst (step s (Sale chain contract client amount)) /\
  fst (fst (try_sale chain nonce contract client amount (o, s))) = oracle_advance o chain nonce.
Proof. exact (fun c n ct cl a o s H => conj (try_sale_core c n ct cl a o s H) (try_sale_cursor c n ct cl a o s H)). Qed.
Print Assumptions attested_sale_effect.

(** ... a claim from the authorised contract with a negative amount or one >= 2^256/10^6 makes the
    handler panic: recovered by the end blocker, nothing of the handler written, the event consumed ... *)
Theorem attested_sale_hostile_amount : forall (chain nonce contract : Z) (client : key) (amount : Z) (o : oracle) (s : state),
  nonce = o_last o chain + 1 -> contracts s chain = Some contract ->
  amount < 0 \/ two256 <= amount * Gen.C18.sale_multiplier ->
  try_sale chain nonce contract client amount (o, s) = ((oracle_advance o chain nonce, s), Panic).
Proof. exact try_sale_hostile_amount. Qed.
Print Assumptions attested_sale_hostile_amount.

(** ... and no event is handled twice. *)
Theorem attested_sale_not_repeated : forall (chain nonce contract : Z) (client : key) (amount : Z)
    (contract' : Z) (client' : key) (amount' : Z) (a : oracle * state),
  let a1 := fst (try_sale chain nonce contract client amount a) in
  nonce = o_last (fst a) chain + 1 ->
  try_sale chain nonce contract' client' amount' a1 = (a1, Err ENotFound).
Proof. exact try_sale_not_repeated. Qed.
Print Assumptions attested_sale_not_repeated.

(** Clause 5, the authorisation over time.  A governance decision replaces the whole table of sale
    contracts (last entry per chain wins); a chain that is not in the new list is not authorised,
    stays so through every history without another governance decision (faults, legacy imports and
    genesis round trips included), and every sale reported from it — also with the contract that used
    to be authorised — changes nothing. *)
Theorem dropped_chain_stays_unauthorised : forall (s0 : state) (l : list (Z * Z)) (xs : list xop) (c : Z),
  inv_struct s0 -> funders s0 <> Some [] -> ~ In c (map fst l) -> Forall not_set_contracts xs ->
  let s := xrun (fst (step s0 (SetContracts l))) xs in
  contracts s c = None /\
  forall contract client amount,
    step s (Sale c contract client amount) = (s, Err ENoContract).
Proof. exact dropped_chain_stays_unauthorised_thm. Qed.
Print Assumptions dropped_chain_stays_unauthorised.

Theorem set_contracts_table : forall (s : state) (l : list (Z * Z)) (c : Z),
  contracts (fst (step s (SetContracts l))) c = assoc (rev l) c.
Proof. exact set_contracts_table_thm. Qed.
Print Assumptions set_contracts_table.

(** Observation made precise: a sale for an address that already has an account is refused (clause 2
    demands it) and changes nothing; one unit sent to the address beforehand is enough (Example
    ex_dust_griefing; the attestation is consumed all the same: attested_sale_effect). *)
Theorem sale_refused_once_account_exists : forall (s : state) (chain contract : Z) (client : key) (amount : Z),
  acct s escrow = Some Module -> acct s (fst client) <> None ->
  snd (step s (Sale chain contract client amount)) <> Ok /\ fst (step s (Sale chain contract client amount)) = s.
Proof. exact sale_refused_once_account_exists_thm. Qed.
Print Assumptions sale_refused_once_account_exists.

(** A premise that is needed.  [op_wf] (premise of escrow_covers_licences) asks, among others,
    that governance does not configure the module account itself as a funder; the code does not
    refuse that, and then the escrow stops covering the licences: *)
Theorem funder_premise_is_needed_refuted :
  inv ex_s0 /\
  (forall o, In o ex_escrow_funder_ops -> op_wf o \/ o = SetFunders [escrow]) /\
  let s := run ex_s0 ex_escrow_funder_ops in
  map snd (trace ex_s0 ex_escrow_funder_ops) = [Ok; Ok; Ok; Ok; Ok] /\
  bal s escrow bond = 20000000 /\ lic_sum bond (lics s) = 27000000 /\ gifts s bond = 0 /\
  let s' := run s [Register (3, false)] in
  bal s' escrow bond = 0 /\ snd (step s' (Register (4, false))) = Err EInsufficientFunds.
Proof. exact funder_premise_refuted. Qed.
Print Assumptions funder_premise_is_needed_refuted.

(** Second-round source facts: the collaborator calls the fault model numbers are the calls the
    three keeper functions make through their interfaces, in this order (and the model makes as many:
    the counters below are the model's, on successful runs); the funder loop has no early exit (the
    LAST rich funder pays, whatever the comment says); what the legacy import and the genesis
    functions call (nothing that moves coins or accounts; InitGenesis stores each licence under its
    own ClientAddress; Validate checks Params only); TryAttestation writes the block height, the nonce
    cursor and the observed flag before processAttestation, is called from attestationTally only,
    which runs inside skyway's EndBlocker under a deferred recover; SetAllLighNodeSaleContracts walks
    the whole table deleting every entry (the callback returns true = go on; IterAllFnc stops on
    false) and then saves the new entries. *)
Theorem model_is_of_current_source_round2 :
  Gen.C18.create_collab_calls = ["accountKeeper.AddressCodec"; "accountKeeper.HasAccount"; "accountKeeper.NewAccount";
                                 "accountKeeper.SetAccount"; "bankKeeper.SendCoinsFromAccountToModule"]%string /\
  Gen.C18.activate_collab_calls = ["accountKeeper.AddressCodec"; "accountKeeper.GetAccount"; "accountKeeper.SetAccount";
                                   "bankKeeper.SendCoinsFromModuleToAccount"]%string /\
  Gen.C18.sale_collab_calls = ["bankKeeper.HasBalance"; "k.CreateLightNodeClientLicense"; "accountKeeper.AddressCodec";
                               "feegrantKeeper.GrantAllowance"]%string /\
  snd (create_licence_f FErr 0 (1, false) (6, false) 0 10 1 ex_s0) = - Z.of_nat (List.length Gen.C18.create_collab_calls) /\
  snd (activate_f FErr 0 (3, false) (run ex_s0 (firstn 4 ex_ops))) = - Z.of_nat (List.length Gen.C18.activate_collab_calls) /\
  snd (sale_licence_f FErr 0 (4, true) 7 (run ex_s0 (firstn 4 ex_ops)))
    = - (1 + Z.of_nat (List.length Gen.C18.create_collab_calls) + (Z.of_nat (List.length Gen.C18.sale_collab_calls) - 2)) /\
  Gen.C18.funder_loop_exits_early = false /\
  Gen.C18.funder_loop_body = "{ if k.bankKeeper.HasBalance(ctx, funders.Accounts[i], coin) { funder = funders.Accounts[i] } }"%string /\
  Gen.C18.legacy_calls = ["LightNodeClientFeegranter"; "AllLightNodeClientLicenses"; "AllowancesByGranter"; "GetLightNodeClient"]%string /\
  Gen.C18.set_legacy_calls = ["GetLegacyLightNodeClients"; "SetLightNodeClient"]%string /\
  Gen.C18.legacy_licence_test = "license.ClientAddress == grant.Grantee"%string /\
  Gen.C18.init_genesis_calls = ["SetParams"; "SetLightNodeClientLicense"; "SetLightNodeClientFeegranter";
                                "SetLightNodeClientFunders"; "SetLightNodeClient"]%string /\
  Gen.C18.export_genesis_calls = ["GetParams"; "AllLightNodeClientLicenses"; "LightNodeClientFeegranter";
                                  "LightNodeClientFunders"; "AllLightNodeClients"]%string /\
  Gen.C18.init_genesis_licence_args = "license.ClientAddress | license"%string /\
  Gen.C18.genesis_validate_body = "{ return gs.Params.Validate() }"%string /\
  Gen.C18.try_attestation_calls = ["SetLastObservedEthereumBlockHeight"; "setLastObservedSkywayNonce"; "SetAttestation";
                                   "processAttestation"; "emitObservedEvent"]%string /\
  Gen.C18.try_attestation_callers = ["attestationTally"]%string /\
  Gen.C18.endblocker_defers_recover = true /\
  Gen.C18.endblocker_calls = ["createBatch"; "attestationTally"; "pruneAttestations"]%string /\
  Gen.C18.set_contracts_calls = ["IterAllFnc"; "Delete"; "Save"]%string /\
  Gen.C18.set_contracts_wipe_callback = "{ st.Delete(key) return true }"%string /\
  Gen.C18.iter_all_fnc_stop_test = "if !fnc(iterator.Key(), val) { return nil }"%string.
Proof. exact source_round2. Qed.
Print Assumptions model_is_of_current_source_round2.

(** Rounds 3-4.  Every pending licence is seen by every reader of the store: the export lists all
    of them, a restart from the export keeps each one unchanged (so it can still be activated and
    the escrow equation is the same) ... *)
Theorem export_lists_every_licence : forall (s : state) (k : key) (l : licence),
  lic_get (lics s) k = Some l -> In (k, l) (g_lics (export_genesis s)).
Proof. exact export_lists_every_licence_thm. Qed.
Print Assumptions export_lists_every_licence.

Theorem restart_keeps_every_licence : forall (s : state) (k : key),
  NoDup (lic_ids (lics s)) ->
  lic_get (lics (init_genesis (export_genesis s) s)) k = lic_get (lics s) k /\
  List.length (lics (init_genesis (export_genesis s) s)) = List.length (lics s).
Proof. exact restart_keeps_every_licence_thm. Qed.
Print Assumptions restart_keeps_every_licence.

(** ... and in the source: the licence store is read through IterAll (one unbounded loop over the
    whole prefix, no break) by AllLightNodeClientLicenses only, whose callers are the genesis
    export, the licences query and the legacy import; the only page request in x/paloma is the one
    the legacy import passes to x/feegrant.  Round 5: the signature-authorisation decorator keeps nothing
    from one message to the next: all it decides with is declared inside its loop over the messages.
    Round 6: flattenMsgs is the recursive walk that refuses (returns an error for) a transaction nested
    deeper than maxNestedMsgDepth = 6 (recognised by C03's translator; any other shape stops the check). *)
Theorem model_is_of_current_source_round3 :
  Gen.C18.licence_store_users = ["AllLightNodeClientLicenses:IterAll"; "CreateLightNodeClientAccount:Delete";
                                 "GetLightNodeClientLicense:Load"; "SetLightNodeClientLicense:Save"]%string /\
  Gen.C18.licence_list_callers = ["ExportGenesis"; "GetLegacyLightNodeClients"; "GetLightNodeClientLicenses"]%string /\
  Gen.C18.paloma_pagination_sites = ["GetLegacyLightNodeClients:PageRequest"]%string /\
  Gen.C18.iterall_loops = []%string /\ Gen.C18.iterall_breaks = 0 /\ Gen.C18.iterall_calls = ["IterAllFnc"]%string /\
  Gen.C18.iterallfnc_loops = ["for ; iterator.Valid(); iterator.Next()"]%string /\
  Gen.C18.iterallfnc_breaks = 0 /\ Gen.C18.iterallfnc_calls = ["Iterator"]%string /\
  Gen.C18.ante_declared_before_loop = ["msgs"; "err"]%string /\
  Gen.C18.ante_declared_per_message = ["m"; "ok"; "creator"; "signers"; "signedByCreator"; "grants"; "err";
                                       "grantsLkUp"; "grantees"; "v"; "found"]%string /\
  Gen.C18.max_nested_depth = 6.
Proof. exact source_round3. Qed.
Print Assumptions model_is_of_current_source_round3.

(** Round 5.  Transactions.  [deliver_tx s ms] is a whole transaction: the signature-authorisation
    decorator of x/paloma/ante.go on the state before the transaction (EVERY message with metadata
    needs its creator among its signers, or a signer holding a fee allowance from the creator), then the
    messages in order on a branch written back only if all succeed.  [tm_signers m]: the signatures the
    transaction carries for message m (SDK signature verification, trusted); [tm_nest m]: the number of
    authz.MsgExec (grantee = that signer) the message is wrapped in — nested messages are checked like
    top-level ones, nesting beyond maxNestedMsgDepth refuses the whole transaction.  [hop] = extended
    operation or transaction.  A transaction changes nothing, or is its plain operations run in order
    with every message authorised ... *)
Theorem transaction_all_or_nothing : forall (s : state) (ms : list tmsg),
  (fst (deliver_tx s ms) = s /\ snd (deliver_tx s ms) <> Ok) \/
  (snd (deliver_tx s ms) = Ok /\ fst (deliver_tx s ms) = run s (tx_ops ms) /\
   forall m, In m ms -> authorised s m = Ok /\ tm_nest m <= Gen.C18.max_nested_depth).
Proof. exact deliver_tx_cases. Qed.
Print Assumptions transaction_all_or_nothing.

(** ... so "activated only by the licensee" holds at transaction level: whatever else a
    transaction contains and whoever signed the rest, an activation of [who]'s licence in it carries
    the signature of [who] or of an address [who] granted a fee allowance to. *)
Theorem activation_only_by_licensee_tx : forall (s : state) (ms : list tmsg) (m : tmsg) (who : key),
  snd (deliver_tx s ms) = Ok -> In m ms -> tm_body m = TOp (Register who) ->
  (snd who = false /\ In (fst who) (tm_signers m)) \/
  (exists x, In x (tm_signers m) /\ grants s (fst who) x = true).
Proof. exact activation_only_by_licensee_tx_thm. Qed.
Print Assumptions activation_only_by_licensee_tx.

Theorem escrow_covers_licences_over_transactions : forall (s0 : state) (hs : list hop),
  xinv s0 -> Forall hop_wf hs ->
  let s := hrun s0 hs in
  (forall d, bal s escrow d = lic_sum d (lics s) + gifts s d /\ lic_sum d (lics s) <= bal s escrow d) /\
  NoDup (lic_ids (lics s)) /\
  (forall k l, In (k, l) (lics s) -> acct s (fst k) = Some Base /\ 0 < l_amount l).
Proof. exact escrow_over_transactions_thm. Qed.
Print Assumptions escrow_covers_licences_over_transactions.

(** The model is the model of the source as it is now: constants, the order of the effect-bearing
    calls in the three keeper functions and in the sale handler, the expressions that fix the
    vesting schedule and who is activated, the commit discipline of processAttestation, and the
    fact that x/paloma spends from its module account in one place only.  Any edit of these makes
    this fail until the model has been looked at again. *)
Theorem model_is_of_current_source :
  Gen.C18.sale_multiplier = 1000000 /\ Gen.C18.sale_vesting_months = 24 /\
  Gen.C18.sale_create_args = "ctx | funder.String() | clientAddr | coin | lightNodeSaleVestingMonths"%string /\
  Gen.C18.create_calls = ["GetLightNodeClientLicense"; "HasAccount"; "SetAccount"; "SendCoinsFromAccountToModule";
                          "SetLightNodeClientLicense"]%string /\
  Gen.C18.activate_calls = ["GetLightNodeClientLicense"; "GetAccount"; "SetAccount"; "SendCoinsFromModuleToAccount";
                            "Delete"; "SetLightNodeClient"]%string /\
  Gen.C18.sale_calls = ["LightNodeClientFeegranter"; "LightNodeClientFunders"; "HasBalance";
                        "CreateLightNodeClientLicense"; "GrantAllowance"]%string /\
  Gen.C18.handle_sale_calls = ["LightNodeSaleContract"; "CreateSaleLightNodeClientLicense"]%string /\
  Gen.C18.handle_sale_contract_test = "contract.ContractAddress != claim.SmartContractAddress"%string /\
  Gen.C18.vesting_end_expr = "beginTime.AddDate(0, int(license.VestingMonths), 0)"%string /\
  Gen.C18.vesting_start_expr = "beginTime.Unix()"%string /\
  Gen.C18.vesting_base_args = "amount | endTime.Unix()"%string /\
  Gen.C18.vesting_amount_def = "sdk.Coins{license.Amount}"%string /\
  Gen.C18.vesting_begin_def = "sdkCtx.BlockTime()"%string /\
  Gen.C18.register_who = "msg.Metadata.Creator"%string /\
  Gen.C18.module_spend_sites = ["CreateLightNodeClientAccount:SendCoinsFromModuleToAccount"]%string /\
  Gen.C18.attestation_uses_cache_context = true /\ Gen.C18.attestation_commit_only_on_success = true.
Proof. exact (conj eq_refl (conj eq_refl (conj eq_refl (conj eq_refl (conj eq_refl (conj eq_refl (conj eq_refl
  (conj eq_refl (conj eq_refl (conj eq_refl (conj eq_refl (conj eq_refl (conj eq_refl (conj eq_refl (conj eq_refl
  (conj eq_refl eq_refl)))))))))))))))). Qed.
Print Assumptions model_is_of_current_source.
