(** C18 — light-node licence funds: escrowed 1:1, released once, vesting, to the licensee.
    Only statements closed by [exact]; the proofs are in Paloma/LightNodeProofs.v.

    Reading aid.  [step s o] is one operation on the model state of Paloma/LightNode.v and returns
    the new state and the outcome; [run s0 ops] folds [step] over a history, [trace] lists the
    outcomes.  Operations: [AddLicence creator client denom amount months] (MsgAddLightNodeClientLicense),
    [Register who] (MsgRegisterLightNodeClient signed by [who]), [Auth], [Sale chain contract client
    amount] (an observed MsgLightNodeSaleClaim handled inside processAttestation's cache context),
    [Send] (any bank transfer; to [escrow] it is a gift), [Grant] (any fee grant), the governance
    setters and [Tick].  An address STRING is [(id, upper)], the address BYTES are [id]: the licence
    and client stores are keyed by the string, accounts and balances by the bytes.  [escrow] is the
    x/paloma module account.  [inv_struct]: the module account exists, every stored licence is for a
    plain base account, has a positive amount, and no two licences are for the same address.
    [inv]: [inv_struct] and the escrow equation; both hold in [init t0 b] (no licences, any
    balances) — Example [ex_inv] — and are preserved by every operation.  [op_wf]: the module account
    is never a message creator / bank sender / configured funder (it has no key). *)
From Coq Require Import List ZArith Bool String.
From Paloma Require Import Base.Dec Paloma.LightNode Paloma.LightNodeProofs.
From Paloma Require Gen.C18.
Import ListNotations.
Open Scope Z_scope.

(** Clause 1.  After any history the module account holds, per denom, exactly the sum of the
    not-yet-activated licences plus what was given to it from outside; so it always covers the
    licences, and equals them when there were no gifts. *)
Theorem escrow_covers_licences : forall (s0 : state) (ops : list op),
  inv s0 -> Forall op_wf ops ->
  let s := run s0 ops in
  forall d, bal s escrow d = lic_sum d (lics s) + gifts s d /\
            lic_sum d (lics s) <= bal s escrow d /\
            gifts s0 d <= gifts s d /\
            (gifts s d = 0 -> bal s escrow d = lic_sum d (lics s)).
Proof. exact escrow_covers_licences_thm. Qed.
Print Assumptions escrow_covers_licences.

(** Clause 2.  A licence (by message or by sale) is created only for an address that has no
    account and no licence under either spelling; the step gives it a base account and exactly
    one licence with a positive amount, and touches no other account. *)
Theorem licence_creation_guard : forall (s s' : state) (o : op) (client : key),
  inv_struct s -> creates o client -> step s o = (s', Ok) ->
  acct s (fst client) = None /\
  (forall up, lic_get (lics s) (fst client, up) = None) /\
  (exists l, lics s' = (client, l) :: lics s /\ 0 < l_amount l) /\
  acct s' (fst client) = Some Base /\
  (forall a, a <> fst client -> acct s' a = acct s a).
Proof. exact licence_creation_guard_thm. Qed.
Print Assumptions licence_creation_guard.

(** ... and in every reachable state there is at most one licence per address, each on a plain
    base account (never on a vesting or module account). *)
Theorem licences_unique_and_on_base_accounts : forall (s0 : state) (ops : list op),
  inv_struct s0 ->
  let s := run s0 ops in
  NoDup (lic_ids (lics s)) /\
  forall k l, In (k, l) (lics s) -> acct s (fst k) = Some Base /\ 0 < l_amount l.
Proof. exact licences_unique_on_base_accounts. Qed.
Print Assumptions licences_unique_and_on_base_accounts.

(** ... and nothing but the two creation operations ever adds a licence. *)
Theorem only_creation_adds_a_licence : forall (s : state) (o : op),
  acct s escrow = Some Module -> (forall client, ~ creates o client) ->
  incl (lics (fst (step s o))) (lics s).
Proof. exact only_creation_adds_licences. Qed.
Print Assumptions only_creation_adds_a_licence.

(** Clause 3.  Along any history an address is activated at most once ... *)
Theorem activation_once_by_licensee : forall (ops : list op) (s0 : state) (a : addr),
  inv_struct s0 -> (List.length (filter (activation_of a) (trace s0 ops)) <= 1)%nat.
Proof. exact activation_at_most_once_thm. Qed.
Print Assumptions activation_once_by_licensee.

(** ... and a licence stays exactly as it is under every operation except the registration
    message created by its own address string: nobody else can activate, spend or alter it. *)
Theorem licence_untouched_by_others : forall (s : state) (o : op) (k : key) (l : licence),
  acct s escrow = Some Module ->
  lic_get (lics s) k = Some l -> o <> Register k -> lic_get (lics (fst (step s o))) k = Some l.
Proof. exact licence_persists. Qed.
Print Assumptions licence_untouched_by_others.

(** Clause 4.  A successful activation by [who] uses the licence stored for [who]: exactly its
    amount moves from the module account to that address, no other balance and no other account
    changes, the address becomes a continuous vesting account whose original vesting is the licensed
    amount, starting at the block time and ending [months] calendar months later, and the licence
    is gone. *)
Theorem activation_moves_exact_amount : forall (s s' : state) (who : key),
  acct s escrow = Some Module -> step s (Register who) = (s', Ok) ->
  exists l, lic_get (lics s) who = Some l /\
    fst who <> escrow /\ acct s (fst who) = Some Base /\
    acct s' (fst who) = Some (Vesting (now s) (add_months (now s) (l_months l)) (l_amount l) (l_denom l)) /\
    bal s' (fst who) (l_denom l) = bal s (fst who) (l_denom l) + l_amount l /\
    bal s' escrow (l_denom l) = bal s escrow (l_denom l) - l_amount l /\
    (forall a d, (a <> fst who /\ a <> escrow) \/ d <> l_denom l -> bal s' a d = bal s a d) /\
    (forall a, a <> fst who -> acct s' a = acct s a) /\
    lic_get (lics s') who = None /\
    (forall k, k <> who -> lic_get (lics s') k = lic_get (lics s) k) /\
    0 < l_amount l.
Proof. exact activation_moves_exact_amount_thm. Qed.
Print Assumptions activation_moves_exact_amount.

(** Clause 4b.  What the bank keeps locked on such an account at block time t is
    original − vested(t), where [vested] is the SDK's continuous-vesting formula with its decimal
    rounding: nothing up to the start, everything from the end on, in between within [0, original],
    never decreasing ... *)
Theorem vesting_schedule : forall (st en orig : Z), 0 <= orig ->
  (forall t, t <= st -> vested st en orig t = 0) /\
  (forall t, st < t -> en <= t -> vested st en orig t = orig) /\
  (forall t, 0 <= vested st en orig t <= orig) /\
  (forall t t', t <= t' -> vested st en orig t <= vested st en orig t').
Proof. exact vesting_schedule_thm. Qed.
Print Assumptions vesting_schedule.

Theorem locked_is_original_minus_vested : forall (s : state) (a : addr) (st en orig : Z) (d : denom),
  acct s a = Some (Vesting st en orig d) -> locked s a d = orig - vested st en orig (now s).
Proof. exact locked_vesting. Qed.
Print Assumptions locked_is_original_minus_vested.

(** ... and linear: |vested·(end−start) − original·(t−start)| ≤ (end−start)·(1/2 + (1 + original)/(2·10^18)
    + original/10^36), i.e. the exact linear share up to half a unit for any realistic amount. *)
Theorem vesting_is_linear : forall (st en orig t : Z), 0 <= orig -> st < t -> t < en ->
  2 * 1000000000000000000 * 1000000000000000000 * Z.abs (vested st en orig t * (en - st) - orig * (t - st))
    <= (en - st) * (2 * orig + orig * 1000000000000000000 + 1000000000000000000
                    + 1000000000000000000 * 1000000000000000000).
Proof. exact vesting_linear_thm. Qed.
Print Assumptions vesting_is_linear.

(** Clause 5.  A reported sale either fails and changes nothing at all (whatever the point of
    failure: unknown chain, wrong contract, no fee granter, no funder, no funder rich enough,
    client already known, funder's coins locked, duplicate grant, hostile amount), or succeeds, and
    then the sale contract of that chain is the reporting contract, a fee granter and a funder with
    enough spendable balance were configured, the client had neither account nor licence, and exactly
    one licence (amount × 10^6 of the bond denom, 24 months) and one fee grant were added, paid by
    that funder into the module account. *)
Theorem sale_all_or_nothing : forall (s : state) (chain contract : Z) (client : key) (amount : Z),
  let r := step s (Sale chain contract client amount) in
  (snd r <> Ok -> fst r = s) /\
  (acct s escrow = Some Module -> snd r = Ok ->
     contracts s chain = Some contract /\
     0 < amount /\
     exists g fs f, feegranter s = Some g /\ funders s = Some fs /\ In f fs /\
       amount * Gen.C18.sale_multiplier <= bal s f bond - locked s f bond /\
       acct s (fst client) = None /\ lic_get (lics s) client = None /\
       lics (fst r) = (client, {| l_denom := bond; l_amount := amount * Gen.C18.sale_multiplier;
                                  l_months := Gen.C18.sale_vesting_months |}) :: lics s /\
       grants s g (fst client) = false /\ grants (fst r) g (fst client) = true /\
       acct (fst r) = upd1 (acct s) (fst client) (Some Base) /\
       bal (fst r) = sent_bal s f escrow bond (amount * Gen.C18.sale_multiplier)).
Proof. exact sale_all_or_nothing_thm. Qed.
Print Assumptions sale_all_or_nothing.

(** Every refused operation of any kind leaves the state exactly as it was. *)
Theorem refused_operation_changes_nothing : forall (s : state) (o : op),
  snd (step s o) <> Ok -> fst (step s o) = s.
Proof. exact failed_op_is_noop. Qed.
Print Assumptions refused_operation_changes_nothing.

(** The model is the model of the source as it is now: constants, the order of the effect-bearing
    calls in the three keeper functions and in the sale handler, the expressions that fix the
    vesting schedule and who is activated, the commit discipline of processAttestation, and the
    fact that x/paloma spends from its module account in one place only.  Any edit of these makes
    this fail until the model has been looked at again. *)
Theorem model_is_of_current_source :
  Gen.C18.sale_multiplier = 1000000 /\ Gen.C18.sale_vesting_months = 24 /\
  Gen.C18.sale_create_args = "ctx | funder.String() | clientAddr | coin | lightNodeSaleVestingMonths"%string /\
  Gen.C18.create_calls = ["GetLightNodeClientLicense"; "HasAccount"; "SetAccount"; "SendCoinsFromAccountToModule";
                          "SetLightNodeClientLicense"]%string /\
  Gen.C18.activate_calls = ["GetLightNodeClientLicense"; "GetAccount"; "SetAccount"; "SendCoinsFromModuleToAccount";
                            "Delete"; "SetLightNodeClient"]%string /\
  Gen.C18.sale_calls = ["LightNodeClientFeegranter"; "LightNodeClientFunders"; "HasBalance";
                        "CreateLightNodeClientLicense"; "GrantAllowance"]%string /\
  Gen.C18.handle_sale_calls = ["LightNodeSaleContract"; "CreateSaleLightNodeClientLicense"]%string /\
  Gen.C18.handle_sale_contract_test = "contract.ContractAddress != claim.SmartContractAddress"%string /\
  Gen.C18.vesting_end_expr = "beginTime.AddDate(0, int(license.VestingMonths), 0)"%string /\
  Gen.C18.vesting_start_expr = "beginTime.Unix()"%string /\
  Gen.C18.vesting_base_args = "amount | endTime.Unix()"%string /\
  Gen.C18.vesting_amount_def = "sdk.Coins{license.Amount}"%string /\
  Gen.C18.vesting_begin_def = "sdkCtx.BlockTime()"%string /\
  Gen.C18.register_who = "msg.Metadata.Creator"%string /\
  Gen.C18.module_spend_sites = ["CreateLightNodeClientAccount:SendCoinsFromModuleToAccount"]%string /\
  Gen.C18.attestation_uses_cache_context = true /\ Gen.C18.attestation_commit_only_on_success = true.
Proof. exact (conj eq_refl (conj eq_refl (conj eq_refl (conj eq_refl (conj eq_refl (conj eq_refl (conj eq_refl
  (conj eq_refl (conj eq_refl (conj eq_refl (conj eq_refl (conj eq_refl (conj eq_refl (conj eq_refl (conj eq_refl
  (conj eq_refl eq_refl)))))))))))))))). Qed.
Print Assumptions model_is_of_current_source.
