(** C18 — light-node licence funds: escrowed 1:1, released once, vesting, to the licensee.
    Only statements closed by [exact]; the proofs are in Paloma/LightNodeProofs.v. *)
From Coq Require Import List ZArith Bool String.
From Paloma Require Import Base.Dec Paloma.LightNode Paloma.LightNodeProofs.
From Paloma Require Gen.C18.
Import ListNotations.
Open Scope Z_scope.

(** Any operation that is refused — for whatever reason, at whatever point of its execution,
    including the sale path after the client's account has been created — changes nothing. *)
Theorem refused_operation_changes_nothing : forall (s : state) (o : op),
  snd (step s o) <> Ok -> fst (step s o) = s.
Proof. exact failed_op_is_noop. Qed.
Print Assumptions refused_operation_changes_nothing.
